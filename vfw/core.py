"""Check framework: runs the deductive part (pyvc obligations) and the bounded stand-in of a property,
applies the verdict protocol of DESIGN.md section 5, writes evidence and replay files.

Exit codes: 0 held / 1 violation (VIOLATION line printed) / 2 undecided / 3 checker error.
"""
import json
import os
import re
import sys
import time
import traceback

ROOT = os.path.dirname(os.path.dirname(os.path.abspath(__file__)))
EVID = os.path.join(ROOT, "evidence")
REPLAYS = os.path.join(ROOT, "replays")
KNOWN = os.path.join(ROOT, "known_findings.jsonl")

ASSUMPTIONS_ENGINE = [
    "A1 Python ints are mathematical integers (exact)",
    "A2 floats are extended reals (kind,value): NaN excluded, no rounding - machine arithmetic treated as mathematical",
    "A3 CPython list/dict/set semantics as axiomatised in pyvc/builtins.py (cross-checked natively by the bounded tier)",
    "A4 attribute access has no hidden side effects other than the properties under contract",
    "A5 no concurrent mutation, no __del__/gc effects, no monkeypatching of classes under contract",
    "A6 dynamic dispatch resolved by the class named in the contract case",
    "A7 identifiers do not change while a container operation runs",
    "A8 only modelled exceptions occur (no MemoryError/RecursionError/KeyboardInterrupt)",
    "identifier strings are an uninterpreted sort (no string theory); partial correctness except where a variant is stated",
]


def scan_assumptions():
    """mechanical scan, run before every report: where do the loaded contract modules ASSUME something instead of proving it -
    `st.assume(...)` sites inside hook / result-builder functions (the meaning given to external calls) and contracts marked
    `assumed=True`.  One line per module; the hand-written trusted base says what those assumptions are."""
    import ast
    import sys
    out = []
    for name, mod in sorted(sys.modules.items()):
        if not name.startswith("contracts.") or not getattr(mod, "__file__", None):
            continue
        try:
            tree = ast.parse(open(mod.__file__).read())
        except (OSError, SyntaxError):
            continue
        sites, assumed = {}, 0
        for top in tree.body:
            for n in ast.walk(top):
                if isinstance(n, ast.Call):
                    if isinstance(n.func, ast.Attribute) and n.func.attr == "assume":
                        fn = getattr(top, "name", "<module level>")
                        sites[fn] = sites.get(fn, 0) + 1
                    for kw in n.keywords:
                        if kw.arg == "assumed" and isinstance(kw.value, ast.Constant) and kw.value.value is True:
                            assumed += 1
        if sites or assumed:
            fns = ", ".join(f"{k} x{v}" for k, v in sorted(sites.items()))
            out.append(f"scan {name.replace('.', '/')}.py: {sum(sites.values())} assume site(s) in hooks / builders"
                       f"{' (' + fns + ')' if fns else ''}; {assumed} contract(s) marked assumed=True")
    return out


def load_known():
    out = []
    if os.path.exists(KNOWN):
        for line in open(KNOWN):
            line = line.strip()
            if line and not line.startswith("#"):
                out.append(json.loads(line))
    return out


def _path_free(name):
    return re.sub(r"(exit=(?:return|raise:[A-Za-z_.]+))#\d+", r"\1", re.sub(r"~\d+", "", name))


class Report:
    def __init__(self, pid, tier, seed, level):
        self.pid, self.tier, self.seed, self.level = pid, tier, seed, level
        self.t0 = time.time()
        self.functions = []          # function_info dicts
        self.obligations = []        # records
        self.undecided = []          # text
        self.errors = []             # checker errors
        self.violations = []         # dicts: {what, replay(dict), suffix}
        self.known_hits = []
        self.bounded = {"evaluations": 0, "distinct_nontrivial": 0, "rule": "", "samples": [], "bounds": {}, "parts": []}
        self.trusted = []
        self.assumptions = list(ASSUMPTIONS_ENGINE)
        self.explanation = ""
        self.extra = {}
        self.known = [k for k in load_known() if k.get("property") == pid and k.get("status", "open") == "open"]
        # baseline of the unchanged tree (committed, never written at check time; tools/make_baseline.py): per contract the sha256 of
        # the verified source segment and the names of the obligations that were discharged there
        self.baseline = None
        self.cur_sha = {}
        try:
            with open(os.path.join(ROOT, "baseline", f"{pid}.json")) as fh:
                self.baseline = json.load(fh)
        except Exception:  # noqa
            self.baseline = None

    # ---------------------------------------------------------------- deductive part
    def add_pyvc(self, reg, keys, hooks=None, fallback=None):
        """Run the contracts `keys`; `fallback(contract_key, case, record)` -> failing native input (dict) or None."""
        from pyvc import run as R
        cons = [reg.get(k) for k in keys]
        missing = [k for k, c in zip(keys, cons) if c is None]
        if missing:
            self.errors.append(f"contracts not registered: {missing}")
            cons = [c for c in cons if c is not None]
        for c in cons:
            if c.assumed:
                self.trusted.append(f"assumed contract (not verified against its body): {c.name} - {c.note}")
                continue
            try:
                fi_ = R.function_info(c)
                self.functions.append(fi_)
                self.cur_sha[c.key] = fi_["sha256"]
            except Exception as e:  # noqa
                self.undecided.append(f"{c.name}: source not found ({e})")
        try:
            results = R.run_contracts(reg, [c for c in cons if not c.assumed], hooks=hooks,
                                      second=(self.tier == "thorough"))
        except Exception:  # noqa
            self.errors.append("pyvc crashed: " + traceback.format_exc()[-1500:])
            return
        from pyvc import pool as _pool
        if _pool.CRASHES:
            print(f"NOTE [{self.pid}] a solver worker process died and its tasks were run again: {_pool.CRASHES}", flush=True)
            del _pool.CRASHES[:]
        per_fn = {}
        for r in results:
            for k_, note_ in (r.get("assumed_used") or {}).items():
                t_ = f"assumed contract applied at a call site (not verified against its body): {k_} - {note_}"
                if t_ not in self.trusted:
                    self.trusted.append(t_)
            per_fn.setdefault(r["contract"], 0)
            per_fn[r["contract"]] += len(r["records"])
            if r["error"]:
                if "checker exception" in r["error"]:
                    # typically a sidecar invariant naming a local that the edited function no longer has: structural
                    # breakage is undecided (DESIGN 5.2), never a violation; the bounded tier still runs
                    self.undecided.append(f"{r['contract']} case={r['case']}: contract no longer matches the code: {r['error']}")
                elif "vacuous" in r["error"] or "no feasible path" in r["error"]:
                    self.errors.append(f"{r['contract']} case={r['case']}: {r['error']}")
                else:
                    self.undecided.append(f"{r['contract']} case={r['case']}: {r['error']}")
            if r["unsupported"]:
                self.undecided.append(f"{r['contract']} case={r['case']}: outside the supported subset: {r['unsupported']}")
            for rec in r["records"]:
                rec = dict(rec, contract=r["contract"], case=r["case"])
                self.obligations.append(rec)
                if rec["result"] == "unsat":
                    continue
                self._failed_obligation(rec, fallback)
        for c in cons:
            if not c.assumed and per_fn.get(c.key, 0) == 0:
                self.errors.append(f"{c.name}: zero obligations generated")

    def add_lemmas(self, obls, fallback=None):
        """glue lemmas over the contracts (closed formulas), discharged by the same back ends"""
        from pyvc import solve
        res = solve.discharge(obls, second=(self.tier == "thorough"))
        for o in obls:
            r, backend, t, info, agree = res[o.name]
            rec = {"name": o.name, "kind": "lemma", "result": r, "backend": backend, "seconds": round(t, 3),
                   "info": info if r != "unsat" else "", "agree": agree, "witness": None, "contract": "lemma", "case": "-"}
            self.obligations.append(rec)
            if r != "unsat":
                self._failed_obligation(rec, fallback)

    def add_records(self, records, what="frame"):
        """obligation records produced by another deductive checker (e.g. the frame analysis)"""
        for r in records:
            res = {"discharged": "unsat", "failed": "sat", "undecided": "unknown"}[r["result"]]
            rec = {"name": r["name"], "kind": what, "result": res, "backend": r.get("backend", "frame-check"),
                   "seconds": r.get("seconds", 0.0), "info": r.get("detail", ""), "agree": None, "witness": None,
                   "contract": r.get("function", what), "case": "-"}
            self.obligations.append(rec)
            if res == "unsat":
                continue
            if self._is_known(rec["name"]):
                continue
            if res == "sat":
                self.violations.append({"what": rec["name"], "obligation": rec, "native": r.get("native"),
                                        "suffix": "" if r.get("native") else " no-failing-input-found"})
            else:
                self.undecided.append(f"{rec['name']}: {rec['info']}")

    def _failed_obligation(self, rec, fallback):
        native = None
        if fallback is not None:
            try:
                native = fallback(rec["contract"], rec["case"], rec)
            except Exception:  # noqa
                self.errors.append("fallback search crashed: " + traceback.format_exc()[-800:])
        if self._is_known(rec["name"], native):
            return
        if rec["result"] == "sat":
            self.violations.append({"what": rec["name"], "obligation": rec, "native": native,
                                    "suffix": "" if native else " no-failing-input-found"})
        elif native is not None:
            self.violations.append({"what": rec["name"], "obligation": rec, "native": native, "suffix": ""})
        elif self._regressed(rec):
            # not decided by the solvers, no failing input found - but this very obligation WAS discharged on the unchanged tree and
            # the source of the function it belongs to has changed since: reported as a violation of that obligation, with the
            # solver's output, marked no-failing-input-found (an unchanged function with an undecided obligation stays undecided)
            rec = dict(rec, info=(rec.get("info") or "") + " | discharged on the unchanged tree (baseline); the function's source "
                       "has changed; now " + str(rec["result"]))
            self.violations.append({"what": rec["name"], "obligation": rec, "native": None, "suffix": " no-failing-input-found"})
        else:
            self.undecided.append(f"obligation {rec['name']}: {rec['result']} ({rec['backend']}) and no failing input found "
                                  f"by the bounded search")

    def _regressed(self, rec):
        b = self.baseline
        if not b:
            return False
        key = rec.get("contract")
        old_sha, new_sha = (b.get("contracts") or {}).get(key), self.cur_sha.get(key)
        if not old_sha or not new_sha or old_sha == new_sha:
            return False
        # names are compared modulo the path ordinals (`~n` duplicate counter, `#k` exit ordinal): the same post-condition / invariant
        # conjunct of the same case on a path that did not exist before (the change added a branch) is the same named obligation
        base = {_path_free(n) for n in (b.get("discharged") or ())}
        return _path_free(rec["name"]) in base

    def _is_known(self, name, native=None):
        """A recorded finding suppresses exactly what it lists: an obligation by name, a bounded witness by its exact id
        (entry `witnesses`, failure field `witness`) within its class (`witness_class` == failure `key`), or - only for classes
        whose every witness is one fixed input - the class key itself (entry `witness`)."""
        for k in self.known:
            if k.get("obligation") and k["obligation"] == name:
                if k not in self.known_hits:
                    self.known_hits.append(k)
                return True
            if native is not None:
                if k.get("witnesses") is not None and k.get("witness_class") == native.get("key") \
                        and native.get("witness") in k["witnesses"]:
                    if k not in self.known_hits:
                        self.known_hits.append(k)
                    return True
                if k.get("witness") and k.get("witnesses") is None and k["witness"] == native.get("key"):
                    if k not in self.known_hits:
                        self.known_hits.append(k)
                    return True
        return False

    # ---------------------------------------------------------------- bounded part
    def add_bounded(self, name, evaluations, distinct, failures, samples, rule, bounds, exhaustive=False):
        b = self.bounded
        b["evaluations"] += evaluations
        b["distinct_nontrivial"] += distinct
        b["samples"].extend(samples[:3])
        b["parts"].append({"name": name, "evaluations": evaluations, "distinct_nontrivial": distinct, "rule": rule,
                           "bounds": bounds, "exhaustive": exhaustive, "failures": len(failures)})
        b["rule"] = (b["rule"] + " | " if b["rule"] else "") + f"{name}: {rule}"
        seen = set()
        for f in failures:
            key = f.get("key") or f.get("failure", "")[:80]
            ident = (key, f.get("witness"))
            if ident in seen:
                continue
            seen.add(ident)
            if self._is_known(None, dict(f, key=key)):
                continue
            if len([v for v in self.violations if v.get("bounded")]) < 5:
                self.violations.append({"what": f"bounded:{name}:{key}", "native": f, "bounded": True, "suffix": ""})

    # ---------------------------------------------------------------- finish
    def finish(self):
        os.makedirs(EVID, exist_ok=True)
        n_obl = len(self.obligations)
        n_dis = sum(1 for o in self.obligations if o["result"] == "unsat")
        for k in self.known_hits:
            print(f"KNOWN-FINDING: property={self.pid} {k.get('what', '')}")
        # replay files
        lines = []
        if self.violations:
            os.makedirs(os.path.join(REPLAYS, self.pid), exist_ok=True)
        for i, v in enumerate(self.violations):
            path = os.path.join(REPLAYS, self.pid, f"violation_{i}.json")
            payload = {"property": self.pid, "what": v["what"], "tier": self.tier}
            if v.get("obligation"):
                o = v["obligation"]
                payload["failed_obligation"] = o["name"]
                payload["solver"] = {"result": o["result"], "backend": o["backend"], "seconds": o["seconds"],
                                     "output": o.get("info", "")}
                payload["counter_model_witness"] = o.get("witness")
            if v.get("native"):
                nat = {k: x for k, x in v["native"].items() if not k.startswith("_")}
                payload["failing_input"] = nat
            else:
                payload["failing_input"] = None
                payload["note"] = "no-failing-input-found: the verifier's output is attached; no concrete input replayed"
            with open(path, "w") as fh:
                json.dump(payload, fh, indent=1, default=str)
            lines.append(f"VIOLATION property={self.pid} replay={path}{v['suffix']}")
        level = self.level
        if level == "proof" and (n_dis != n_obl or n_obl == 0):
            level = "other"
        cov = {
            "obligations": n_obl, "discharged": n_dis,
            "checker_cmd": f"./check {self.pid} --tier {self.tier}",
            "trusted_base": sorted(set(self.trusted)),
            "explanation": self.explanation,
            "functions_under_contract": self.functions,
            "obligation_records": [{k: o[k] for k in ("name", "kind", "result", "backend", "seconds")} for o in self.obligations],
            "backends": _count(o["backend"] for o in self.obligations if o["result"] == "unsat"),
            "solver_seconds": round(sum(o["seconds"] for o in self.obligations), 2),
            "undecided": self.undecided, "checker_errors": self.errors,
            "known_findings": [k.get("what") for k in self.known_hits],
            "bounded": {k: self.bounded[k] for k in ("parts", "bounds")},
            "evaluations": max(self.bounded["evaluations"], 0) or n_obl,
            "distinct_nontrivial": self.bounded["distinct_nontrivial"] or n_obl,
            "rule": self.bounded["rule"] or "one evaluation per generated obligation",
            "samples": (self.bounded["samples"] or []) + [o["name"] for o in self.obligations[:3]],
            "exhaustive": all(p.get("exhaustive") for p in self.bounded["parts"]) if self.bounded["parts"] else False,
        }
        cov.update(self.extra)
        ev = {"property_id": self.pid, "tier": self.tier, "seed": self.seed, "level": level, "coverage": cov,
              "assumptions": self.assumptions + scan_assumptions(), "wall_s": round(time.time() - self.t0, 2), "violations": len(self.violations)}
        with open(os.path.join(EVID, f"{self.pid}.json"), "w") as fh:
            json.dump(ev, fh, indent=1, default=str)
        print(f"[{self.pid}] tier={self.tier} obligations={n_obl} discharged={n_dis} bounded_evaluations="
              f"{self.bounded['evaluations']} undecided={len(self.undecided)} errors={len(self.errors)} "
              f"violations={len(self.violations)} wall={ev['wall_s']}s")
        if os.environ.get("VERIF_SHOW_SLOW"):      # development aid: the slowest obligations of this run
            for r in sorted(cov.get("obligation_records", []), key=lambda r: -(r.get("seconds") or 0))[:int(os.environ["VERIF_SHOW_SLOW"])]:
                print(f"  SLOW {r.get('seconds', 0):8.1f}s {r.get('backend')} {r.get('name')}")
        for u in self.undecided[:20]:
            print("  UNDECIDED:", u)
        for e in self.errors[:20]:
            print("  CHECKER-ERROR:", e)
        for l in lines:
            print(l)
        if lines:
            return 1
        if self.errors:
            return 3
        if self.undecided:
            return 2
        return 0


def _count(it):
    d = {}
    for x in it:
        d[x] = d.get(x, 0) + 1
    return d
