import argparse
import importlib
import json
import os
import sys
import traceback

ROOT = os.path.dirname(os.path.dirname(os.path.abspath(__file__)))
sys.path.insert(0, ROOT)
from vfw.core import Report  # noqa


def main():
    ap = argparse.ArgumentParser()
    ap.add_argument("pid")
    ap.add_argument("--tier", default=os.environ.get("VERIF_TIER", "quick"), choices=["quick", "thorough"])
    ap.add_argument("--replay")
    a = ap.parse_args()
    seed = int(os.environ.get("VERIF_SEED", "0"))
    try:
        mod = importlib.import_module(f"props.{a.pid}")
    except Exception:  # noqa
        traceback.print_exc()
        return 3
    if a.replay:
        payload = json.load(open(a.replay))
        why = mod.replay(payload)
        if why is None and payload.get("failing_input") is None:
            print(f"replay: {a.replay} carries no concrete input (failed obligation {payload.get('failed_obligation')}); "
                  f"re-run ./check {a.pid} to re-generate the obligation")
            return 2
        if why:
            print(f"VIOLATION property={a.pid} replay={a.replay}")
            print("  still fails:", why)
            return 1
        print("replay: the recorded input no longer fails")
        return 0
    rep = Report(a.pid, a.tier, seed, mod.LEVEL)
    try:
        mod.run(rep)
    except Exception:  # noqa
        rep.errors.append("check crashed: " + traceback.format_exc()[-2000:])
    return rep.finish()


if __name__ == "__main__":
    sys.exit(main())
