import argparse
import importlib
import json
import os
import sys
import traceback

ROOT = os.path.dirname(os.path.dirname(os.path.abspath(__file__)))
sys.path.insert(0, ROOT)
from vfw.core import Report  # noqa


def _descendants(pid):
    kids = {}
    for d in os.listdir("/proc"):
        if d.isdigit():
            try:
                with open(f"/proc/{d}/stat") as f:
                    ppid = int(f.read().rsplit(")", 1)[1].split()[1])
                kids.setdefault(ppid, []).append(int(d))
            except (OSError, ValueError, IndexError):
                pass
    out, todo = [], [pid]
    while todo:
        for k in kids.get(todo.pop(), []):
            out.append(k)
            todo.append(k)
    return out


def _watchdog(pid, tier):
    """A check that hangs (a dead pool worker, a solver or GLPK call that never returns) must end as a checker error (exit 3), not
    run for ever: after VERIF_WATCHDOG_S seconds (default 1 h quick / 8 h thorough, far above any observed run) the check kills its
    worker processes and exits 3.  It never produces a verdict."""
    import signal
    limit = int(os.environ.get("VERIF_WATCHDOG_S", "3600" if tier == "quick" else "28800"))

    def fire(signum, frame):
        print(f"CHECKER-ERROR [{pid}] watchdog: no result after {limit} s - the check is stopped (exit 3, no verdict)", flush=True)
        for k in _descendants(os.getpid()):
            try:
                os.kill(k, signal.SIGKILL)
            except OSError:
                pass
        os._exit(3)
    signal.signal(signal.SIGALRM, fire)
    signal.alarm(limit)


def main():
    ap = argparse.ArgumentParser()
    ap.add_argument("pid")
    ap.add_argument("--tier", default=os.environ.get("VERIF_TIER", "quick"), choices=["quick", "thorough"])
    ap.add_argument("--replay")
    a = ap.parse_args()
    seed = int(os.environ.get("VERIF_SEED", "0"))
    try:
        mod = importlib.import_module(f"props.{a.pid}")
    except Exception:  # noqa
        traceback.print_exc()
        return 3
    if a.replay:
        payload = json.load(open(a.replay))
        why = mod.replay(payload)
        if why is None and payload.get("failing_input") is None:
            print(f"replay: {a.replay} carries no concrete input (failed obligation {payload.get('failed_obligation')}); "
                  f"re-run ./check {a.pid} to re-generate the obligation")
            return 2
        if why:
            print(f"VIOLATION property={a.pid} replay={a.replay}")
            print("  still fails:", why)
            return 1
        print("replay: the recorded input no longer fails")
        return 0
    rep = Report(a.pid, a.tier, seed, mod.LEVEL)
    _watchdog(a.pid, a.tier)
    try:
        mod.run(rep)
    except Exception:  # noqa
        rep.errors.append("check crashed: " + traceback.format_exc()[-2000:])
    return rep.finish()


if __name__ == "__main__":
    sys.exit(main())
