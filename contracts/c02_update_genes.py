"""C02 — Reaction.update_genes_from_gpr: the function through which every change of a gene rule updates reaction.genes and
gene.reactions.

Shape of the objects: the reaction `self` and its model are MATERIALISED (get_context is proved for that shape, model.genes is a
DictList with the C15 contracts); the cross-reference sets live in the HEAP as everywhere else in C02 (`_genes`, `_reaction`,
`_model`, `_id` : arrays over Ref), the reaction's own entries at its identity r = ident(self).  The hooks below read and write
`self._genes` at r and apply the contracts of `_associate_gene` / `_dissociate_gene` (proved in c02_xref for every reaction
reference) at r.  Glue precondition: the heap's `_model[r]` is the materialised model.

Ghost state: rule_names(gpr) : Id -> Bool, the set of gene names occurring in the rule tree (what `GPR.genes` returns: ASSUMED
contract); N = rule_names(self._gpr) when the rule has a body, the empty set when it has none.
"""
import z3
from .common import *  # noqa
from . import c15_dictlist, c02_xref  # noqa
from . import c03_context as C3
from pyvc.values import ident_of, _IDENTS
from pyvc.state import alloc_set

MR = "cobra/core/reaction.py"
MGENE = "cobra/core/gene.py"
IdSet = z3.ArraySort(Id, z3.BoolSort())
RefSet = z3.ArraySort(Ref, z3.BoolSort())
REG.fields.update({"_genes": "set:ref:Gene", "_reaction": "set:ref:Reaction", "_model": "ref:Model", "body": "ref:AstNode"})
REG.classes.setdefault("AstNode", [])
REG.classes.setdefault("Module", ["AstNode"])      # GPR(ast.Module): `body` is the heap field of the rule-tree root (as in C07)
rule_names = z3.Function("rule_names", Ref, IdSet)


def H(E, st, f):
    return E.eng.heap_arr(st, f)


# ---------------------------------------------------------------- the objects
def _model_t():
    return TObj("Model", {"_contexts": TList("ref:HistoryManager"), "genes": TDictList("Gene")})


def _self_t(in_model=True):
    return TObj("Reaction", {"_model": _model_t() if in_model else TNone(), "_gpr": TRef("GPR")})


def rid(E):
    return ident_of(E["self"].oid)


def model_of(E):
    return E.s0.objs[E["self"].oid]["attr:_model"]


def mid(E):
    return ident_of(model_of(E).oid)


def mgenes(E):
    """the DictList model.genes (a materialised list + index)"""
    return E.s0.objs[model_of(E).oid]["attr:genes"]


def gpr_of(E):
    return E.s0.objs[E["self"].oid]["attr:_gpr"].t


def in_N(E, k):
    """k is a gene name of the rule (no name when the rule has no body)"""
    g = gpr_of(E)
    return z3.And(H(E, E.s0, "body")[g] != NULL, z3.Select(rule_names(g), k))


def in_old_list(E, g):
    """g is a member of model.genes at entry (under WF: the element found under its own identifier)"""
    n0, e0 = L(E.s0, mgenes(E))
    dm0, vl0 = Dv(E.s0, mgenes(E))
    k = H(E, E.s0, "_id")[g]
    return z3.And(z3.Select(dm0, k), e0[vl0[k]] == g)


# ---------------------------------------------------------------- hooks: the materialised reaction's heap-resident fields
def _is_rxn(v):
    return isinstance(v, VObj) and v.kind == "obj" and v.cls == "Reaction"


def getattr_hook(eng, st, v, name):
    if _is_rxn(v) and name == "_genes":
        r = ident_of(v.oid)
        st2, sv = alloc_set(st, "ref:Gene", dom=z3.Select(eng.heap_arr(st, "_genes"), r))
        return [("ok", st2.updobj(sv.oid, origin=("_genes", r)), sv)]      # mutations write through (pyvc/builtins.py: commit)
    return None


def setattr_hook(eng, st, v, name, val):
    if _is_rxn(v) and name == "_genes":
        # self._genes = <a set that has no other name: `set()` or a set display / comprehension>
        if not (isinstance(val, VObj) and val.kind == "set"):
            raise Unsupported("Reaction._genes assigned something that is not a set")
        rec = st.objs[val.oid]
        if rec.get("lazy"):
            dom = z3.K(Ref, z3.BoolVal(False))
        elif rec["kkind"].startswith("ref"):
            dom = rec["dom"]
        else:
            raise Unsupported("Reaction._genes assigned a set of non-objects")
        r = ident_of(v.oid)
        return [("ok", st.setheap("_genes", z3.Store(eng.heap_arr(st, "_genes"), r, dom)), NONE)]
    return None


def call_method_hook(eng, st, recv, name, pos, kw):
    if _is_rxn(recv) and name in ("_associate_gene", "_dissociate_gene"):
        # by the contract proved in c02_xref for every non-null reaction reference, applied at the identity of `self`
        return eng.apply_contract(st, eng.reg.get("Reaction." + name), [VRef(ident_of(recv.oid), "Reaction")] + list(pos), kw)
    return None


# ---------------------------------------------------------------- undo registrations: a symbolic ghost trace
# utrace = (n, kind, arg, ctx, where): entry j < n is the registration, in manager ctx[j], of
#   kind 1  partial(model.genes.__isub__, [arg])      kind 2  partial(setattr, arg, "_model", None)
#   kind 3  partial(self._dissociate_gene, arg)       kind 4  partial(self._associate_gene, arg)
# where[c][g] = the position of the latest entry of kind c for gene g (ghost witness map, updated at each registration)
K_ISUB, K_UNSET, K_DISS, K_ASSOC = 1, 2, 3, 4
WhereSort = z3.ArraySort(z3.IntSort(), z3.ArraySort(Ref, z3.IntSort()))
UT0 = (z3.IntVal(0), z3.K(z3.IntSort(), z3.IntVal(0)), z3.K(z3.IntSort(), NULL), z3.K(z3.IntSort(), NULL),
       z3.K(z3.IntSort(), z3.K(Ref, z3.IntVal(-1))))


def utrace(st):
    return st.ghost.get("utrace", UT0)


def havoc_utrace(st):
    n = fresh("ut_n", z3.IntSort())
    return (n, fresh("ut_kind", z3.ArraySort(z3.IntSort(), z3.IntSort())), fresh("ut_arg", z3.ArraySort(z3.IntSort(), Ref)),
            fresh("ut_ctx", z3.ArraySort(z3.IntSort(), Ref)), fresh("ut_where", WhereSort))


def _classify(eng, st, f):
    """-> (kind, gene term) of a registered undo function, or Unsupported"""
    if isinstance(f, VFunc) and f.kind == "partial" and not f.c:
        a, b = f.a, tuple(f.b)
        self_v = eng.entry_args.get("self")
        if isinstance(a, VFunc) and a.kind == "bound" and _is_rxn(a.a) and a.a.oid == self_v.oid and len(b) == 1 \
                and isinstance(b[0], VRef) and a.b in ("_dissociate_gene", "_associate_gene"):
            return (K_DISS if a.b == "_dissociate_gene" else K_ASSOC), b[0].t
        if isinstance(a, VFunc) and a.kind == "builtin" and a.a == "setattr" and len(b) == 3 and isinstance(b[0], VRef) \
                and isinstance(b[1], VConc) and b[1].py == "_model" and isinstance(b[2], VNone):
            return K_UNSET, b[0].t
        mg = st.objs[st.objs[self_v.oid]["attr:_model"].oid]["attr:genes"] if isinstance(st.objs[self_v.oid].get("attr:_model"), VObj) else None
        if isinstance(a, VFunc) and a.kind == "bound" and isinstance(a.a, VObj) and mg is not None and a.a.oid == mg.oid \
                and a.b == "__isub__" and len(b) == 1 and isinstance(b[0], VObj) and b[0].kind == "list":
            rec = st.objs[b[0].oid]
            if z3.is_int_value(z3.simplify(rec["len"])) and z3.simplify(rec["len"]).as_long() == 1 and rec["ekind"].startswith("ref"):
                return K_ISUB, z3.simplify(z3.Select(rec["elem"], 0))
    raise Unsupported(f"undo registration of an unrecognised function {f!r}"[:200])


def call_object_hook(eng, st, f, pos, kw):
    """context(undo): HistoryManager.__call__ by its contract (C03: the operation is appended to that manager's history); the
    event is recorded in the symbolic ghost trace"""
    if isinstance(f, VRef) and f.cls == "HistoryManager" and len(pos) == 1 and not kw:
        kind, g = _classify(eng, st, pos[0])
        n, kd, ar, cx, wh = utrace(st)
        ut = (n + 1, z3.Store(kd, n, z3.IntVal(kind)), z3.Store(ar, n, g), z3.Store(cx, n, f.t),
              z3.Store(wh, z3.IntVal(kind), z3.Store(z3.Select(wh, z3.IntVal(kind)), g, n)))
        return [("ok", st.setghost("utrace", ut), NONE)]
    return None


HOOKS = chain_hooks({"getattr": getattr_hook, "setattr": setattr_hook, "call_method": call_method_hook,
                     "call_object": call_object_hook})


# ---------------------------------------------------------------- assumed: GPR.genes, Gene(id)
def _names_result(eng, st, E):
    return alloc_set(st, "id", dom=rule_names(E["self"].t))


REG.add(Contract(MGENE, "GPR.genes@getter", "C02", [("self", TRef("GPR"))], [Case("any")], assumed=True, key="GPR.genes@getter",
                 result=_names_result,
                 note="ghost rule_names(gpr): returns (a frozenset of) the gene names occurring in the rule tree; the only thing it "
                      "writes is the GPR object's private name cache (an attribute that is also called `_genes`, a set of strings, "
                      "not part of the heap model)"))


def fresh_object(E, st, g):
    """g did not exist in state st: it is not None, not one of the materialised objects, not an element of any list / set /
    DictList of the state and not referenced by any reference- or set-valued heap field"""
    cs = [g != NULL]
    for oid, ident in list(_IDENTS.items()):
        if oid in st.objs:
            cs.append(g != ident)
    for oid, rec in st.objs.items():
        if "elem" in rec and "len" in rec and str(rec.get("ekind", "")).startswith("ref"):
            j = qv("fj")
            cs.append(FA([j], z3.Implies(z3.And(0 <= j, j < rec["len"]), z3.Select(rec["elem"], j) != g),
                         patterns=[z3.Select(rec["elem"], j)]))
        elif "dom" in rec and "val" not in rec and str(rec.get("kkind", "")).startswith("ref"):
            cs.append(z3.Not(z3.Select(rec["dom"], g)))
    for f, kind in E.eng.reg.fields.items():
        arr = E.eng.heap_arr(st, f)
        x = qv("fx", Ref)
        if kind.startswith("set:ref"):
            cs.append(FA([x], z3.Not(z3.Select(z3.Select(arr, x), g)), patterns=[z3.Select(z3.Select(arr, x), g)]))
        elif kind.startswith("ref"):
            cs.append(FA([x], z3.Select(arr, x) != g, patterns=[z3.Select(arr, x)]))
    return z3.And(*cs)


_GENE_FIELDS = ("_id", "_model", "_reaction")


def _gene_init_post(E):
    g = E["self"].t
    x, y = qv("gx", Ref), qv("gy", Ref)
    cs = [fresh_object(E, E.s0, g),
          H(E, E.s1, "_id")[g] == unwrap(E["id"], "id"), H(E, E.s1, "_model")[g] == NULL,
          FA([y], z3.Not(H(E, E.s1, "_reaction")[g][y]), patterns=[H(E, E.s1, "_reaction")[g][y]])]
    for f in _GENE_FIELDS:
        a0, a1 = H(E, E.s0, f), H(E, E.s1, f)
        cs.append(FA([x], z3.Implies(x != g, a1[x] == a0[x]), patterns=[a1[x]]))
    return z3.And(*cs)


REG.add(Contract(MGENE, "Gene.__init__", "C02", [("self", TRef("Gene")), ("id", TStr())], [Case("new", ensures=_gene_init_post)],
                 assumed=True, key="Gene.__init__", result=lambda eng, st, E: (st, VRef(fresh("gene", Ref), "Gene")),
                 modifies=lambda E: [("heap", f) for f in _GENE_FIELDS],
                 note="object allocation, Gene(id): a NEW object - not None, different from every existing object, contained in no "
                      "existing list / set / DictList, referenced by no `_genes` / `_reaction` / `_model` field - with the given "
                      "identifier, no model and an empty reaction set (Species.__init__); no existing object is modified"))




# ---------------------------------------------------------------- DictList.append at the call site: the index, explicitly
def index_after_append(E, s0, s1, dl, x):
    """consequence of WF(s0), WF(s1) and `s1 = s0 + [x]` (lemma `append-index` below): the index keeps every old key at its old
    position and gains exactly the identifier of x, at the old length"""
    n0, _ = L(s0, dl)
    dm0, vl0 = Dv(s0, dl)
    dm1, vl1 = Dv(s1, dl)
    kx = H(E, s0, "_id")[x]
    k = qv("ak", Id)
    return z3.And(vl1[kx] == n0,
                  FA([k], z3.And(z3.Select(dm1, k) == z3.Or(z3.Select(dm0, k), k == kx),
                                 z3.Implies(z3.Select(dm0, k), vl1[k] == vl0[k])), patterns=[z3.Select(dm0, k), z3.Select(dm1, k)]))


def lemmas():
    """append-index: closed formula over two arbitrary DictList states; its conclusion is what call_method_hook assumes after
    model.genes.append(x) (whose contract - C15 - gives WF before, WF after and the new sequence)"""
    from pyvc.engine import Engine, Obl
    from pyvc.state import State
    from pyvc.loops import havoc_locations
    eng = Engine(REG)
    st0, dl = TDictList("Gene").make(State(), "lm_genes")
    st1 = havoc_locations(eng, st0, [("list", dl), ("dict", dict_of(st0, dl))])
    x = z3.Const("lm_x", Ref)
    E = Env({"self": dl}, st0, st1, eng=eng)
    n0, _ = L(st0, dl)
    hyps = [WF(E, st0, dl), WF(E, st1, dl), c15_dictlist.inserted_at(E, dl, n0, x)]
    return [Obl("C02/lemma/append-index", hyps, index_after_append(E, st0, st1, dl, x), "lemma")] + xref_lemma()


def _is_model_genes(eng, st, recv):
    s = (getattr(eng, "entry_args", None) or {}).get("self")
    if not (_is_rxn(s) and isinstance(recv, VObj) and recv.cls == "DictList"):
        return False
    m = st.objs[s.oid].get("attr:_model")
    return isinstance(m, VObj) and isinstance(st.objs[m.oid].get("attr:genes"), VObj) and st.objs[m.oid]["attr:genes"].oid == recv.oid


def append_hook(eng, st, recv, name, pos, kw):
    if name == "append" and len(pos) == 1 and not kw and isinstance(pos[0], VRef) and _is_model_genes(eng, st, recv):
        outs = eng.apply_contract(st, eng.reg.get("DictList.append"), [recv] + list(pos), kw)
        E = Env({}, st, eng=eng)
        return [(k, s2.assume(index_after_append(E, st, s2, recv, pos[0].t)) if k == "ok" else s2, v) for k, s2, v in outs]
    return None


HOOKS = chain_hooks(HOOKS, {"call_method": append_hook})


# ---------------------------------------------------------------- specification
def _pre(E):
    """model.genes is a well-formed DictList; glue: the heap's model pointer of the reaction is the materialised model; the context
    stack holds managers"""
    return z3.And(WF(E, E.s0, mgenes(E)), H(E, E.s0, "_model")[rid(E)] == mid(E), C3._ctx_nonnull(E, "self"))


def new_here(E, gset, y):
    """y is one of the genes of gset that is not a member of model.genes at entry: an object created by this call"""
    return z3.And(gset[y], z3.Not(in_old_list(E, y)))


def _list_part(E, st, names):
    """model.genes in state st against the entry state: well formed, the old members first and unchanged, every further member is a
    gene created here - its identifier is one of the rule names (`names`: those handled so far) for which the model had no gene, it
    points at the model, it is one of the reaction's genes, it was not a member before"""
    mg, r = mgenes(E), rid(E)
    n0, e0 = L(E.s0, mg)
    n, e = L(st, mg)
    dm0, _ = Dv(E.s0, mg)
    ida, ida0 = H(E, st, "_id"), H(E, E.s0, "_id")
    G, G0, Mo = H(E, st, "_genes"), H(E, E.s0, "_genes"), H(E, st, "_model")
    j, x = qv("lj"), qv("lx", Ref)
    return [WF(E, st, mg), n >= n0,
            FA([j], z3.Implies(z3.And(0 <= j, j < n0), z3.And(e[j] == e0[j], ida[e0[j]] == ida0[e0[j]])), patterns=[e[j], e0[j]]),
            FA([j], z3.Implies(z3.And(n0 <= j, j < n),
                               z3.And(names(ida[e[j]]), z3.Not(z3.Select(dm0, ida[e[j]])), Mo[e[j]] == mid(E), G[r][e[j]],
                                      z3.Not(in_old_list(E, e[j])))), patterns=[e[j]])]


def _set_part(E, st, names, gset, name_pats=lambda k: []):
    """the gene set `gset` (Ref -> Bool) against model.genes of state st: a gene of the set is the model's gene for its own
    identifier, which is one of `names`; conversely every one of `names` has a gene in the model and that gene is in the set"""
    mg = mgenes(E)
    n, e = L(st, mg)
    dm, vl = Dv(st, mg)
    ida = H(E, st, "_id")
    g, k = qv("sg", Ref), qv("sk", Id)
    return [FA([g], z3.Implies(gset[g], z3.And(z3.Select(dm, ida[g]), e[vl[ida[g]]] == g, names(ida[g]))), patterns=[gset[g]]),
            FA([k], z3.Implies(names(k), z3.And(z3.Select(dm, k), gset[e[vl[k]]])), patterns=[z3.Select(dm, k)] + name_pats(k))]


def _untouched_part(E, st, gset):
    """only objects created here have another identifier / model pointer / reaction set than at entry (loop over the names: nothing
    is associated yet); no other reaction's gene set has changed; a created gene was in no reaction's gene set at entry; the reaction
    still points at the model"""
    r = rid(E)
    g, x = qv("ug", Ref), qv("ux", Ref)
    cs = []
    for f in ("_id", "_model"):
        a, a0 = H(E, st, f), H(E, E.s0, f)
        cs.append(FA([g], z3.Implies(a[g] != a0[g], new_here(E, gset, g)), patterns=[a[g]]))
    Rx, Rx0 = H(E, st, "_reaction"), H(E, E.s0, "_reaction")
    cs.append(FA([g, x], z3.Implies(Rx[g][x] != Rx0[g][x], new_here(E, gset, g)), patterns=[Rx[g][x]]))
    G, G0 = H(E, st, "_genes"), H(E, E.s0, "_genes")
    cs.append(FA([x], z3.Implies(x != r, G[x] == G0[x]), patterns=[G[x]]))
    cs.append(FA([g, x], z3.Implies(new_here(E, gset, g), z3.Not(G0[x][g])), patterns=[G0[x][g]]))   # created: listed nowhere at entry
    cs.append(H(E, st, "_model")[r] == mid(E))
    return cs


def _set_dom(st, v):
    rec = st.objs[v.oid]
    return z3.K(Ref, z3.BoolVal(False)) if rec.get("lazy") else rec["dom"]


# ---------------------------------------------------------------- undo registrations (ghost trace), per loop
def _ctx_var(Lc):
    """the local `context`: None, or the manager get_context returned"""
    c = Lc.var("context")
    return c.t if isinstance(c, VRef) else None


def _entry_ok(kd, ar, cx, wh, j, c, kinds, about):
    """entry j: registered in manager c, of one of `kinds`, for a gene satisfying `about`, and it is THE entry of that kind for
    that gene (where-map): no second registration of the same undo"""
    return z3.And(cx[j] == c, z3.Or(*[kd[j] == k for k in kinds]), about(ar[j]), wh[kd[j]][ar[j]] == j)


def _has_entry(kd, ar, wh, g, k, lo, n):
    w = wh[z3.IntVal(k)][g]
    return z3.And(lo <= w, w < n, kd[w] == k, ar[w] == g)


def _trace_prefix_kept(st, en, kinds):
    """the entries registered before the loop was entered (state en) and the where-maps of the earlier kinds are as they were"""
    n, kd, ar, cx, wh = utrace(st)
    nA, kdA, arA, cxA, whA = utrace(en)
    j = qv("tj")
    return [n >= nA, nA >= 0,
            FA([j], z3.Implies(z3.And(0 <= j, j < nA), z3.And(kd[j] == kdA[j], ar[j] == arA[j], cx[j] == cxA[j])),
               patterns=[kd[j], ar[j], cx[j]])] + [wh[z3.IntVal(k)] == whA[z3.IntVal(k)] for k in kinds]


def _trace_names(E, Lc):
    """loop 0: exactly two entries per gene created so far - the removal from model.genes, then (registered after it, hence run
    before it) the reset of its model pointer"""
    st, c = Lc.st, _ctx_var(Lc)
    n, kd, ar, cx, wh = utrace(st)
    if c is None:
        return [n == 0]
    G = H(E, st, "_genes")
    created = lambda y: new_here(E, G[rid(E)], y)  # noqa
    j, g = qv("tj"), qv("tg", Ref)
    w1, w2 = wh[z3.IntVal(K_ISUB)][g], wh[z3.IntVal(K_UNSET)][g]
    return [n >= 0,
            FA([j], z3.Implies(z3.And(0 <= j, j < n), _entry_ok(kd, ar, cx, wh, j, c, (K_ISUB, K_UNSET), created)), patterns=[kd[j], ar[j]]),
            FA([g], z3.Implies(created(g), z3.And(_has_entry(kd, ar, wh, g, K_ISUB, 0, n), _has_entry(kd, ar, wh, g, K_UNSET, 0, n),
                                                  w2 == w1 + 1)), patterns=[G[rid(E)][g], w1, w2])]


def _trace_assoc(E, Lc):
    """loop 1: one dissociation entry per gene handled so far that was NOT one of the reaction's genes at entry - a gene that was
    part of the reaction before stays part of it when the change is reverted"""
    st, en, c, i = Lc.st, Lc.entry, _ctx_var(Lc), Lc.i
    n, kd, ar, cx, wh = utrace(st)
    if c is None:
        return [n == 0]
    nA = utrace(en)[0]
    _, order, pos, D = Lc.seq.src
    old = H(E, E.s0, "_genes")[rid(E)]
    about = lambda y: z3.And(D[y], z3.Not(old[y]), pos[y] < i)  # noqa
    j, g = qv("tj"), qv("tg", Ref)
    return _trace_prefix_kept(st, en, (K_ISUB, K_UNSET)) + [
        FA([j], z3.Implies(z3.And(nA <= j, j < n), _entry_ok(kd, ar, cx, wh, j, c, (K_DISS,), about)), patterns=[kd[j], ar[j]]),
        FA([g], z3.Implies(about(g), _has_entry(kd, ar, wh, g, K_DISS, nA, n)), patterns=[pos[g], wh[z3.IntVal(K_DISS)][g]])]


def _trace_dissoc(E, Lc):
    """loop 2: one association entry per dropped gene handled so far"""
    st, en, c, i = Lc.st, Lc.entry, _ctx_var(Lc), Lc.i
    n, kd, ar, cx, wh = utrace(st)
    if c is None:
        return [n == 0]
    nA = utrace(en)[0]
    _, order, pos, D = Lc.seq.src
    about = lambda y: z3.And(D[y], pos[y] < i)  # noqa
    j, g = qv("tj"), qv("tg", Ref)
    return _trace_prefix_kept(st, en, (K_ISUB, K_UNSET, K_DISS)) + [
        FA([j], z3.Implies(z3.And(nA <= j, j < n), _entry_ok(kd, ar, cx, wh, j, c, (K_ASSOC,), about)), patterns=[kd[j], ar[j]]),
        FA([g], z3.Implies(about(g), _has_entry(kd, ar, wh, g, K_ASSOC, nA, n)), patterns=[pos[g], wh[z3.IntVal(K_ASSOC)][g]])]


# loop 0: `for g_id in new_gene_names` (ghost enumeration order / pos of the name set)
def _inv_names(E, Lc):
    st, i = Lc.st, Lc.i
    _, order, pos, dom = Lc.seq.src
    done = lambda k: z3.And(z3.Select(dom, k), pos[k] < i)  # noqa
    r = rid(E)
    G, Rx = H(E, st, "_genes"), H(E, st, "_reaction")
    NG = _set_dom(st, Lc.var("new_genes"))
    n0, _ = L(E.s0, mgenes(E))
    n, e = L(st, mgenes(E))
    g, j, x = qv("ng", Ref), qv("nj"), qv("nx", Ref)
    same = FA([g], G[r][g] == NG[g], patterns=[G[r][g], NG[g]])                   # the local set new_genes is the reaction's set
    empty_new = FA([j, x], z3.Implies(z3.And(n0 <= j, j < n), z3.Not(Rx[e[j]][x])), patterns=[Rx[e[j]][x]])   # created genes list no reaction yet
    return z3.And(*(_list_part(E, st, done) + _set_part(E, st, done, G[r], lambda k: [pos[k]]) + _untouched_part(E, st, G[r])
                    + [same, empty_new] + _trace_names(E, Lc)))


def _mod_names(E, Lc):
    mg = mgenes(E)
    return [("heap", "_genes"), ("heap", "_id"), ("heap", "_model"), ("heap", "_reaction"), ("list", mg), ("dict", dict_of(E.s0, mg)),
            ("setlazy", Lc.var("new_genes"), "ref:Gene"), ("ghost", "utrace", havoc_utrace)]


# loop 1: `for g in self._genes` (the new set D, fixed at loop entry): associate
def _inv_assoc(E, Lc):
    st, i, en = Lc.st, Lc.i, Lc.entry
    _, order, pos, D = Lc.seq.src
    r = rid(E)
    done = lambda y: z3.And(D[y], pos[y] < i)  # noqa
    G, Ge = H(E, st, "_genes"), H(E, en, "_genes")
    Rx, Rxe = H(E, st, "_reaction"), H(E, en, "_reaction")
    Mo, Moe = H(E, st, "_model"), H(E, en, "_model")
    g, x = qv("ag", Ref), qv("ax", Ref)
    return z3.And(FA([x], G[x] == Ge[x], patterns=[G[x]]),
                  FA([g, x], Rx[g][x] == z3.If(z3.And(x == r, done(g)), z3.BoolVal(True), Rxe[g][x]), patterns=[Rx[g][x]]),
                  FA([g], Mo[g] == z3.If(done(g), mid(E), Moe[g]), patterns=[Mo[g]]),
                  Mo[r] == mid(E), *_trace_assoc(E, Lc))


def _mod_assoc(E, Lc):
    return [("heap", "_genes"), ("heap", "_model"), ("heap", "_reaction"), ("ghost", "utrace", havoc_utrace)]


# loop 2: `for g in old_genes.difference(new_genes)` (the set D of genes to drop, fixed at loop entry): dissociate
def _inv_dissoc(E, Lc):
    st, i, en = Lc.st, Lc.i, Lc.entry
    _, order, pos, D = Lc.seq.src
    r = rid(E)
    done = lambda y: z3.And(D[y], pos[y] < i)  # noqa
    G, Ge = H(E, st, "_genes"), H(E, en, "_genes")
    Rx, Rxe = H(E, st, "_reaction"), H(E, en, "_reaction")
    g, x = qv("dg", Ref), qv("dx", Ref)
    return z3.And(FA([x], z3.Implies(x != r, G[x] == Ge[x]), patterns=[G[x]]),
                  FA([g], G[r][g] == z3.And(Ge[r][g], z3.Not(done(g))), patterns=[G[r][g]]),
                  FA([g, x], Rx[g][x] == z3.If(z3.And(x == r, done(g)), z3.BoolVal(False), Rxe[g][x]), patterns=[Rx[g][x]]),
                  *_trace_dissoc(E, Lc))


def _mod_dissoc(E, Lc):
    return [("heap", "_genes"), ("heap", "_reaction"), ("ghost", "utrace", havoc_utrace)]


def xref_facts(r, G0, G1, Rx0, Rx1, created):
    """the effect on the cross references, over plain arrays (shared by the post-condition and by the lemma `xref-preserved`);
    old = G0[r], new = G1[r], created(g): g is an object created by the call"""
    old, new = G0[r], G1[r]
    g, x = qv("pg", Ref), qv("px", Ref)
    return [
        # back references: for the genes of the old or the new set, the gene lists the reaction exactly when it is in the new set
        FA([g], z3.Implies(z3.Or(old[g], new[g]), Rx1[g][r] == new[g]), patterns=[Rx1[g][r]]),
        # a reaction set changes only in its entry for THIS reaction and only for genes of the old or new set - except that a
        # created gene (one of the new set, listed by no reaction at entry) lists exactly this reaction afterwards
        FA([g, x], z3.Implies(Rx1[g][x] != Rx0[g][x], z3.Or(created(g), z3.And(x == r, z3.Or(old[g], new[g])))), patterns=[Rx1[g][x]]),
        FA([g, x], z3.Implies(created(g), Rx1[g][x] == (x == r)), patterns=[Rx1[g][x]]),
        FA([g, x], z3.Implies(created(g), z3.And(new[g], z3.Not(G0[x][g]))), patterns=[G0[x][g]]),
        # no other reaction's gene set changes
        FA([x], z3.Implies(x != r, G1[x] == G0[x]), patterns=[G1[x]])]


def xref_ok_arr(G, Rx):
    """C02's invariant over the whole heap: g in genes(x) <=> x in reactions(g)"""
    g, x = qv("xg", Ref), qv("xx", Ref)
    return FA([g, x], G[x][g] == Rx[g][x], patterns=[G[x][g], Rx[g][x]])


def xref_lemma():
    """xref-preserved: the proved effect on the cross references (xref_facts) keeps the invariant of the whole heap"""
    from pyvc.engine import Obl
    RS = z3.ArraySort(Ref, RefSet)
    G0, G1, Rx0, Rx1 = (z3.Const("lx_" + nm, RS) for nm in ("G0", "G1", "Rx0", "Rx1"))
    r, C = z3.Const("lx_r", Ref), z3.Const("lx_created", RefSet)
    return [Obl("C02/lemma/xref-preserved", xref_facts(r, G0, G1, Rx0, Rx1, lambda y: C[y]) + [xref_ok_arr(G0, Rx0)],
                xref_ok_arr(G1, Rx1), "lemma")]


def _post_core(E):
    r = rid(E)
    s0, s1 = E.s0, E.s1
    G0, G1 = H(E, s0, "_genes"), H(E, s1, "_genes")
    Rx0, Rx1 = H(E, s0, "_reaction"), H(E, s1, "_reaction")
    Mo0, Mo1 = H(E, s0, "_model"), H(E, s1, "_model")
    Id0, Id1 = H(E, s0, "_id"), H(E, s1, "_id")
    new = G1[r]
    names = lambda k: in_N(E, k)  # noqa
    g = qv("qg", Ref)
    created = lambda y: new_here(E, new, y)  # noqa
    cs = []
    # (1) model.genes: old members kept in place, one NEW gene appended per rule name that had none, DictList well formed
    cs += _list_part(E, s1, names)
    # (2) reaction.genes is exactly the set of the model's genes whose identifier is a rule name
    cs += _set_part(E, s1, names, new)
    n1, e1 = L(s1, mgenes(E))
    j = qv("qj")
    cs.append(FA([j], z3.Implies(z3.And(0 <= j, j < n1, names(Id1[e1[j]])), new[e1[j]]), patterns=[e1[j]]))   # the same, member by member
    # (3) cross references (see xref_facts)
    cs += xref_facts(r, G0, G1, Rx0, Rx1, created)
    # (4) every gene of the new set points at the model; model pointers change only for genes of the new set, identifiers only for
    #     created genes
    cs.append(FA([g], z3.Implies(new[g], Mo1[g] == mid(E)), patterns=[Mo1[g]]))
    cs.append(FA([g], z3.Implies(Mo1[g] != Mo0[g], new[g]), patterns=[Mo1[g]]))
    cs.append(FA([g], z3.Implies(Id1[g] != Id0[g], created(g)), patterns=[Id1[g]]))
    # (5) the cross-reference invariant of THIS reaction (the whole heap: lemma xref-preserved over (3))
    cs.append(z3.Implies(FA([g], G0[r][g] == Rx0[g][r], patterns=[G0[r][g], Rx0[g][r]]),
                         FA([g], G1[r][g] == Rx1[g][r], patterns=[G1[r][g], Rx1[g][r]])))
    return cs


def _has_ctx(E):
    return C3._gc_has(Env({"obj": E["self"]}, E.s0, eng=E.eng))


def _post_no_context(E):
    return z3.And(*(_post_core(E) + [utrace(E.s1)[0] == 0]))      # nothing is registered anywhere


def _post_in_context(E):
    """the undo functions registered, all in the innermost context of the model: for a created gene its removal from model.genes
    and then the reset of its model pointer; then one dissociation per gene of the new set that was NOT in the old set; then one
    association per gene of the old set that is not in the new set; nothing else, nothing twice"""
    r = rid(E)
    nc, ec = C3._ctxs(E.s0, model_of(E))
    top = ec[nc - 1]
    n, kd, ar, cx, wh = utrace(E.s1)
    old, new = H(E, E.s0, "_genes")[r], H(E, E.s1, "_genes")[r]
    created = lambda y: new_here(E, new, y)  # noqa
    j, g = qv("uj"), qv("ug", Ref)
    a = ar[j]
    w = lambda k: wh[z3.IntVal(k)][g]  # noqa
    tr = [n >= 0,
          FA([j], z3.Implies(z3.And(0 <= j, j < n),
                             z3.And(cx[j] == top, wh[kd[j]][a] == j,
                                    z3.Or(z3.And(z3.Or(kd[j] == K_ISUB, kd[j] == K_UNSET), created(a)),
                                          z3.And(kd[j] == K_DISS, new[a], z3.Not(old[a])),
                                          z3.And(kd[j] == K_ASSOC, old[a], z3.Not(new[a]))))), patterns=[kd[j], ar[j]]),
          FA([g], z3.Implies(created(g), z3.And(_has_entry(kd, ar, wh, g, K_ISUB, 0, n), _has_entry(kd, ar, wh, g, K_UNSET, 0, n),
                                                w(K_UNSET) == w(K_ISUB) + 1, w(K_UNSET) < w(K_DISS))), patterns=[new[g]]),
          FA([g], z3.Implies(z3.And(new[g], z3.Not(old[g])), _has_entry(kd, ar, wh, g, K_DISS, 0, n)), patterns=[new[g]]),
          FA([g], z3.Implies(z3.And(old[g], z3.Not(new[g])), _has_entry(kd, ar, wh, g, K_ASSOC, 0, n)), patterns=[old[g]])]
    return z3.And(*(_post_core(E) + tr))


def _modifies(E):
    mg = mgenes(E)
    return [("heap", "_genes"), ("heap", "_id"), ("heap", "_model"), ("heap", "_reaction"), ("list", mg), ("dict", dict_of(E.s0, mg)),
            ("ghost", "utrace", havoc_utrace)]


_LOOPS = {0: LoopSpec(_inv_names, _mod_names), 1: LoopSpec(_inv_assoc, _mod_assoc), 2: LoopSpec(_inv_dissoc, _mod_dissoc)}

REG.add(Contract(MR, "Reaction.update_genes_from_gpr", "C02", [("self", _self_t(True))], [
    Case("in_model:no_context", requires=lambda E: z3.Not(_has_ctx(E)), ensures=_post_no_context),
    Case("in_model:in_context", requires=_has_ctx, ensures=_post_in_context),
], pre=_pre, modifies=_modifies, loops=_LOOPS, key="Reaction.update_genes_from_gpr",
    note="reaction IN a model (materialised reaction and model, model.genes a well-formed DictList; glue precondition: the heap's "
         "`_model` entry of the reaction is that model), without / with an open context. N = the gene names of the rule (ghost "
         "rule_names: ASSUMED contract of the GPR.genes getter; empty when the rule has no body). Gene(id) is an ASSUMED allocation "
         "contract (a new object, referenced by nothing that exists). After model.genes.append the explicit form of the index "
         "(lemma append-index over the C15 post-condition) is assumed at the call site. The model-less branch (`self._model is "
         "None`: a set comprehension that allocates one Gene per name) is OUTSIDE the contract: bounded driver only"))
