"""C12 - Model.copy (cobra/core/model.py), proved over its REAL source for models of ANY size.

Documented: "Provide a partial 'deepcopy' of the Model.  All the Metabolite, Gene, and Reaction objects are created anew but in a
faster fashion than deepcopy."  Property C12: the copy has the same content, its reactions / metabolites / genes / groups are
distinct objects pointing at the copy, and afterwards no edit of one model is observable in the other - i.e. the copy SHARES no
mutable object with the original.  Contract key: `Model.copy` (KEYS); hook table: HOOKS; closed lemma: lemmas().

THE __dict__ LOOPS.  `for attr in self.__dict__`, `for attr, value in metabolite.__dict__.items()` (and gene / reaction / group) run over
the attribute NAMES of the object.  ATTRS[cls] is derived MECHANICALLY at load time, on every run, from the real source (`ast` over
$VERIF_REPO/src/cobra/core: the `self.<name> = ...` assignments of the __init__ methods along the base chain Object / Species / ...,
minus the names the classes define as properties: `kind`, `tolerance` go through a setter and are no instance attributes); the lists
are cross-checked at load time against `vars(cls(...))` of a default-constructed instance of the running library (5 classes).  A name without a declared kind / specification class
stops the module from loading (a new attribute in the source has to be classified).  The `getattr` hook gives `obj.__dict__` the
meaning RECORD OVER EXACTLY THESE NAMES (value of a name = the attribute of a materialised object / the heap field of a symbolic
one), so that the loops unroll entry by entry (pyvc.loops.unroll_record); `obj.__dict__[name]` reads the record, `obj.__dict__[name]
= v` writes the attribute / heap field directly (no property setter, as in Python).  ASSUMPTION: instances have no other attributes.

FINDING (reported, NOT absorbed; it lies outside the ASSUMPTION above, which is therefore a real restriction): a model read from
SBML carries ONE MORE instance attribute, `_sbml` (cobra.io.sbml._sbml_to_model: `cobra_model._sbml = meta`, a dictionary with the
document's notes / annotation / creators that write_sbml_model writes back).  Model.copy copies every attribute that is not in its
do_not_copy_by_ref set BY REFERENCE, so `copy._sbml is model._sbml` (copy.deepcopy does not share it).  Native reproduction
(/venv/bin/python against /repo): m = load_model("textbook"); c = m.copy(); c._sbml is m._sbml -> True;
c._sbml.setdefault("notes", {})["remark"] = "edited in the COPY only"; write_sbml_model(m, f) -> the file written for the ORIGINAL
contains "edited in the COPY only" (it did not before the edit).  Deductively: the contract key `Model.copy[with_sbml_attribute]`
(KEYS_FINDING; the same contract for a model that has the additional attribute `_sbml` holding a mutable object, with the one
additional clause "the copy's `_sbml` was allocated during the call") discharges everything except that clause (exit post.73:
unknown); it is NOT wired into props/C12.py.  For models built through the API (Model(), add_* ...) and the JSON / YAML / dict
readers no such attribute exists and the assumption holds.

SHAPE.  `self` is a MATERIALISED model whose attributes are exactly ATTRS["Model"] (four DictLists, context stack, compartments
dictionary, notes / annotation / solver as opaque references, tolerance, identifier, name).  Metabolites, genes, reactions, groups
are symbolic references whose attributes are heap fields; set-valued fields (`_reaction`, `_genes`, `_members`, the KEY SET of
`_metabolites`) are modelled BY VALUE (arrays Ref -> Bool; coefficients: ghost map mc_stoich[r][m]); storing such a field by reference
(aliasing) is outside that model and makes the case undecided (Unsupported), never proved.  Every other attribute is an opaque
reference (`ref:dict`, `ref:Any`, `ref:GPR`), an identifier or an extended real (bounds).
ALLOCATION.  Uninterpreted stamp BIRTH(x) and a ghost clock: every allocation (constructor, copy, deepcopy) returns a reference r with
BIRTH(r) = clock and advances the clock; CLOCK0 = the clock at entry.  "x existed at entry" = BIRTH(x) < CLOCK0 (stated in the
precondition for the model and the members of its four lists); "x was allocated during the call" = BIRTH(x) >= CLOCK0.

PROVED (case `any`, 1 path, 8 hand invariants: loops 1 metabolites, 3 genes, 5 reactions, 7 stoichiometry, 8 groups, 10 groups again,
11 members, 12 update_variable_bounds; loops 0, 2, 4, 6, 9 are the unrolled __dict__ loops):
 (1) the value returned is the new model object; its four DictLists, `_contexts` and `_compartments` are objects that did not exist at
     entry; each of the four lists is well formed, has the length of the original's list, and its j-th element is an object ALLOCATED
     DURING THE CALL (hence different from every object that existed at entry), not None, of the class of the list, with the
     identifier of the original's j-th element, pointing at the NEW model (`_model`);
 (2) cross-references are rebuilt inside the copy: y is a key of the j-th reaction of the copy  <=>  y is the member of the copy's
     metabolites at the index of a key of the original's j-th reaction - with the same coefficient; likewise its `_genes` and the
     copy's genes; the `_reaction` set of the p-th metabolite / gene of the copy holds x  <=>  x is the q-th reaction of the copy and
     the original's q-th reaction has the original's p-th metabolite / gene; the members of the q-th group of the copy are exactly
     newof(m) for the members m of the original's q-th group (newof: the element of the copy's list, chosen by the class of m,
     at the index of m in the original's list; both directions);
 (3) per-object attributes: `notes`, `_annotation` of every member and of the model are deep copies allocated during the call
     (DC(new) == old, BIRTH >= CLOCK0: the repair e3e549c - by reference is a failed obligation, mutant M2 / M12); the rule object
     `_gpr` of a reaction is an object allocated during the call with the same gene names; every other attribute (identifier, name,
     formula, compartment, charge, bounds, subsystem, kind, ...) has the original's value or is copy() of it; the compartments
     dictionary is a new dictionary with the same content; identifier and name of the model are the original's;
 (4) frame: for EVERY field f of ATTRS and every object x that existed at entry f[x] is as at entry (also the coefficient map and the
     solver-variable bounds of the original's reactions); the original model object, its lists, its `_contexts`, its compartments
     are untouched (engine frame: none of them is in `modifies`; and explicitly, by python-level identity: every attribute of
     the original still holds the very value it held at entry and its container records are the entry records); the copy's `_contexts` is a new EMPTY list on return, and at the
     call new_reaction.update_genes_from_gpr() the copy's context stack is an empty list that is NOT the original's (obliged at the
     call site: the defect repaired by e389e4c - mutant M1); the solver is deepcopy(self.solver) (a new object), the tolerance
     setter is called exactly ONCE, with self._tolerance, on the model that already holds that solver (e3eb7c0 - mutant M7); after
     the last loop the two solver variables of every reaction of the copy encode its bounds (range lemma RangeOK of c01_lp, by the
     PROVED contract of Reaction.update_variable_bounds applied at the call site; fdf97f9 - mutant M8).

PRECONDITIONS (stated).  The model and the members of its four lists existed at entry, are not None and carry their class tag; the
four lists are well formed; the keys of a reaction's stoichiometry are members of model.metabolites; the genes of a reaction are exactly
the members of model.genes whose identifier is a name of its rule, and every name of the rule has a gene in the model (C02 / C08
invariant); the members of a group are metabolites / reactions / genes / groups found in the model's lists; reactions have valid
bounds (lb <= ub, lb < +inf, ub > -inf) and different reactions have different solver variables (as for Model.__setstate__).
ASSUMED (trusted, listed in props/C12.py).
  * allocation: Model() returns a new object with new (empty) containers; Metabolite() / Gene(None) / Reaction() / Group(id) return a
    new object of that class with no model, empty cross-reference containers and new notes / annotation dictionaries; copy(x) of an
    object reference returns a NEW top-level object r (CP(r) == x), of a string / number x itself; deepcopy(x) returns a new object
    graph r (DC(r) == x); none of them writes an existing object or raises (the `except Exception: copy(self.solver)` fallback for
    Cplex is NOT covered); a copy / deep copy of a rule object has the same gene names (rule_names) and a body iff the source has;
  * new_reaction.update_genes_from_gpr(): NOT assumed - the contract PROVED in c02_update_genes (case in_model:no_context; stated for a
    materialised reaction) is applied to a temporary materialisation of the receiver (`_update_genes_summary`): its precondition is
    obliged; obliged in addition: the receiver points at the new model, has no genes yet, every name of its rule has a gene in
    new.genes, the new model's context stack is an empty list that is not the original's; from its post-condition SEVEN call-site
    lemmas are obliged (no gene created; identifiers, model pointers and the index of new.genes as before; the receiver's gene set
    = the new model's genes named by its rule; each of them lists it; nothing else changed) and execution continues in the state
    these lemmas describe (the representation of new.genes before the call - same list, same index - with `_genes` / `_reaction`
    characterised by the proved formulas).  What that contract itself assumes (GPR.genes = ghost rule_names, Gene(id) allocation)
    is listed with it;
  * new_group.add_members(list): NOT assumed - the contract Group.add_members PROVED in c02_xref is applied (`_add_members`), three
    call-site lemmas are obliged from its post-condition, the remaining direction is used in its Skolem form (ghost witness map);
  * the tolerance setter writes solver configuration and self._tolerance only (as in misc_small); Object.annotation getter / setter
    and Group.members getter are executed from their real source; DictList operations by their C15 contracts; after
    new.<list>.append(x) the explicit form of the index (closed lemma append-index of c02_update_genes, re-proved under C12 by
    lemmas()) is assumed; isinstance on a group member = the uninterpreted class tag of c02_groups.
NOT proved here: that a deep copy has the CONTENT of its source (notes, annotations, the solver problem, the optimum): bounded driver.
Engine: NO change of pyvc (the empty list display assigned to new._contexts is given the element kind of a context stack by the\nsetattr hook).
MUTANTS (scratch copy of /repo/src, cobra/core/model.py; every one is NOT discharged; obligation that fails / goes unknown):
  M1  pre-repair e389e4c (`"_contexts"` not in do_not_copy_by_ref, no early `new._contexts = []`)
      -> call:update_genes_from_gpr/own-empty-context-stack
  M2  metabolite notes / annotation by reference (`new_met.__dict__[attr] = value`, pre-repair e3e549c) -> loop#1/inv-preserve.21
  M3  `new_gene._model = self` (wrong variable) -> loop#3/inv-preserve.27
  M4  `new_reaction._metabolites[metabolite] = stoic` (the original's metabolite as key) -> loop#7/inv-preserve.45, .46
  M5  `new_met._reaction.add(reaction)` (wrong variable) -> loop#7/inv-preserve.47
  M6  `new_reaction.update_genes_from_gpr()` skipped -> loop#5/inv-preserve.41, .42
  M7  `new.tolerance = self._tolerance` removed (pre-repair e3eb7c0) -> exit post.12
  M8  the update_variable_bounds loop removed (pre-repair fdf97f9) -> exit post.68
  M9  group member `new_object = member` (reaction branch: the original's object) -> loop#11/inv-preserve.7~2, .8~2
  M10 `new._compartments = self._compartments` (shared dictionary) -> exit post.1
  M11 `new._solver = self.solver` (shared solver) -> exit post.8, .9
  M12 reaction notes / annotation `copy(value)` instead of `deepcopy(value)` (shallow: the nested values stay shared) -> loop#7/inv-init.44
  M13 `new.reactions.append(new_reaction)` skipped -> loop#7/inv-init.2, .4, .5, .45, .47-.49
  M14 `new_group.add_members(new_objects)` skipped -> loop#10/inv-preserve.50
  M15 final `new._contexts = self._contexts` -> exit post.1
  M16 a gene with an empty identifier not appended to new.genes (`if new_gene.id != "":`) -> loop#3/inv-preserve.23~2, .27~2
  M17 `self._tolerance = None` inserted (the ORIGINAL written) -> exit post (attributes of the original / tolerance clause)
  M18 `new_reaction._metabolites[new_met] = -stoic` (wrong sign) -> loop#7/inv-preserve.46
  (M1 - M15 were run against the version with ASSUMED summaries of update_genes_from_gpr / add_members, M1, M6, M16 - M18 again with the
  proved contracts applied; with them M1 additionally leaves the case undecided: the applied contract then has two outcomes.
  M2 also through tools/mutate_and_run.sh: loop#1/inv-preserve.21 unknown.)
  M19 `self._compartments = dict(self._compartments)` inserted (an equal but different dictionary in the ORIGINAL) -> exit post
      (identity of the original's attributes)
  M20 `self.tags = {}` added to Metabolite.__init__ (a new instance attribute) -> the module refuses to load: "attribute
      Metabolite.tags (derived from the source) has no declared kind: classify it" (the whole property reports a checker error)
  (removing `"_genes"` / `"_reaction"` from a do_not_copy_by_ref set stores a set-valued field by reference: the case is UNDECIDED
  (Unsupported: aliasing is outside the by-value model), never proved)
"""
import ast
import os
import z3
import cobra  # noqa
from .common import *  # noqa
from . import c15_dictlist as C15  # noqa
from . import c02_groups as GR
from . import misc_small as MS  # noqa
from pyvc import builtins as _B
from pyvc.state import alloc_dict, alloc_obj, alloc_list
from pyvc.values import ident_of, VReal, xr_le
from . import c01_lp as C1
from . import c02_update_genes as U
from . import c02_xref  # noqa  (Group.add_members)

MM = "cobra/core/model.py"
REG.inline.add("Object.annotation@getter")
REG.inline.add("Object.annotation@setter")
KEY = "Model.copy"
KEY_SBML = "Model.copy[with_sbml_attribute]"      # FINDING reproduction (not wired into props/C12: it does NOT verify), see the docstring
I_ = z3.IntSort()


# ================================================================ the attribute-name lists: derived MECHANICALLY from the real source
def _src_root():
    return os.path.join(os.environ.get("VERIF_REPO", "/repo"), "src")


_CLASS_FILES = {"Object": "object.py", "Species": "species.py", "Metabolite": "metabolite.py", "Gene": "gene.py",
                "Reaction": "reaction.py", "Group": "group.py", "Model": "model.py"}


def _class_node(cls):
    path = os.path.join(_src_root(), "cobra", "core", _CLASS_FILES[cls])
    tree = ast.parse(open(path).read())
    for n in ast.walk(tree):
        if isinstance(n, ast.ClassDef) and n.name == cls:
            return n
    raise RuntimeError(f"class {cls} not found in {path}")


def _own_init_attrs(node):
    """names assigned as `self.<name> = ...` (also annotated / augmented) anywhere in the class's __init__, in source order"""
    out = []
    for f in node.body:
        if isinstance(f, ast.FunctionDef) and f.name == "__init__":
            for s in ast.walk(f):
                tg = s.targets if isinstance(s, ast.Assign) else [s.target] if isinstance(s, (ast.AnnAssign, ast.AugAssign)) else []
                for t in tg:
                    for e in ast.walk(t):
                        if isinstance(e, ast.Attribute) and isinstance(e.value, ast.Name) and e.value.id == "self" \
                                and isinstance(e.ctx, ast.Store) and e.attr not in out:
                            out.append(e.attr)
    return out


def _properties(node):
    """names the class body defines as a property (a `self.<name> = ...` on such a name goes through the setter: no __dict__ entry)"""
    out = set()
    for f in node.body:
        if isinstance(f, ast.FunctionDef):
            for d in f.decorator_list:
                if (isinstance(d, ast.Name) and d.id == "property") or (isinstance(d, ast.Attribute) and d.attr in ("setter", "getter")):
                    out.add(f.name)
    return out


def instance_attrs(cls):
    """the instance dictionary of a default-constructed <cls>: the `self.<name> = ...` assignments of the __init__ methods along the
    (single-inheritance) base chain, base class first, minus the names that are properties of one of these classes"""
    chain, c = [], cls
    while c is not None:
        node = _class_node(c)
        chain.append(node)
        bases = [b.id for b in node.bases if isinstance(b, ast.Name) and b.id in _CLASS_FILES]
        c = bases[0] if bases else None
    props = set().union(*[_properties(n) for n in chain])
    out = []
    for node in reversed(chain):
        for a in _own_init_attrs(node):
            if a not in props and a not in out:
                out.append(a)
    return tuple(out)


ATTRS = {c: instance_attrs(c) for c in ("Model", "Metabolite", "Gene", "Reaction", "Group")}


def _cross_check():
    """the derived lists against the instance dictionary of a default-constructed object of the RUNNING library (the arguments the
    function under contract itself uses: Metabolite(), Gene(None), Reaction(), Group(<id>), Model())"""
    from cobra.core import Gene, Group, Metabolite, Model, Reaction
    for cls, args in ((Model, ()), (Metabolite, ()), (Gene, (None,)), (Reaction, ()), (Group, ("g",))):
        have = set(vars(cls(*args)))
        if have != set(ATTRS[cls.__name__]):
            raise RuntimeError(f"c12_model_copy: attributes of {cls.__name__} derived from the source {sorted(ATTRS[cls.__name__])} differ "
                               f"from those of a default-constructed instance {sorted(have)}")


_cross_check()

# kinds of the attributes that no other contract module has declared: an opaque reference (identity = the value held)
for _n, _k in {"notes": "ref:dict", "_annotation": "ref:dict", "formula": "ref:Any", "charge": "ref:Any", "_bound": "ref:Any",
               "_functional": "ref:Any", "subsystem": "ref:Any", "_kind": "ref:Any", "name": "id", "compartment": "id",
               "_id": "id", "_model": "ref:Model", "_reaction": "set:ref:Reaction", "_metabolites": "set:ref:Metabolite",
               "_genes": "set:ref:Gene", "_members": "set:ref:Object", "_gpr": "ref:GPR", "_lower_bound": "real",
               "_upper_bound": "real"}.items():
    REG.fields.setdefault(_n, _k)
for _c in ("Metabolite", "Gene", "Reaction", "Group"):
    for _a in ATTRS[_c]:
        if _a not in REG.fields:
            raise RuntimeError(f"c12_model_copy: attribute {_c}.{_a} (derived from the source) has no declared kind: classify it")

_MODEL_ATTR_TYPES = {"_id": TStr(), "name": TStr(), "notes": TRef("dict"), "_annotation": TRef("dict"),
                     "genes": TDictList("Gene"), "reactions": TDictList("Reaction"), "metabolites": TDictList("Metabolite"),
                     "groups": TDictList("Group"), "_compartments": TDict("id", "id"), "_contexts": TList("ref:HistoryManager"),
                     "_solver": TRef("Solver"), "_tolerance": TReal()}
if set(_MODEL_ATTR_TYPES) != set(ATTRS["Model"]):
    raise RuntimeError(f"c12_model_copy: the attributes of Model derived from the source {ATTRS['Model']} differ from the typed ones")


def _model_t(extra=()):
    t = {a: _MODEL_ATTR_TYPES[a] for a in ATTRS["Model"]}
    for a in extra:
        t[a] = TRef("dict")          # an additional instance attribute that holds a mutable object (FINDING reproduction only)
    return TObj("Model", t)


# ================================================================ allocation: birth stamps
BIRTH = z3.Function("mc_birth", Ref, I_)       # allocation stamp of an object; never changes
CLOCK0 = z3.Int("mc_clock0")                     # the clock at entry: every object that exists at entry was born before
DC = z3.Function("mc_deepcopy_of", Ref, Ref)    # r = deepcopy(x)  =>  DC(r) == x
CP = z3.Function("mc_copy_of", Ref, Ref)        # r = copy(x) (x an object reference) => CP(r) == x
tag = GR.class_tag
TAGS = GR.TAGS


CoefMap = z3.ArraySort(Ref, z3.ArraySort(Ref, z3.RealSort()))
SV_ENTRY = z3.Const("mc_stoich_entry", CoefMap)
IdSet = z3.ArraySort(Id, z3.BoolSort())


def has_name(eng, st, g, k):
    """k is a gene name of the rule object g (vocabulary of c02_update_genes: ghost rule_names, ASSUMED contract of the GPR.genes
    getter; a rule without a body has no names)"""
    return z3.And(eng.heap_arr(st, "body")[g] != NULL, z3.Select(U.rule_names(g), k))


def same_names(eng, st, g1, g0):
    body = eng.heap_arr(st, "body")
    return z3.And(U.rule_names(g1) == U.rule_names(g0), (body[g1] != NULL) == (body[g0] != NULL))


def sval(st):
    """ghost: mc_stoich[r][m] = the coefficient stored under key m in r._metabolites"""
    return st.ghost.get("mc_stoich", SV_ENTRY)


def calls(st):
    return st.ghost.get("mc_calls", ())


def clock(st):
    return st.ghost.get("mc_clock", CLOCK0)


def Hh(E, st, f):
    return E.eng.heap_arr(st, f)


def alloc_ref(st, cls, base):
    r = fresh(base, Ref)
    c = clock(st)
    st = st.assume(r != NULL, BIRTH(r) == c).setghost("mc_clock", c + 1)
    return st, VRef(r, cls)


def _is_me(eng):
    return getattr(eng.cur_contract, "key", None) in (KEY, KEY_SBML)


def _self(eng):
    return (getattr(eng, "entry_args", None) or {}).get("self")


# ================================================================ hooks
def _dict_record(eng, st, v):
    """obj.__dict__ as a record over exactly the derived names (ASSUMPTION: instances have no other attributes)"""
    names = ATTRS.get(v.cls)
    if names is None:
        return None
    if isinstance(v, VObj) and "attr:_sbml" in st.objs[v.oid]:
        names = tuple(names) + ("_sbml",)      # only for the contract KEY_SBML, whose model carries this attribute
    items = []
    for n in names:
        if isinstance(v, VObj):
            rec = st.objs[v.oid]
            if "attr:" + n not in rec:
                raise Unsupported(f"__dict__ of a materialised {v.cls} without the attribute {n}")
            items.append((n, rec["attr:" + n]))
        else:
            kind = eng.reg.fields[n]
            if kind.startswith("set:"):
                items.append((n, VOpaque("mc:by-value-field:" + n)))
            else:
                items.append((n, eng.heap_read(st, n, v.t)))
    st, d = alloc_obj(st, "dict", {"pure": True, "pyitems": tuple(items), "mc_owner": v})
    d = VObj(d.oid, "dict", "dict")
    return [("ok", st, VFunc("dictview", d, "keys"))]


def _my_view(st, v):
    return isinstance(v, VFunc) and v.kind == "dictview" and isinstance(v.a, VObj) and "mc_owner" in st.objs.get(v.a.oid, {})


def getattr_hook(eng, st, v, name):
    if not _is_me(eng):
        return None
    if name == "__dict__" and isinstance(v, (VObj, VRef)):
        return _dict_record(eng, st, v)
    if name == "__class__" and isinstance(v, (VObj, VRef)) and v.cls in ATTRS:
        return [("ok", st, VFunc("abstract", "mc:new:" + v.cls))]
    if name == "items" and _my_view(st, v):
        return [("ok", st, VFunc("partial", VFunc("abstract", "mc:items"), (v,), {}))]
    if isinstance(v, VRef) and name == "_metabolites":
        # the stoichiometry dictionary of a reaction reference: key set = heap field `_metabolites`, coefficients = ghost map mc_stoich;
        # writes go through (setitem hook); its ghost enumeration is created here so that the loop invariant can name it
        r = v.t
        dom, val = z3.Select(eng.heap_arr(st, "_metabolites"), r), z3.Select(sval(st), r)
        st2, d = alloc_dict(st, "ref:Metabolite", "real", dom=dom, val=val)
        st2 = st2.updobj(d.oid, stoich_of=r)
        order, pos, card = fresh("mc_order", z3.ArraySort(I_, Ref)), fresh("mc_pos", z3.ArraySort(Ref, I_)), fresh("mc_card", I_)
        i, k = qv("ei"), qv("ek", Ref)
        st2 = st2.assume(card >= 0,
                         FA([i], z3.Implies(z3.And(0 <= i, i < card), z3.And(z3.Select(dom, order[i]), pos[order[i]] == i)), patterns=[order[i]]),
                         FA([k], z3.Implies(z3.Select(dom, k), z3.And(0 <= pos[k], pos[k] < card, order[pos[k]] == k)), patterns=[pos[k]]))
        st2 = st2.setghost(("order", d.oid, dom.get_id()), (order, pos, card))
        if ("mc_enum", r.get_id()) not in st2.ghost:
            st2 = st2.setghost(("mc_enum", r.get_id()), (order, pos, card, r))
        return [("ok", st2, d)]
    return None


def getitem_hook(eng, st, obj, idx):
    if _my_view(st, obj) and isinstance(idx, VConc):
        d = dict(st.objs[obj.a.oid]["pyitems"])
        if idx.py not in d:
            return [eng.raise_(st, "KeyError")]
        return [("ok", st, d[idx.py])]
    return None


def setitem_hook(eng, st, obj, idx, val):
    if isinstance(obj, VObj) and obj.kind == "dict" and "stoich_of" in st.objs[obj.oid] and isinstance(idx, VRef):
        r = st.objs[obj.oid]["stoich_of"]
        x = eng.to_real(val)
        Mt, SV = eng.heap_arr(st, "_metabolites"), sval(st)
        st2 = st.setheap("_metabolites", z3.Store(Mt, r, z3.Store(Mt[r], idx.t, z3.BoolVal(True))))
        return [("ok", st2.setghost("mc_stoich", z3.Store(SV, r, z3.Store(SV[r], idx.t, x.v))), NONE)]
    if _my_view(st, obj) and isinstance(idx, VConc):
        owner = st.objs[obj.a.oid]["mc_owner"]
        n = idx.py
        if isinstance(val, VOpaque):
            raise Unsupported(f"a set-valued field ({val.what}) stored by reference: aliasing is outside the by-value model of set fields")
        if isinstance(owner, VObj):
            return [("ok", st.updobj(owner.oid, **{"attr:" + n: val}), NONE)]
        return [("ok", eng.heap_write(st, n, owner.t, val), NONE)]
    return None


def global_hook(eng, name):
    if _is_me(eng) and name in ("deepcopy", "copy"):
        return VFunc("abstract", "mc:" + name)
    return None


def _new_object(eng, st, cls, pos):
    if cls == "Model":
        # ASSUMED constructor contract Model(): a new object whose attributes hold new (empty) containers; no existing object is touched
        a = {}
        for n in ATTRS["Model"]:
            if n in ("genes", "reactions", "metabolites", "groups"):
                outs = eng.construct(st, "DictList", [], {})
                if len(outs) != 1 or outs[0][0] != "ok":
                    raise Unsupported("DictList() forks")
                st, a["attr:" + n] = outs[0][1], outs[0][2]
            elif n == "_compartments":
                st, a["attr:" + n] = alloc_dict(st, "id", "id", dom=z3.K(Id, z3.BoolVal(False)))
            elif n == "_contexts":
                st, a["attr:" + n] = alloc_list(st, "ref:HistoryManager", length=z3.IntVal(0))
            elif n == "_tolerance":
                st, a["attr:" + n] = TReal().make(st, "default_tolerance")
            elif n in ("_id", "name"):
                a["attr:" + n] = NONE if n == "_id" else VConc("")
            else:
                st, a["attr:" + n] = alloc_ref(st, _MODEL_ATTR_TYPES[n].cls, "default_" + n.strip("_"))
        st, o = alloc_obj(st, "Model", a)
        c = clock(st)
        st = st.assume(ident_of(o.oid) != NULL, BIRTH(ident_of(o.oid)) == c).setghost("mc_clock", c + 1).setghost("mc_new", o)
        return [("ok", st, o)]
    # ASSUMED constructor contracts Metabolite() / Gene(None) / Reaction() / Group(id): a NEW object (stamped with the current clock)
    # of that class whose fields hold the constructor's values: no model, empty cross-reference containers, new empty notes /
    # annotation dictionaries; no existing object is touched
    st, r = alloc_ref(st, cls, "new_" + cls.lower())
    st = st.assume(tag(r.t) == TAGS[cls])
    for n in ATTRS[cls]:
        kind = eng.reg.fields[n]
        if kind.startswith("set:"):
            st = st.setheap(n, z3.Store(eng.heap_arr(st, n), r.t, z3.K(Ref, z3.BoolVal(False))))
        elif n == "_model":
            st = eng.heap_write(st, n, r.t, VRef(NULL, "Model"))
        elif n == "_id" and cls == "Group" and len(pos) == 1:
            st = eng.heap_write(st, n, r.t, pos[0])
        elif kind.startswith("ref:"):
            st, d = alloc_ref(st, kind[4:], "default_" + n.strip("_"))
            st = eng.heap_write(st, n, r.t, d)
    return [("ok", st, r)]


def call_abstract_hook(eng, st, f, pos, kw):
    if not isinstance(f.a, str) or not f.a.startswith("mc:"):
        return None
    what = f.a[3:]
    if what == "items":
        return [("ok", st, VFunc("dictview", pos[0].a, "items"))]
    if what.startswith("new:"):
        return _new_object(eng, st, what[4:], pos)
    if what in ("deepcopy", "copy") and len(pos) == 1 and not kw:
        x = pos[0]
        if isinstance(x, VRef):
            # ASSUMED contracts: deepcopy(x) - a fully new object graph: a new reference r with DC(r) == x;
            #                    copy(x)     - a new top-level object: a new reference r with CP(r) == x
            # either copy of a rule object has the same gene names
            st, r = alloc_ref(st, x.cls, what)
            st = st.assume((DC if what == "deepcopy" else CP)(r.t) == x.t)
            if x.cls == "GPR":
                st = st.assume(same_names(eng, st, r.t, x.t))
            return [("ok", st, r)]
        if what == "copy" and isinstance(x, (VReal, VStr, VInt, VBool, VNone, VConc)):
            return [("ok", st, x)]
        raise Unsupported(f"{what} of {x!r}")
    return None


APPLY_PROVED_CONTRACT = True      # False: the summary of update_genes_from_gpr is ASSUMED instead of obliged (development switch)
LISTS = (("metabolites", "Metabolite"), ("genes", "Gene"), ("reactions", "Reaction"), ("groups", "Group"))


def _new(st):
    return st.ghost.get("mc_new")


def setattr_hook(eng, st, v, name, val):
    if not _is_me(eng):
        return None
    new = _new(st)
    if isinstance(v, VObj) and new is not None and v.oid == new.oid:
        if name in dict(LISTS) and isinstance(val, VObj) and val.cls == "DictList":
            # the copy's DictLists hold objects of the class of the original's lists (C15's generic result builder says `Object`)
            return [("ok", st.updobj(val.oid, ekind="ref:" + dict(LISTS)[name]).updobj(v.oid, **{"attr:" + name: val}), NONE)]
        if name == "_contexts" and isinstance(val, VObj) and val.kind == "list" and z3.is_int_value(z3.simplify(st.objs[val.oid]["len"])) \
                and z3.simplify(st.objs[val.oid]["len"]).as_long() == 0:
            # the empty list display becomes a list of context managers (the element kind C03's contracts expect)
            st2 = st.updobj(val.oid, ekind="ref:HistoryManager", elem=z3.K(I_, NULL))
            return [("ok", st2.updobj(v.oid, **{"attr:_contexts": val}), NONE)]
        if name == "tolerance":
            # ASSUMED (as Model.tolerance@setter in misc_small): writes the tolerances of the solver configuration and self._tolerance;
            # touches no cobra object.  Recorded with its argument.
            st2 = st.updobj(v.oid, **{"attr:_tolerance": val})
            return [("ok", st2.setghost("mc_calls", calls(st) + (("tolerance@setter", v, val, st.objs[v.oid].get("attr:_solver")),)), NONE)]
    return None


def call_method_hook(eng, st, recv, name, pos, kw):
    if not _is_me(eng):
        return None
    new = _new(st)
    if name == "append" and new is not None and isinstance(recv, VObj) and len(pos) == 1 and not kw and isinstance(pos[0], VRef) \
            and any(isinstance(st.objs[new.oid].get("attr:" + y), VObj) and st.objs[new.oid]["attr:" + y].oid == recv.oid for y, _ in LISTS):
        # new.<list>.append(x) by its C15 contract; then the explicit form of the index (lemma `append-index`, proved as a closed
        # formula in c02_update_genes.lemmas() from WF before, WF after and the new sequence - re-proved under C12) is assumed
        outs = eng.apply_contract(st, eng.reg.get("DictList.append"), [recv] + list(pos), kw)
        E = Env({}, st, eng=eng)
        return [(k, s2.assume(U.index_after_append(E, st, s2, recv, pos[0].t)) if k == "ok" else s2, v) for k, s2, v in outs]
    if isinstance(recv, VRef) and name == "update_genes_from_gpr" and not pos and not kw:
        return _update_genes_summary(eng, st, recv)
    if isinstance(recv, VRef) and name == "add_members" and len(pos) == 1 and not kw:
        return _add_members(eng, st, recv, pos[0])
    return None


def _update_genes_summary(eng, st, recv):
    """new_reaction.update_genes_from_gpr() by the contract PROVED in c02_update_genes (case in_model:no_context), which is stated for a
    MATERIALISED reaction: it is applied to a temporary materialisation of the receiver (identity = the reference, `_model` = the new
    model, `_gpr` = the heap field), its precondition is obliged.  OBLIGED in addition at the call: the receiver points at the new
    model, has an EMPTY gene set, every name of its rule has a gene in new.genes, and the new model's context stack is an empty list
    that is not the original's.  From the contract's post-condition the SUMMARY below is then obliged as call-site lemmas (no gene
    was created: new.genes, its index, every identifier and model pointer are as before; the receiver's gene set is exactly the
    set of the new model's genes whose identifier is a name of its rule; each of them lists it; no other entry of a gene set or a
    `_reaction` set changed) and execution continues in the state the summary describes (the entry representation of new.genes, with
    only `_genes` / `_reaction` replaced by arrays characterised by the proved formulas)."""
    new = _new(st)
    c = recv.t
    E = Env({}, st, eng=eng)
    G, R, mo, ids, gpr = (eng.heap_arr(st, f) for f in ("_genes", "_reaction", "_model", "_id", "_gpr"))
    gl = st.objs[new.oid]["attr:genes"]
    ng, eg = L(st, gl)
    dg, vg = Dv(st, gl)
    k = qv("uk", Id)
    names = lambda kk: has_name(eng, st, gpr[c], kk)  # noqa
    eng.oblige(st, z3.And(c != NULL, mo[c] == ident_of(new.oid)), "call:update_genes_from_gpr/receiver-in-new-model", kind="callpre")
    # the model the receiver points at has NO open context and its context stack is not the original's (else the callee would
    # register undo functions for the copy in a context of the original: the defect repaired by e389e4c)
    ctx, ctx0 = st.objs[new.oid].get("attr:_contexts"), eng.entry_state.objs[_self(eng).oid].get("attr:_contexts")
    own = isinstance(ctx, VObj) and ctx.oid != ctx0.oid
    eng.oblige(st, z3.And(z3.BoolVal(bool(own)), st.objs[ctx.oid]["len"] == 0) if own else z3.BoolVal(False),
               "call:update_genes_from_gpr/own-empty-context-stack", kind="callpre")
    no_genes = G[c] == z3.K(Ref, z3.BoolVal(False))
    all_named = FA([k], z3.Implies(names(k), z3.Select(dg, k)), patterns=[z3.Select(U.rule_names(gpr[c]), k)])
    eng.oblige(st, no_genes, "call:update_genes_from_gpr/no-genes-yet", kind="callpre")
    eng.oblige(st, WF(E, st, gl), "call:update_genes_from_gpr/genes-well-formed", kind="callpre")
    eng.oblige(st, all_named, "call:update_genes_from_gpr/every-name-has-a-gene", kind="callpre")
    st = st.assume(no_genes, all_named)
    g, x, j = qv("ug", Ref), qv("ux", Ref), qv("uj")
    member = z3.And(z3.Select(dg, ids[g]), eg[vg[ids[g]]] == g, names(ids[g]))

    def summary(G1, R1):
        return [("genes-of-receiver", FA([g], G1[c][g] == member, patterns=[G1[c][g]])),
                ("other-gene-sets", FA([x], z3.Implies(x != c, G1[x] == G[x]), patterns=[G1[x]])),
                ("reaction-sets", FA([g, x], R1[g][x] == z3.Or(R[g][x], z3.And(x == c, member)), patterns=[R1[g][x]]))]
    if APPLY_PROVED_CONTRACT:
        con = eng.reg.get("Reaction.update_genes_from_gpr")
        st1, tmp = alloc_obj(st, "Reaction", {"attr:_model": new, "attr:_gpr": VRef(z3.Select(gpr, c), "GPR")})
        st1 = st1.assume(ident_of(tmp.oid) == c)
        if not eng.feasible(st1):
            raise Unsupported("materialising the receiver of update_genes_from_gpr contradicts what is known")
        n_ok = 0
        for kk, s2, v in eng.apply_contract(st1, con, [tmp], {}):
            if kk != "ok":
                raise Unsupported("update_genes_from_gpr: an exceptional outcome of the applied contract")
            n_ok += 1
            n2, e2 = L(s2, gl)
            d2, v2 = Dv(s2, gl)
            ids2, mo2 = eng.heap_arr(s2, "_id"), eng.heap_arr(s2, "_model")
            G2, R2 = eng.heap_arr(s2, "_genes"), eng.heap_arr(s2, "_reaction")
            kq = qv("uq", Id)
            # term introduction for z3: a gene created by the callee would sit at index ng
            tail = z3.And(ng < n2, has_name(eng, s2, gpr[c], ids2[e2[ng]]), z3.Not(z3.Select(dg, ids2[e2[ng]])))
            lem = [("no-gene-created:witness", z3.Or(n2 == ng, z3.Not(tail))),
                   ("no-gene-created", z3.And(n2 == ng, FA([j], z3.Implies(z3.And(0 <= j, j < ng), e2[j] == eg[j]), patterns=[e2[j]]))),
                   ("identifiers-and-model-pointers", z3.And(FA([g], ids2[g] == ids[g], patterns=[ids2[g]]), FA([g], mo2[g] == mo[g], patterns=[mo2[g]]))),
                   ("index", FA([kq], z3.And(z3.Select(d2, kq) == z3.Select(dg, kq), z3.Implies(z3.Select(dg, kq), v2[kq] == vg[kq])),
                                patterns=[z3.Select(d2, kq), z3.Select(dg, kq)]))] + summary(G2, R2)
            for nm_, f in lem:
                eng.oblige(s2, f, f"call:update_genes_from_gpr/lemma:{nm_}", kind="side")
                s2 = s2.assume(f)
        if n_ok != 1:
            raise Unsupported("update_genes_from_gpr: the applied contract has not exactly one outcome")
    G1, R1 = fresh("uG", G.sort()), fresh("uR", R.sort())
    st2 = st.setheap("_genes", G1).setheap("_reaction", R1).assume(*[f for _, f in summary(G1, R1)])
    return [("ok", st2.setghost("mc_calls", calls(st) + (("update_genes_from_gpr", recv),)), NONE)]


def _add_members(eng, st, recv, lst):
    """new_group.add_members(<list>) by the contract Group.add_members PROVED in c02_xref (list argument: afterwards x is a member iff it
    was one or is an element of the list; no other group's members change).  That post-condition has an existential under a
    universal quantifier; what the invariants need is obliged from it at the call site in quantifier-friendly form (every element of
    the list is a member; old members stay; other groups untouched) and execution continues in the state these lemmas describe,
    plus the SKOLEM FORM of the remaining direction (a member afterwards was one before or sits at index w[x] of the list: the
    witness the existential provides, named by a ghost map - no additional assumption)."""
    if not (isinstance(lst, VObj) and lst.kind == "list" and str(st.objs[lst.oid].get("ekind", "")).startswith("ref")):
        raise Unsupported("add_members of something that is not a list of objects")
    n, e = L(st, lst)
    Mb = eng.heap_arr(st, "_members")
    g = recv.t
    j, x = qv("aj"), qv("ax", Ref)

    def summary(S1):
        return [("elements-are-members", FA([j], z3.Implies(z3.And(0 <= j, j < n), S1[e[j]]), patterns=[e[j]])),
                ("old-members-stay", FA([x], z3.Implies(Mb[g][x], S1[x]), patterns=[Mb[g][x]]))]
    n_ok = 0
    for kk, s2, v in eng.apply_contract(st, eng.reg.get("Group.add_members"), [recv, lst], {}):
        if kk != "ok":
            raise Unsupported("add_members: an exceptional outcome of the applied contract")
        n_ok += 1
        Mb2 = eng.heap_arr(s2, "_members")
        for nm_, f in summary(Mb2[g]) + [("other-groups", FA([x], z3.Implies(x != g, Mb2[x] == Mb[x]), patterns=[Mb2[x]]))]:
            eng.oblige(s2, f, f"call:Group.add_members/lemma:{nm_}", kind="side")
    if n_ok != 1:
        raise Unsupported("add_members: the applied contract has not exactly one outcome")
    S1, w = fresh("mb", Mb[g].sort()), fresh("mbw", z3.ArraySort(Ref, I_))
    st2 = st.setheap("_members", z3.Store(Mb, g, S1)).assume(
        *([f for _, f in summary(S1)]
          + [FA([x], z3.Implies(S1[x], z3.Or(Mb[g][x], z3.And(0 <= w[x], w[x] < n, e[w[x]] == x))), patterns=[S1[x]])]))
    return [("ok", st2, NONE)]


HOOKS = chain_hooks({"getattr": getattr_hook, "getitem": getitem_hook, "setitem": setitem_hook, "global": global_hook,
                     "call_abstract": call_abstract_hook, "setattr": setattr_hook, "call_method": call_method_hook},
                    {"isinstance": GR.isinstance_hook})


# ================================================================ specification
DEEP = ("notes", "_annotation")                                         # must be deep copies: new object graphs
XREF = ("_model", "_reaction", "_metabolites", "_genes", "_members")    # rebuilt inside the copy
NEWOBJ = ("_gpr",)                                                      # a mutable object: must be a new one with the same gene names
ALLF = tuple(dict.fromkeys(a for c in ("Metabolite", "Gene", "Reaction", "Group") for a in ATTRS[c]))


def _sel(arr, x):
    return tuple(z3.Select(a, x) for a in arr) if isinstance(arr, tuple) else z3.Select(arr, x)


def _eq(a, b):
    return z3.And(*[p == q for p, q in zip(a, b)]) if isinstance(a, tuple) else a == b


class View:
    def __init__(self, E, st):
        self.E, self.st, self.s0 = E, st, E.s0
        self.new = _new(st)
        self.me = ident_of(E["self"].oid)
        self.nu = ident_of(self.new.oid) if self.new is not None else NULL
        self.o, self.c = {}, {}
        for y, _ in LISTS:
            a = E.s0.objs[E["self"].oid]["attr:" + y]
            self.o[y] = (L(E.s0, a), Dv(E.s0, a), a)
            if self.new is not None:
                b = st.objs[self.new.oid]["attr:" + y]
                self.c[y] = (L(st, b), Dv(st, b), b)

    def h(self, f):
        return self.E.eng.heap_arr(self.st, f)

    def h0(self, f):
        return self.E.eng.heap_arr(self.s0, f)

    def mem0(self, y, x):
        """x is the member of the ORIGINAL list y found under its identifier"""
        (n, e), (d, v), _ = self.o[y]
        k = self.h0("_id")[x]
        return z3.And(z3.Select(d, k), e[v[k]] == x)

    def idx1(self, y, x):
        """the index of x in the COPY's list y (meaningful when mem1 holds)"""
        return self.c[y][1][1][self.h("_id")[x]]

    def mem1(self, y, x):
        (n, e), (d, v), _ = self.c[y]
        k = self.h("_id")[x]
        return z3.And(z3.Select(d, k), e[v[k]] == x)


def _attr_fact(V, cls, f, c, o):
    """what the property asks of attribute f of the copy c of the original object o"""
    kind = V.E.eng.reg.fields[f]
    a1, a0 = _sel(V.h(f), c), _sel(V.h0(f), o)
    if f in DEEP:
        return [DC(a1) == a0, BIRTH(a1) >= CLOCK0]
    if f in NEWOBJ:
        return [z3.Or(CP(a1) == a0, DC(a1) == a0), BIRTH(a1) >= CLOCK0, same_names(V.E.eng, V.st, a1, a0)]
    if f in XREF:
        return []
    if kind.startswith("ref:"):
        return [z3.Or(a1 == a0, CP(a1) == a0)]
    return [_eq(a1, a0)]


def _list_facts(V, y, cls, k, xref_empty):
    """the first k elements of the copy's list y are NEW objects standing for the first k elements of the original's list"""
    (n0, e0), _, _ = V.o[y]
    (n1, e1), _, b = V.c[y]
    j = qv("lj")
    c, o = e1[j], e0[j]
    body = [c != NULL, BIRTH(c) >= CLOCK0, BIRTH(c) < clock(V.st), tag(c) == TAGS[cls], V.h("_model")[c] == V.nu]
    for f in ATTRS[cls]:
        body += _attr_fact(V, cls, f, c, o)
    for f in xref_empty:
        if f in ATTRS[cls]:
            body.append(V.h(f)[c] == z3.K(Ref, z3.BoolVal(False)))
    return [n1 == k, WF(V.E, V.st, b),
            FA([j], z3.Implies(z3.And(0 <= j, j < k), z3.And(*body)), patterns=[e1[j], e0[j]])]


def _frame(V):
    """(4) no field of an object that existed at entry is written"""
    x = qv("fx", Ref)
    cs = []
    for f in ALLF:
        a1, a0 = V.h(f), V.h0(f)
        same = a1 is a0 or (not isinstance(a1, tuple) and a1.eq(a0))
        if not same:
            cs.append(FA([x], z3.Implies(BIRTH(x) < CLOCK0, _eq(_sel(a1, x), _sel(a0, x))),
                         patterns=[p for p in (_sel(a1, x) if isinstance(a1, tuple) else (_sel(a1, x),))]))
    if not sval(V.st).eq(sval(V.s0)):
        cs.append(FA([x], z3.Implies(BIRTH(x) < CLOCK0, sval(V.st)[x] == sval(V.s0)[x]), patterns=[sval(V.st)[x]]))
    return cs


def _xref_facts(V, k, cur=None):
    """cross-references of the copy after the first k reactions have been linked (cur = (jj, pos): reaction k is being linked, the
    metabolites enumerated before jj are done)"""
    (nm0, em0), _, _ = V.o["metabolites"]
    (ng0, eg0), _, _ = V.o["genes"]
    (nr0, er0), _, _ = V.o["reactions"]
    (nm1, em1), (dm1, vm1), _ = V.c["metabolites"]
    (ng1, eg1), (dg1, vg1), _ = V.c["genes"]
    (nr1, er1), (dr1, vr1), _ = V.c["reactions"]
    Mt0, G0, SV0 = V.h0("_metabolites"), V.h0("_genes"), sval(V.s0)
    Mt, G, R, SV, ids = V.h("_metabolites"), V.h("_genes"), V.h("_reaction"), sval(V.st), V.h("_id")
    hi = k + 1 if cur is not None else k

    def doneM(q, p):
        base = z3.And(0 <= q, 0 <= p, p < nm0, Mt0[er0[q]][em0[p]])
        if cur is None:
            return z3.And(base, q < k)
        jj, pos = cur
        return z3.And(base, z3.Or(q < k, z3.And(q == k, pos[em0[p]] < jj)))

    def doneG(q, p):
        return z3.And(0 <= q, q < k, 0 <= p, p < ng0, G0[er0[q]][eg0[p]])
    q, p, y, x = qv("xq"), qv("xp"), qv("xy", Ref), qv("xx", Ref)
    cs = [
        # a key of a linked reaction of the copy is the copy's metabolite standing for a key of the original reaction ...
        FA([q, y], z3.Implies(z3.And(0 <= q, q < hi), Mt[er1[q]][y] == z3.And(V.mem1("metabolites", y), doneM(q, V.idx1("metabolites", y)))),
           patterns=[Mt[er1[q]][y]]),
        # ... with the same coefficient
        FA([q, p], z3.Implies(z3.And(0 <= q, q < hi, doneM(q, p)), SV[er1[q]][em1[p]] == SV0[er0[q]][em0[p]]),
           patterns=[SV[er1[q]][em1[p]], z3.MultiPattern(er1[q], em1[p])]),
        # back references of the copy's metabolites: exactly the linked reactions of the copy
        FA([p, x], z3.Implies(z3.And(0 <= p, p < nm0), R[em1[p]][x] == z3.And(V.mem1("reactions", x), doneM(V.idx1("reactions", x), p))),
           patterns=[R[em1[p]][x]]),
        # gene sets of the linked reactions of the copy, and the back references of the copy's genes
        FA([q, y], z3.Implies(z3.And(0 <= q, q < hi), G[er1[q]][y] == z3.And(V.mem1("genes", y), doneG(q, V.idx1("genes", y)))),
           patterns=[G[er1[q]][y]]),
        FA([p, x], z3.Implies(z3.And(0 <= p, p < ng0), R[eg1[p]][x] == z3.And(V.mem1("reactions", x), doneG(V.idx1("reactions", x), p))),
           patterns=[R[eg1[p]][x]])]
    return cs


STAGES = {"metabolites": 0, "genes": 1, "reactions": 2, "groups": 3, "members": 4, "tail": 5}


def facts(E, st, stage, k, cur=None):
    V = View(E, st)
    if V.new is None:
        return [z3.BoolVal(False)]
    s = STAGES[stage]
    cs = [BIRTH(V.nu) >= CLOCK0, BIRTH(V.nu) < clock(st), V.nu != NULL, clock(st) >= CLOCK0]
    cs += _frame(V)
    for i, (y, cls) in enumerate(LISTS):
        n0 = V.o[y][0][0]
        if i < s:
            kk = n0
        elif i == s:
            kk = k + 1 if (cur is not None or (stage == "reactions" and cur == "appended")) else k
        else:
            continue
        empty = ("_reaction",) if s < 2 else ()
        if y == "reactions":
            empty = ()
        if y == "groups" and s < 4:
            empty = ("_members",)
        cs += _list_facts(V, y, cls, kk, empty)
    if s == 2:
        cs += _xref_facts(V, k, cur)
    elif s > 2:
        cs += _xref_facts(V, V.o["reactions"][0][0])
    return cs


def _pre(E):
    """see the module docstring (PRECONDITIONS)"""
    V = View(E, E.s0)
    s0 = E.s0
    j, y, x = qv("pj"), qv("py", Ref), qv("px", Ref)
    k = qv("pk", Id)
    cs = [BIRTH(V.me) < CLOCK0]
    ids, Mt0, G0, gpr0 = V.h0("_id"), V.h0("_metabolites"), V.h0("_genes"), V.h0("_gpr")
    for yl, cls in LISTS:
        (n, e), (d, v), a = V.o[yl]
        cs.append(WF(E, s0, a))
        cs.append(FA([j], z3.Implies(z3.And(0 <= j, j < n), z3.And(e[j] != NULL, BIRTH(e[j]) < CLOCK0, tag(e[j]) == TAGS[cls])), patterns=[e[j]]))
    (nr, er), _, _ = V.o["reactions"]
    (ng, eg), (dg, vg), _ = V.o["genes"]
    r = er[j]
    rng = z3.And(0 <= j, j < nr)
    # C02 invariant of the original: the keys of a reaction's stoichiometry are members of model.metabolites; its genes are exactly
    # the members of model.genes whose identifier is a name of its rule, and every name of the rule has a gene in the model
    cs.append(FA([j, y], z3.Implies(z3.And(rng, Mt0[r][y]), V.mem0("metabolites", y)), patterns=[Mt0[r][y]]))
    cs.append(FA([j, y], z3.Implies(rng, G0[r][y] == z3.And(V.mem0("genes", y), has_name(E.eng, s0, gpr0[r], ids[y]))), patterns=[G0[r][y]]))
    cs.append(FA([j, k], z3.Implies(z3.And(rng, has_name(E.eng, s0, gpr0[r], k)), z3.Select(dg, k)),
                 patterns=[z3.Select(U.rule_names(gpr0[r]), k)]))
    # the members of the model's groups are objects of the model: a metabolite / reaction / gene / group found in the model's list
    (nG, eG), _, _ = V.o["groups"]
    Mb0 = V.h0("_members")
    cs.append(FA([j, y], z3.Implies(z3.And(0 <= j, j < nG, Mb0[eG[j]][y]), z3.And(y != NULL, mem0_by_tag(V, y))), patterns=[Mb0[eG[j]][y]]))
    # C01: the reactions have valid bounds; the solver variables of different reactions are different objects (as for __setstate__)
    lb, ub = C1.lbub(E, s0, r)
    cs.append(FA([j], z3.Implies(rng, z3.And(xr_le(lb, ub), lb.k != 1, ub.k != -1)), patterns=[r]))
    cs.append(FA([x], C1.vars_distinct(x), patterns=[C1.fwd(x)]))
    cs.append(FA([x, y], z3.Implies(x != y, z3.And(C1.fwd(x) != C1.fwd(y), C1.fwd(x) != C1.rev(y), C1.rev(x) != C1.rev(y))),
                 patterns=[z3.MultiPattern(C1.fwd(x), C1.fwd(y)), z3.MultiPattern(C1.fwd(x), C1.rev(y)),
                           z3.MultiPattern(C1.rev(x), C1.rev(y))]))
    return z3.And(*cs)


MET_, RXN_, GENE_, GRP_ = TAGS["Metabolite"], TAGS["Reaction"], TAGS["Gene"], TAGS["Group"]
_BY_TAG = ((MET_, "metabolites"), (RXN_, "reactions"), (GENE_, "genes"), (GRP_, "groups"))


def _pick(t, f):
    return z3.If(t == MET_, f("metabolites"), z3.If(t == RXN_, f("reactions"), z3.If(t == GENE_, f("genes"), f("groups"))))


def newof(V, m):
    """the copy's object standing for the original's member m: the element of the copy's list (chosen by the class of m) at the
    index m has in the original's list"""
    k = V.h0("_id")[m]
    return _pick(tag(m), lambda y: V.c[y][0][1][V.o[y][1][1][k]])


def oldof(V, x):
    k = V.h("_id")[x]
    return _pick(tag(x), lambda y: V.o[y][0][1][V.c[y][1][1][k]])


def mem0_by_tag(V, m):
    return z3.Or(*[z3.And(tag(m) == t, V.mem0(y, m)) for t, y in _BY_TAG])


def _member_facts(V, k2):
    """the first k2 groups of the copy have their members: exactly the copy's objects standing for the members of the original group"""
    (nG0, eG0), _, _ = V.o["groups"]
    (nG1, eG1), _, _ = V.c["groups"]
    Mb0, Mb = V.h0("_members"), V.h("_members")
    q, m, x = qv("mq"), qv("mm", Ref), qv("mx", Ref)
    return [FA([q, m], z3.Implies(z3.And(0 <= q, q < k2, Mb0[eG0[q]][m]), Mb[eG1[q]][newof(V, m)]), patterns=[Mb0[eG0[q]][m]]),
            FA([q, x], z3.Implies(z3.And(0 <= q, q < k2, Mb[eG1[q]][x]), z3.And(Mb0[eG0[q]][oldof(V, x)], newof(V, oldof(V, x)) == x)),
               patterns=[Mb[eG1[q]][x]]),
            FA([q], z3.Implies(z3.And(k2 <= q, q < nG0), Mb[eG1[q]] == z3.K(Ref, z3.BoolVal(False))), patterns=[eG1[q]])]


def _inv_groups2(E, Lc):
    V = View(E, Lc.st)
    return z3.And(*(facts(E, Lc.st, "members", Lc.i) + _member_facts(V, Lc.i)))


def _inv_members(E, Lc):
    V = View(E, Lc.st)
    gv, ngv, lv = Lc.var("group"), Lc.var("new_group"), Lc.var("new_objects")
    src = getattr(Lc.seq, "src", None)
    if V.new is None or not isinstance(gv, VRef) or not isinstance(ngv, VRef) or not isinstance(lv, VObj) or not src or src[0] != "order":
        return z3.BoolVal(False)
    _, order, pos, dom = src
    (nG0, eG0), _, _ = V.o["groups"]
    (nG1, eG1), _, _ = V.c["groups"]
    k2 = V.idx1("groups", ngv.t)
    rec = Lc.st.objs[lv.oid]
    t = qv("mt")
    if "elem" not in rec or rec["elem"].sort() != z3.ArraySort(I_, Ref):
        lst = [rec["len"] == 0, Lc.i == 0] if z3.is_int_value(z3.simplify(rec["len"])) else [z3.BoolVal(False)]
    else:
        m = qv("mm", Ref)
        Mb0g = V.h0("_members")[gv.t]
        lst = [rec["len"] == Lc.i, FA([t], z3.Implies(z3.And(0 <= t, t < Lc.i), rec["elem"][t] == newof(V, order[t])), patterns=[rec["elem"][t]]),
               # the same, read from the member's side (so that a member of the original group finds its place in the list)
               FA([m], z3.Implies(z3.And(Mb0g[m], pos[m] < Lc.i), z3.And(0 <= pos[m], rec["elem"][pos[m]] == newof(V, m))), patterns=[Mb0g[m]])]
    return z3.And(*([0 <= k2, k2 < nG0, eG1[k2] == ngv.t, eG0[k2] == gv.t, dom == V.h0("_members")[gv.t]] + lst
                    + facts(E, Lc.st, "members", k2) + _member_facts(V, k2)))


def _var_frame(E, st):
    x = qv("vx", Ref)
    cs = []
    for f in ("var_lb", "var_ub"):
        (k0, a0), (k1, a1) = E.eng.heap_arr(E.s0, f), E.eng.heap_arr(st, f)
        if not (k0.eq(k1) and a0.eq(a1)):
            for w in (C1.fwd(x), C1.rev(x)):
                cs.append(FA([x], z3.Implies(BIRTH(x) < CLOCK0, z3.And(k1[w] == k0[w], a1[w] == a0[w])), patterns=[k1[w], a1[w]]))
    return cs


def _tail_facts(E, st, k):
    """the solver variables of the first k reactions of the copy encode their bounds (range lemma of C01); the variables of the
    reactions that existed at entry are not written"""
    V = View(E, st)
    (nr1, er1), _, _ = V.c["reactions"]
    j = qv("tj")
    return facts(E, st, "tail", z3.IntVal(0)) + _member_facts(V, V.o["groups"][0][0]) + _var_frame(E, st) + [
        FA([j], z3.Implies(z3.And(0 <= j, j < k), C1.range_lemma(E, st, st, er1[j])), patterns=[er1[j]])]


def _inv_tail(E, Lc):
    return z3.And(*_tail_facts(E, Lc.st, Lc.i))


def _inv(stage):
    def inv(E, Lc):
        return z3.And(*facts(E, Lc.st, stage, Lc.i))
    return inv


def _inv_stoich(E, Lc):
    V = View(E, Lc.st)
    rv, nv = Lc.var("reaction"), Lc.var("new_reaction")
    if not isinstance(rv, VRef) or not isinstance(nv, VRef) or ("mc_enum", rv.t.get_id()) not in Lc.st.ghost:
        return z3.BoolVal(False)
    en = Lc.st.ghost[("mc_enum", rv.t.get_id())]
    order, pos, card, r_ = en
    (nr0, er0), _, _ = V.o["reactions"]
    (nr1, er1), _, _ = V.c["reactions"]
    k = nr1 - 1
    return z3.And(*([Lc.n == card, 0 <= k, k < nr0, er0[k] == rv.t, er1[k] == nv.t, r_ == rv.t,
                     V.h("_genes")[nv.t] == z3.K(Ref, z3.BoolVal(False))]
                    + facts(E, Lc.st, "reactions", k, cur=(Lc.i, pos))))


def _heap_locs(names):
    return [("heap", f) for f in names]


def _list_locs(E, st, y):
    new = _new(st)
    b = st.objs[new.oid]["attr:" + y]
    return [("list", b), ("dict", dict_of(st, b))]


_CLOCK = ("ghost", "mc_clock", lambda st: fresh("mc_clock", I_))
_SV = ("ghost", "mc_stoich", lambda st: fresh("mc_stoich", CoefMap))
_CALLS = ("ghost", "mc_calls", lambda st: ())


def _written(cls):
    return [f for f in ATTRS[cls] if f not in ("_reaction", "_metabolites", "_genes", "_members")]


def _mod_list(y, cls, extra=()):
    def mod(E, Lc):
        return _list_locs(E, Lc.st, y) + _heap_locs(_written(cls) + list(extra)) + [_CLOCK]
    return mod


def _mod_rxn(E, Lc):
    return _list_locs(E, Lc.st, "reactions") + _heap_locs(_written("Reaction") + ["_metabolites", "_genes", "_reaction"]) + [_CLOCK, _SV, _CALLS]


def _mod_stoich(E, Lc):
    return _heap_locs(["_metabolites", "_reaction"]) + [_SV]


def _post(E):
    st = E.s1
    V = View(E, st)
    if V.new is None or not (isinstance(E.res, VObj) and E.res.oid == V.new.oid):
        return z3.BoolVal(False)
    return z3.And(*(_model_level(E, V) + _tail_facts(E, st, V.o["reactions"][0][0])))


def _model_level(E, V):
    """the attributes of the new model object itself"""
    s0, st = E.s0, E.s1
    old, new = s0.objs[E["self"].oid], st.objs[V.new.oid]
    py = []
    # the four DictLists, the context stack and the compartment dictionary of the copy are objects that did not exist at entry
    for a in [y for y, _ in LISTS] + ["_contexts", "_compartments"]:
        v = new.get("attr:" + a)
        py.append(isinstance(v, VObj) and v.oid not in s0.objs)
    ctx = new.get("attr:_contexts")
    # the ORIGINAL model object: every attribute still holds the very value it held at entry, and its containers (the four lists
    # with their indexes, the context stack, the compartments) are literally the entry records (python-level identity; the engine's
    # frame check compares replaced containers structurally and skips extended reals: here identity is what matters)
    now = st.objs[E["self"].oid]
    same_attrs = set(now) == set(old) and all(now[k] is old[k] for k in old)
    conts = [old["attr:" + y] for y, _ in LISTS] + [old["attr:_contexts"], old["attr:_compartments"]]
    conts += [dict_of(s0, old["attr:" + y]) for y, _ in LISTS]
    same_conts = all(st.objs.get(c.oid) is s0.objs[c.oid] for c in conts)
    cs = [z3.BoolVal(bool(all(py))), z3.BoolVal(V.new.oid not in s0.objs), z3.BoolVal(bool(same_attrs)), z3.BoolVal(bool(same_conts))]
    if not all(py):
        return cs
    cs.append(st.objs[ctx.oid]["len"] == 0)                                          # no context is carried over (e389e4c)
    c0, c1 = s0.objs[old["attr:_compartments"].oid], st.objs[new["attr:_compartments"].oid]
    cs.append(z3.BoolVal(not c1.get("lazy") and not c0.get("lazy")))
    if not c1.get("lazy") and not c0.get("lazy"):
        cs += [c1["dom"] == c0["dom"], c1["val"] == c0["val"]]                       # same compartments
    for a in ("notes", "_annotation", "_solver"):                                    # deep copies: new object graphs
        a1, a0 = new.get("attr:" + a), old["attr:" + a]
        ok = isinstance(a1, VRef)
        cs.append(z3.BoolVal(ok))
        if ok:
            cs += [DC(a1.t) == a0.t, BIRTH(a1.t) >= CLOCK0]
    for a in ("_id", "name"):
        cs.append(E.eng.eq(st, new.get("attr:" + a), old["attr:" + a]))
    # tolerance: carried over through the setter, called ONCE, on the model that already holds its own solver (e3eb7c0)
    tol = [ev for ev in calls(st) if ev[0] == "tolerance@setter"]
    ok = len(tol) == 1 and isinstance(tol[0][3], VRef) and isinstance(new.get("attr:_solver"), VRef) and tol[0][3].t.eq(new["attr:_solver"].t) \
        and isinstance(new.get("attr:_tolerance"), VReal) and isinstance(tol[0][2], VReal)
    cs.append(z3.BoolVal(bool(ok)))
    if ok:
        from pyvc.values import xr_eq
        cs += [xr_eq(tol[0][2], old["attr:_tolerance"]), xr_eq(new["attr:_tolerance"], old["attr:_tolerance"])]
    return cs


def _modifies(E):
    return _heap_locs(list(ALLF) + ["var_lb", "var_ub"]) + [_CLOCK, _SV, _CALLS]


_TRUE_INV = LoopSpec(lambda E, Lc: z3.BoolVal(True), lambda E, Lc: [])
REG.add(Contract(MM, "Model.copy", "C12", [("self", _model_t())], [Case("any", ensures=_post)], pre=_pre, modifies=_modifies,
                 key=KEY, result="self",
                 loops={1: LoopSpec(_inv("metabolites"), _mod_list("metabolites", "Metabolite")),
                        3: LoopSpec(_inv("genes"), _mod_list("genes", "Gene")),
                        5: LoopSpec(_inv("reactions"), _mod_rxn),
                        7: LoopSpec(_inv_stoich, _mod_stoich),
                        8: LoopSpec(_inv("groups"), _mod_list("groups", "Group")),
                        10: LoopSpec(_inv_groups2, lambda E, Lc: _heap_locs(["_members"])),
                        11: LoopSpec(_inv_members, lambda E, Lc: [("list", Lc.var("new_objects"), "ref:Object")]),
                        12: LoopSpec(_inv_tail, lambda E, Lc: _heap_locs(["var_lb", "var_ub"])),
                        }))
KEYS = [KEY]


# ---------------------------------------------------------------- FINDING reproduction: a model that carries the attribute the SBML reader sets
def _pre_sbml(E):
    return z3.And(_pre(E), BIRTH(E.s0.objs[E["self"].oid]["attr:_sbml"].t) < CLOCK0)


def _post_sbml(E):
    V = View(E, E.s1)
    if V.new is None:
        return z3.BoolVal(False)
    v = E.s1.objs[V.new.oid].get("attr:_sbml")
    # the mutable object held in the additional attribute must not be the original's: allocated during the call
    sep = BIRTH(v.t) >= CLOCK0 if isinstance(v, VRef) else z3.BoolVal(False)
    return z3.And(_post(E), sep)


REG.add(Contract(MM, "Model.copy", "C12", [("self", _model_t(("_sbml",)))], [Case("any", ensures=_post_sbml)], pre=_pre_sbml,
                 modifies=_modifies, key=KEY_SBML, result="self", loops=dict(REG.get(KEY).loops),
                 note="FINDING reproduction, NOT part of the property run: a model with the additional instance attribute `_sbml` "
                      "(set by cobra.io.sbml._sbml_to_model); the separation clause for it does not verify"))
KEYS_FINDING = [KEY_SBML]


def lemmas():
    """the closed lemmas this module relies on at call sites: append-index (c02_update_genes)"""
    from pyvc.engine import Obl
    return [Obl("C12/lemma/append-index", o.hyps, o.goal, "lemma") for o in U.lemmas() if "append-index" in o.name]
