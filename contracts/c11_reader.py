"""C11 — the READER half of the dictionary form (cobra/io/dict.py) and the round trip writer -> reader per object kind.

  _metabolite_from_dict(d), gene_from_dict(d): a NEW object whose attributes are exactly the entries of the record d (every key is
      assigned as an attribute with its value object; everything else is as the constructor left it).
  _reaction_from_dict(d, model): a NEW reaction; `objective_coefficient` / `reversibility` / `reaction` are never assigned;
      `metabolites` is handed to add_metabolites (one call) as the mapping  model.metabolites.get_by_id(k) -> coefficient;  both
      bounds are converted with float() and end up as given for EVERY valid pair (no valid pair raises); every other key is assigned.
  lemmas(): for a record that satisfies the WRITER's post-condition for an object x (contracts/c10_c11_io.py), every object that
      satisfies the READER's post-condition for that record has the attributes of x (an omitted optional attribute comes back as the
      constructor's default, which is the value it was omitted for).

Shape of the objects: the record is a dictionary with literal keys whose optional entries are CONDITIONAL ("maybe", cond, value);
the loop `for k, v in d.items()` is unrolled entry by entry and forks on each condition (2^#optional paths).  The new object is
MATERIALISED (attributes of any kind: strings, None, dictionaries); the bounds of the new reaction live in the heap at its identity,
where the C01 setter contracts (proved in c01_lp) are applied.

ASSUMED (listed as trusted): the constructors Metabolite() / Gene(id) / Reaction() (allocation + the defaults of their __init__
chain, see CTOR), Reaction.gene_reaction_rule's setter (keeps the text it is given), Reaction.add_metabolites (an abstract call:
recorded, changes nothing of what is modelled here) and, for the lemmas only, float(str(x)) == x for infinite / NaN x.
"""
import itertools as _it
import z3
from .common import *  # noqa
from . import c10_c11_io as W
from . import c01_lp as C1
from . import c15_dictlist as C15  # noqa  (DictList.get_by_id)
from pyvc.values import VReal, xr_eq, xr_le, xr_const, ident_of
from pyvc.state import alloc_obj, State
from pyvc import builtins as B

MD = W.MD
SKIPPED = ("objective_coefficient", "reversibility", "reaction")       # keys the reaction reader must not assign
PROP_FIELD = {"id": "_id", "annotation": "_annotation"}                # properties of cobra.Object over a private attribute
REG.inline.add("Object.id@setter")
REG.inline.add("Object.annotation@setter")
REG.inline.add("Object.annotation@getter")

# ---------------------------------------------------------------- constructors (ASSUMED allocation contracts)
# attribute -> default marker, in the order of the __init__ chain (Object -> Species -> Metabolite / Gene; Object -> Reaction):
#   None, "" , "{}" (a new empty dictionary), "set()" (a new empty set), a float, True, "<id>" (the constructor's argument)
CTOR = {
    "Metabolite": (("_id", None), ("name", ""), ("notes", "{}"), ("_annotation", "{}"), ("_model", None), ("_reaction", "set()"),
                   ("formula", None), ("compartment", None), ("charge", None), ("_bound", 0.0)),
    "Gene": (("_id", "<id>"), ("name", ""), ("notes", "{}"), ("_annotation", "{}"), ("_model", None), ("_reaction", "set()"),
             ("_functional", True)),
    # gene_reaction_rule: the TEXT of the rule (GPR().to_string() == ""), a logical attribute; the bounds (0.0, config.upper_bound)
    # and the model pointer None also live in the heap at the object's identity (where the C01 contracts read them)
    "Reaction": (("_id", None), ("name", ""), ("notes", "{}"), ("_annotation", "{}"), ("gene_reaction_rule", ""), ("subsystem", ""),
                 ("_genes", "set()"), ("_metabolites", "{}"), ("_model", None)),
}


def _default_value(st, marker, idarg=None):
    if marker is None:
        return st, NONE
    if marker == "{}":
        st, o = alloc_obj(st, "dict", {"lazy": True})
        return st, VObj(o.oid, "dict", "dict")
    if marker == "set()":
        st, o = alloc_obj(st, "set", {"lazy": True})
        return st, VObj(o.oid, "set", "set")
    if marker == "<id>":
        return st, idarg
    if marker is True:
        return st, VBool(True)
    if isinstance(marker, float):
        return st, xr_const(marker)
    return st, VConc(marker)


def _b(c):
    return z3.BoolVal(c) if isinstance(c, bool) else c


def is_default(E, st, got, marker, idarg=None):
    """the attribute value `got` (state st) is what the constructor gives"""
    if got is None:
        return z3.BoolVal(False)
    if marker is None:
        return z3.BoolVal(isinstance(got, VNone))
    if marker in ("{}", "set()"):
        kind = "dict" if marker == "{}" else "set"
        return z3.BoolVal(isinstance(got, VObj) and got.kind == kind and bool(st.objs[got.oid].get("lazy")) and got.oid not in E.s0.objs)
    if isinstance(got, (VObj, VNone)):
        return z3.BoolVal(False)
    if marker == "<id>":
        return _b(E.eng.eq(st, got, idarg))
    if marker is True:
        return _b(E.eng.eq(st, got, VBool(True)))
    if isinstance(marker, float):
        return _b(E.eng.eq(st, got, xr_const(marker)))
    return _b(E.eng.eq(st, got, VConc(marker)))


def _ctor_result(cls):
    def build(eng, st, E):
        attrs = {}
        for name, marker in CTOR[cls]:
            st, v = _default_value(st, marker, E.a.get("id"))
            attrs["attr:" + name] = v
        return alloc_obj(st, cls, attrs)
    return build


_NOTE = ("object allocation, {0}: a NEW object whose attributes are what the __init__ chain (Object / {1}) assigns - {2}; "
         "no existing object is modified")
for _cls, _params, _txt in (
        ("Metabolite", [], "id None, name '', formula / compartment / charge None, _bound 0.0, empty notes and annotation, no model, "
                           "no reactions"),
        ("Gene", [("id", TStr())], "the given id, name '', functional, empty notes and annotation, no model, no reactions")):
    REG.add(Contract("cobra/core/%s.py" % _cls.lower(), _cls + ".__init__", "C11", [("self", TRef(_cls))] + _params, [Case("new")],
                     assumed=True, key="C11:%s.__init__" % _cls, result=_ctor_result(_cls),
                     note=_NOTE.format(_cls + "(" + ("id" if _params else "") + ")", "Species / " + _cls, _txt)))


def _rxn_init_post(E):
    r = ident_of(E["self"].oid)
    _, hi = W.cfg_bounds()
    lb1, ub1 = C1.lbub(E, E.s1, r)
    m0, m1 = E.eng.heap_arr(E.s0, "_model"), E.eng.heap_arr(E.s1, "_model")
    x = qv("nx", Ref)
    return z3.And(xr_eq(lb1, VReal(0, 0)), xr_eq(ub1, hi), m1[r] == NULL,
                  C1.heap_real_unchanged_except(E, "_lower_bound", [r]), C1.heap_real_unchanged_except(E, "_upper_bound", [r]),
                  FA([x], z3.Implies(x != r, m1[x] == m0[x]), patterns=[m1[x]]))


RXN_HEAP = [("heap", "_lower_bound"), ("heap", "_upper_bound"), ("heap", "_model")]
REG.add(Contract("cobra/core/reaction.py", "Reaction.__init__", "C11", [("self", TRef("Reaction"))], [Case("new", ensures=_rxn_init_post)],
                 assumed=True, key="C11:Reaction.__init__", result=_ctor_result("Reaction"), modifies=lambda E: list(RXN_HEAP),
                 note=_NOTE.format("Reaction()", "Reaction", "id None, name '', subsystem '', empty rule (text ''), no genes, no "
                                   "metabolites, no model, empty notes and annotation, bounds (0.0, Configuration().upper_bound)")))


def _set_attr_loc(name, param):
    return lambda E: [("attr", E["self"], name, lambda st: (st, E[param]))]


REG.add(Contract("cobra/core/reaction.py", "Reaction.gene_reaction_rule@setter", "C11", [("self", TRef("Reaction")), ("new_rule", TStr())],
                 [Case("any")], assumed=True, key="C11:Reaction.gene_reaction_rule@setter", modifies=_set_attr_loc("gene_reaction_rule", "new_rule"),
                 note="the rule TEXT of the reaction is afterwards the text assigned (GPR.from_string followed by GPR.to_string gives the "
                      "text back: assumed for the texts GPR.to_string produces, which is what the writer emits; the parser and printer "
                      "are string processing outside the verifier; the genes the setter creates are not modelled - bounded driver: "
                      "truth tables of the rules); changes nothing else of what is modelled here"))
REG.add(Contract("cobra/core/reaction.py", "Reaction.add_metabolites", "C11",
                 [("self", TRef("Reaction")), ("metabolites_to_add", TDict("ref:Metabolite", "real"))], [Case("any")],
                 assumed=True, key="C11:Reaction.add_metabolites",
                 note="abstract call (recorded with its argument in a ghost trace): it changes the reaction's stoichiometry and the "
                      "back-references of the metabolites - neither is modelled here - and nothing else (a reaction without model: no "
                      "solver update, no context); what the reaction holds afterwards is not claimed"))


# ---------------------------------------------------------------- hooks
def _is_new(v, cls=None):
    return isinstance(v, VObj) and v.kind == "obj" and (v.cls == cls if cls else v.cls in CTOR)


def global_hook(eng, name):
    if name in CTOR:
        return VFunc("abstract", name)
    return None


def call_abstract(eng, st, f, pos, kw):
    if f.a in CTOR:
        return eng.apply_contract(st, eng.reg.get("C11:%s.__init__" % f.a), pos, kw, constructing=f.a)
    return None


def mets_of_model(st, dl, key):
    """view of DictList.get_by_id: the element found under identifier `key`"""
    return L(st, dl)[1][Dv(st, dl)[1][key]]


def call_method_hook(eng, st, recv, name, pos, kw):
    if isinstance(recv, VObj) and recv.cls == "DictList" and name == "get_by_id" and len(pos) == 1 and not kw and isinstance(pos[0], VStr):
        # DictList.get_by_id by its contract (proved in C15) with the result as the TERM its post-condition pins down
        # (res == elem[index[id]]): usable inside a generator expression, where a fresh result constant per element is not
        con = eng.reg.get("DictList.get_by_id")
        a = {"self": recv, "id": pos[0]}
        E0 = Env(a, st, eng=eng)
        pre = con.pre(E0)
        eng.oblige(st, pre, "call:DictList.get_by_id/pre", kind="callpre")
        st = st.assume(pre)
        present = [c for c in con.cases if c.name == "present"][0]
        outs = []
        for ok, s in eng.branch(st, present.requires(E0)):
            if ok:
                res = VRef(mets_of_model(s, recv, pos[0].t), s.objs[recv.oid]["ekind"][4:])
                outs.append(("ok", s.assume(present.ensures(Env(a, s, s, res=res, eng=eng))), res))
            else:
                outs.append(eng.raise_(s, "KeyError"))
        return outs
    if _is_new(recv, "Reaction") and name == "add_metabolites":
        if len(pos) != 1 or kw or not (isinstance(pos[0], VObj) and pos[0].kind == "dict"):
            raise Unsupported("add_metabolites on the new reaction with something else than one dictionary")
        st = st.setghost("rfd_trace", st.ghost.get("rfd_trace", ()) + ((recv, pos[0], st),))
        # the ghost enumeration of the record's `metabolites` dictionary, triggered by KEY as well (the same formula as the one
        # comprehension._order_of assumed, with another pattern: no new assumption)
        rec_v = eng.entry_args.get("reaction")
        src = dict(st.objs[rec_v.oid]["pyitems"]).get("metabolites") if isinstance(rec_v, VObj) else None
        if isinstance(src, VObj) and not st.objs[src.oid].get("lazy"):
            sr = st.objs[src.oid]
            ent = st.ghost.get(("order", src.oid, sr["dom"].get_id()))
            if ent is not None:
                order, pos_, n = ent
                k = qv("ok", Id)
                st = st.assume(FA([k], z3.Implies(z3.Select(sr["dom"], k), z3.And(0 <= pos_[k], pos_[k] < n, order[pos_[k]] == k)),
                                  patterns=[z3.Select(sr["dom"], k)]))
        return eng.apply_contract(st, eng.reg.get("C11:Reaction.add_metabolites"), [recv, pos[0]], {})
    return None


def getattr_hook(eng, st, v, name):
    if _is_new(v, "Reaction") and name == "add_metabolites":
        return [("ok", st, VFunc("bound", v, name))]
    return None


def setattr_hook(eng, st, v, name, val):
    if not _is_new(v, "Reaction"):
        return None
    if name in ("bounds", "lower_bound", "upper_bound"):
        # the C01 contract of the setter (proved in c01_lp), applied at the identity of the new reaction
        outs = eng.apply_contract(st, eng.reg.get(f"Reaction.{name}@setter"), [VRef(ident_of(v.oid), "Reaction"), val], {})
        return eng.bind(outs, lambda s, _: [("ok", s, NONE)])
    if name == "gene_reaction_rule":
        outs = eng.apply_contract(st, eng.reg.get("C11:Reaction.gene_reaction_rule@setter"), [v, val], {})
        return eng.bind(outs, lambda s, _: [("ok", s, NONE)])
    if name in SKIPPED or name == "metabolites":
        # must never happen (specification: these keys are skipped): recorded, so that the post-condition can say so
        return [("ok", st.setghost("rfd_forbidden", st.ghost.get("rfd_forbidden", ()) + (name,)), NONE)]
    return None


HOOKS = chain_hooks({"global": global_hook, "call_abstract": call_abstract, "call_method": call_method_hook, "getattr": getattr_hook,
                     "setattr": setattr_hook}, W.HOOKS)


# ---------------------------------------------------------------- the records the readers take
def _entry(rec, key):
    for k, w in rec["pyitems"]:
        if k == key:
            return w
    return None


def _mk_record(st, items):
    st, o = alloc_obj(st, "dict", {"pure": True, "pyitems": tuple(items)})
    return st, VObj(o.oid, "dict", "dict")


def _opt_entries(st, name, spec):
    """conditional entries ("maybe", presence condition, value) for the optional keys; spec: [(key, PType)]"""
    out = []
    for key, t in spec:
        st, v = t.make(st, f"{name}_{key}")
        out.append((key, ("maybe", z3.Bool(f"{name}_has_{key}"), v)))
    return st, out


def _dict_t():
    return TDict("id", "ref:Any")


def _met_record(st, name):
    items = [(k, VStr(z3.Const(f"{name}_{k}", Id))) for k in ("id", "name", "compartment")]
    st, opt = _opt_entries(st, name, [("charge", TInt()), ("formula", TStr()), ("_bound", TReal()), ("notes", _dict_t()),
                                      ("annotation", _dict_t())])
    return _mk_record(st, items + opt)


def _gene_record(st, name):
    items = [(k, VStr(z3.Const(f"{name}_{k}", Id))) for k in ("id", "name")]
    st, opt = _opt_entries(st, name, [("notes", _dict_t()), ("annotation", _dict_t())])
    return _mk_record(st, items + opt)


def _rxn_record(lb_t, ub_t, coef_kind="real", legacy=False):
    def make(st, name):
        items = [(k, VStr(z3.Const(f"{name}_{k}", Id))) for k in ("id", "name")]
        st, mets = TDict("id", coef_kind).make(st, name + "_metabolites")
        st, lb = lb_t().make(st, name + "_lower_bound")
        st, ub = ub_t().make(st, name + "_upper_bound")
        items += [("metabolites", mets), ("lower_bound", lb), ("upper_bound", ub),
                  ("gene_reaction_rule", VStr(z3.Const(name + "_gene_reaction_rule", Id)))]
        st, opt = _opt_entries(st, name, [("objective_coefficient", TReal()), ("subsystem", TStr()), ("notes", _dict_t()),
                                          ("annotation", _dict_t())])
        if legacy:      # keys of old documents
            opt = opt[:2] + [("reversibility", VBool(z3.Bool(name + "_reversibility"))), ("reaction", VStr(z3.Const(name + "_reaction", Id)))]
        return _mk_record(st, items + opt)
    return make


# ---------------------------------------------------------------- specification: attributes of the new object
def same_value(E, st, got, want):
    """the attribute holds the very value of the entry (a dictionary: the same object)"""
    if got is None:
        return z3.BoolVal(False)
    if isinstance(got, VObj) or isinstance(want, VObj):
        return z3.BoolVal(isinstance(got, VObj) and isinstance(want, VObj) and got.oid == want.oid)
    return _b(E.eng.eq(st, got, want))


def attr_clauses(E, cls, rec, res, skip=(), idarg=None):
    """every entry of the record (but `skip`) is an attribute of `res` with the entry's value - a conditional entry: when its
    condition holds, else the attribute is as the constructor left it -, every other attribute is as the constructor left it, and
    the object has no further attribute"""
    cs = [z3.BoolVal(isinstance(res, VObj) and res.kind == "obj" and res.cls == cls and res.oid not in E.s0.objs)]
    if not z3.is_true(cs[0]):
        return cs
    r1 = E.s1.objs[res.oid]
    defaults = dict(CTOR[cls])
    assigned = set()
    for key, w in rec["pyitems"]:
        if key in skip:
            continue
        attr = PROP_FIELD.get(key, key)
        assigned.add(attr)
        got = r1.get("attr:" + attr)
        if isinstance(w, tuple):
            dflt = is_default(E, E.s1, got, defaults[attr], idarg) if attr in defaults else z3.BoolVal(got is None)
            cs.append(z3.If(w[1], same_value(E, E.s1, got, w[2]), dflt))
        else:
            cs.append(same_value(E, E.s1, got, w))
    for attr, marker in defaults.items():
        if attr not in assigned:
            cs.append(is_default(E, E.s1, r1.get("attr:" + attr), marker, idarg))
    names = {k[5:] for k in r1 if k.startswith("attr:")}
    cs.append(z3.BoolVal(names <= set(defaults) | assigned))
    return cs


def _simple_post(param, cls):
    def post(E):
        rec = E.s0.objs[E[param].oid]
        return z3.And(*attr_clauses(E, cls, rec, E.res, idarg=_entry(rec, "id")))
    return post


REG.add(Contract(MD, "_metabolite_from_dict", "C11", [("metabolite", TCustom(_met_record))],
                 [Case("any", ensures=_simple_post("metabolite", "Metabolite"))], key="_metabolite_from_dict"))
REG.add(Contract(MD, "gene_from_dict", "C11", [("gene", TCustom(_gene_record))],
                 [Case("any", ensures=_simple_post("gene", "Gene"))], key="gene_from_dict"))


# ---------------------------------------------------------------- _reaction_from_dict
def _model_t():
    return TObj("Model", {"metabolites": TDictList("Metabolite"), "reactions": TDictList("Reaction"), "genes": TDictList("Gene")})


def denoted(v):
    """the extended real a bound entry denotes: the float itself, or float(s) for a string"""
    return v if isinstance(v, VReal) else B.float_of_str(v.t)


def _rec_bounds(E):
    rec = E.s0.objs[E["reaction"].oid]
    return denoted(_entry(rec, "lower_bound")), denoted(_entry(rec, "upper_bound"))


def _rec_mets(E):
    rec = E.s0.objs[E["reaction"].oid]
    return E.s0.objs[_entry(rec, "metabolites").oid]


def _model_mets(E):
    return E.s0.objs[E["model"].oid]["attr:metabolites"]


def _rfd_pre(E):
    rec = E.s0.objs[E["reaction"].oid]
    lb, ub = _rec_bounds(E)
    _, hi = W.cfg_bounds()
    mr = _rec_mets(E)
    k = qv("pk", Id)
    cs = [WF(E, E.s0, _model_mets(E)),
          # every metabolite of the record is in the model (model_from_dict adds the metabolites first)
          FA([k], z3.Implies(z3.Select(mr["dom"], k), z3.Select(Dv(E.s0, _model_mets(E))[0], k)), patterns=[z3.Select(mr["dom"], k)]),
          # a VALID pair of bounds (C01): lb <= ub, lb < +inf, ub > -inf - any such pair, also beyond the configured defaults
          xr_le(lb, ub), lb.k != 1, ub.k != -1, lb.k >= -1, ub.k <= 1,
          # Reaction() starts from the valid pair (0.0, Configuration().upper_bound)
          hi.k >= 0, hi.k <= 1, z3.Implies(hi.k == 0, hi.v >= 0)]
    for key in ("lower_bound", "upper_bound"):
        w = _entry(rec, key)
        if isinstance(w, VStr):
            cs.append(B.FLOAT_PARSES(w.t))          # a bound given as a string is one float() accepts
    return z3.And(*cs)


def rfd_parts(E):
    """the post-condition of _reaction_from_dict in named groups of conjuncts"""
    rec = E.s0.objs[E["reaction"].oid]
    res = E.res
    out = {}
    out["attributes"] = attr_clauses(E, "Reaction", rec, res, skip=SKIPPED + ("metabolites", "lower_bound", "upper_bound"))
    out["skipped"] = [z3.BoolVal(E.s1.ghost.get("rfd_forbidden", ()) == ())]
    if not (isinstance(res, VObj) and res.kind == "obj"):
        return out
    r = ident_of(res.oid)
    lb, ub = _rec_bounds(E)
    lb1, ub1 = C1.lbub(E, E.s1, r)
    m0, m1 = E.eng.heap_arr(E.s0, "_model"), E.eng.heap_arr(E.s1, "_model")
    x = qv("rx", Ref)
    out["bounds"] = [xr_eq(lb1, lb), xr_eq(ub1, ub),
                     C1.heap_real_unchanged_except(E, "_lower_bound", [r]), C1.heap_real_unchanged_except(E, "_upper_bound", [r]),
                     m1[r] == NULL, FA([x], z3.Implies(x != r, m1[x] == m0[x]), patterns=[m1[x]])]
    tr = E.s1.ghost.get("rfd_trace", ())
    ok = len(tr) == 1 and tr[0][0].oid == res.oid
    out["metabolites"] = [z3.BoolVal(ok)]
    if ok:
        _, d, st_c = tr[0]
        dr = st_c.objs[d.oid]
        mr = _rec_mets(E)
        dl = _model_mets(E)
        ida = idarr(E, E.s0)
        k, m = qv("mk", Id), qv("mm", Ref)
        mm = mets_of_model(E.s0, dl, k)
        want_kind = "int" if mr["vkind"] == "int" else "real"       # ints are kept, everything else goes through float()
        out["metabolites"] += [
            z3.BoolVal(dr.get("kkind", "").startswith("ref") and dr.get("vkind") == want_kind),
            FA([k], z3.Implies(z3.Select(mr["dom"], k), z3.And(z3.Select(dr["dom"], mm), z3.Select(dr["val"], mm) == z3.Select(mr["val"], k))),
               patterns=[z3.Select(mr["dom"], k)]),
            FA([m], z3.Implies(z3.Select(dr["dom"], m), z3.And(z3.Select(mr["dom"], ida[m]), mets_of_model(E.s0, dl, ida[m]) == m)),
               patterns=[z3.Select(dr["dom"], m)])]
    return out


def _rfd_post(E):
    return z3.And(*[c for cs in rfd_parts(E).values() for c in cs])


def _rfd_cases():
    out = []
    shapes = [(n1 + "-" + n2, t1, t2, "real", False) for (n1, t1), (n2, t2) in _it.product((("float", TReal), ("str", TStr)), repeat=2)]
    shapes += [("float-float-intcoef", TReal, TReal, "int", False), ("float-float-legacy", TReal, TReal, "real", True)]
    for name, t1, t2, ck, legacy in shapes:
        c = Case(name, ensures=_rfd_post)
        c.params_override = {"reaction": TCustom(_rxn_record(t1, t2, ck, legacy))}
        out.append(c)
    return out


REG.add(Contract(MD, "_reaction_from_dict", "C11", [("reaction", TCustom(_rxn_record(TReal, TReal))), ("model", _model_t())],
                 _rfd_cases(), pre=_rfd_pre, modifies=lambda E: list(RXN_HEAP), key="_reaction_from_dict"))

KEYS = ["_metabolite_from_dict", "gene_from_dict", "_reaction_from_dict"]
ASSUMED_KEYS = ["C11:Metabolite.__init__", "C11:Gene.__init__", "C11:Reaction.__init__", "C11:Reaction.gene_reaction_rule@setter",
                "C11:Reaction.add_metabolites"]


# ---------------------------------------------------------------- glue lemmas: writer post-condition o reader post-condition
def float_str_axiom():
    """ASSUMED: float(str(x)) == x for the values the writer turns into strings (+inf, -inf, NaN): str(x) is a string float()
    accepts, and float() of it is x again"""
    k, v = qv("fk", I), qv("fv", z3.RealSort())
    s = B.STR_OF_FLOAT(k, v)
    special = z3.Or(k == 1, k == -1, z3.And(k == 0, v == z3.Real("NaN_const")))
    return FA([k, v], z3.Implies(special, z3.And(B.FLOAT_PARSES(s), B.FLOAT_OF_STR_K(s) == k,
                                                 z3.Implies(k == 0, B.FLOAT_OF_STR_V(s) == v))), patterns=[s])


def _fresh_like(st, v, name):
    """a fresh value of the python class of v (a dictionary: a new symbolic dictionary)"""
    if isinstance(v, VObj):
        return _dict_t().make(st, name)
    if isinstance(v, VReal):
        return TReal().make(st, name)
    if isinstance(v, VInt):
        return st, VInt(z3.Int(name))
    if isinstance(v, VBool):
        return st, VBool(z3.Bool(name))
    return st, VStr(z3.Const(name, Id))


def _presence_shapes(E, st, xr, ks, defaults):
    """the subsets of optional keys the writer can emit for this shape of object: a key is present iff the attribute is not None and
    differs from its default (decided by the type for None-able attributes, free otherwise)"""
    choices = []
    for key in ks:
        want = W._uo_written(E, st, xr["attr:" + key], defaults[key])
        choices.append([want] if isinstance(want, bool) else [False, True])
    return [dict(zip(ks, c)) for c in _it.product(*choices)]


def _back(E, st_x, xv, st_y, yv, none_as=None):
    """the attribute value yv of the object read back is the attribute value xv of the object written"""
    if isinstance(xv, VNone):
        if none_as is not None:            # a REQUIRED attribute that is None is written as "" and comes back as ""
            return _b(E.eng.eq(st_y, yv, VConc(none_as))) if not isinstance(yv, (VObj, VNone)) else z3.BoolVal(False)
        return z3.BoolVal(isinstance(yv, VNone))
    if isinstance(xv, VObj):
        if not (isinstance(yv, VObj) and yv.kind == "dict"):
            return z3.BoolVal(False)
        return W.dict_same(st_x.objs[xv.oid], st_y.objs[yv.oid], "bk")
    if isinstance(yv, (VObj, VNone)) or yv is None:
        return z3.BoolVal(False)
    return _b(E.eng.eq(st_y, yv, xv))


def _check_hyps(name, hyps):
    """guard against vacuous lemmas: no hypothesis is literally False and together they are not refutable"""
    if any(z3.is_false(z3.simplify(h)) for h in hyps):
        raise AssertionError(f"lemma {name}: a hypothesis is literally False (the post-conditions do not fit the synthetic shape)")
    s = z3.Solver()
    s.set("timeout", 1500)
    s.add(*hyps)
    if s.check() == z3.unsat:
        raise AssertionError(f"lemma {name}: the hypotheses are contradictory (vacuous lemma)")


def _build_object(st, cls, items, skip=(), base="ly", idarg=None):
    """an arbitrary object of the shape the reader returns for the record `items` (all entries unconditional): attributes assigned
    from entries are fresh values of the entry's class (a dictionary entry: that very object, which is what the reader's
    post-condition demands), the others are the constructor's defaults"""
    attrs = {}
    for name, marker in CTOR[cls]:
        st, v = _default_value(st, marker, idarg)
        attrs["attr:" + name] = v
    for key, w in items:
        if key in skip:
            continue
        if isinstance(w, VObj):
            v = w
        else:
            st, v = _fresh_like(st, w, f"{base}_{key}")
        attrs["attr:" + PROP_FIELD.get(key, key)] = v
    return alloc_obj(st, cls, attrs)


def _lemmas_simple(eng, Obl, tag, param, wkey, rkey, cls, required):
    out = []
    ks, defaults, _ = W.UO_INST[tag]
    wcon, rcon = REG.get(wkey), REG.get(rkey)
    for wcase in wcon.cases:
        st0 = State()
        st0, x = wcase.params_override[param].make(st0, "lx")
        xr = st0.objs[x.oid]
        Ex = Env({param: x}, st0, st0, eng=eng)
        for pres in _presence_shapes(Ex, st0, xr, ks, defaults):
            shape = wcase.name + "/" + ("+".join(k for k in ks if pres[k]) or "no-optional-entry")
            name = f"C11/lemma/round-trip/{tag}/{shape}"
            st1, items = st0, []
            for key in list(required) + [k for k in ks if pres[k]]:
                xv = xr["attr:" + key]
                if isinstance(xv, VNone):
                    items.append((key, VConc("")))
                else:
                    st1, v = _fresh_like(st1, xv, f"lr_{key}")
                    items.append((key, v))
            st1, R = _mk_record(st1, items)
            hyp_w = wcase.ensures(Env({param: x}, st0, st1, res=R, eng=eng))
            st2, Y = _build_object(st1, cls, items, idarg=dict(items)["id"])
            hyp_r = rcon.cases[0].ensures(Env({param: R}, st1, st2, res=Y, eng=eng))
            hyps = list(st2.pc) + [hyp_w, hyp_r]
            _check_hyps(name, hyps)
            yr = st2.objs[Y.oid]
            goal = []
            for key in list(required) + list(ks):
                yv = yr.get("attr:" + PROP_FIELD.get(key, key))
                goal.append(_back(Ex, st0, xr["attr:" + key], st2, yv, none_as="" if key in required else None))
            out.append(Obl(name, hyps, z3.And(*goal), "lemma"))
    return out


def _lemmas_reaction(eng, Obl):
    out = []
    ks, defaults, _ = W.UO_INST["reaction"]
    wcon = REG.get("_reaction_to_dict")
    nan = z3.Real("NaN_const")
    st0 = State()
    st0, x = wcon.params[0][1].make(st0, "lx")
    st0, model = _model_t().make(st0, "lmodel")
    xr = st0.objs[x.oid]
    Ex = Env({"reaction": x}, st0, st0, eng=eng)
    xlb, xub = xr["attr:lower_bound"], xr["attr:upper_bound"]
    special = lambda b: z3.Or(b.k != 0, b.v == nan)  # noqa
    for (lb_str, ub_str), pres in _it.product(_it.product((False, True), repeat=2), _presence_shapes(Ex, st0, xr, ks, defaults)):
        shape = ("str" if lb_str else "float") + "-" + ("str" if ub_str else "float") + "/" + \
                ("+".join(k for k in ks if pres[k]) or "no-optional-entry")
        name = f"C11/lemma/round-trip/reaction/{shape}"
        st1, items = st0, []
        for key in ("id", "name", "metabolites", "lower_bound", "upper_bound", "gene_reaction_rule"):
            if key == "metabolites":
                st1, v = TDict("id", "real").make(st1, "lr_metabolites")
            elif key in ("lower_bound", "upper_bound") and (lb_str if key == "lower_bound" else ub_str):
                v = VStr(z3.Const("lr_" + key, Id))
            else:
                st1, v = _fresh_like(st1, xr["attr:" + key], "lr_" + key)
            items.append((key, v))
        for key in ks:
            if pres[key]:
                st1, v = _fresh_like(st1, xr["attr:" + key], "lr_" + key)
                items.append((key, v))
        st1, R = _mk_record(st1, items)
        hyp_w = wcon.cases[0].ensures(Env({"reaction": x}, st0, st1, res=R, eng=eng))
        st2, Y = _build_object(st1, "Reaction", items, skip=SKIPPED + ("metabolites", "lower_bound", "upper_bound"))
        for f in ("_lower_bound", "_upper_bound"):
            st2 = st2.setheap(f, (z3.Const(f"l1{f}_k", z3.ArraySort(Ref, I)), z3.Const(f"l1{f}_v", z3.ArraySort(Ref, z3.RealSort()))))
        st2 = st2.setheap("_model", z3.Const("l1_model", z3.ArraySort(Ref, Ref)))
        Er = Env({"reaction": R, "model": model}, st1, st2, res=Y, eng=eng)
        parts = rfd_parts(Er)
        hyps = list(st2.pc) + [hyp_w, float_str_axiom()] + parts["attributes"] + parts["bounds"]
        _check_hyps(name, hyps)
        yr = st2.objs[Y.oid]
        lb1, ub1 = C1.lbub(Er, st2, ident_of(Y.oid))
        goal = [xr_eq(lb1, xlb), xr_eq(ub1, xub)]
        for key in ("id", "name", "gene_reaction_rule", "subsystem", "notes", "annotation"):
            goal.append(_back(Ex, st0, xr["attr:" + key], st2, yr.get("attr:" + PROP_FIELD.get(key, key))))
        out.append(Obl(name, hyps, z3.And(*goal), "lemma"))
        if not any(pres.values()):
            # the reader's precondition on the bounds is met by what the writer emits for a reaction with a valid pair of bounds
            valid = [xr_le(xlb, xub), xlb.k != 1, xub.k != -1]
            lb, ub = _rec_bounds(Er)
            want = [xr_le(lb, ub), lb.k != 1, ub.k != -1, lb.k >= -1, ub.k <= 1]
            want += [B.FLOAT_PARSES(w.t) for k_, w in items if k_ in ("lower_bound", "upper_bound") and isinstance(w, VStr)]
            hyps2 = list(st1.pc) + [hyp_w, float_str_axiom()] + valid
            _check_hyps(name + "/pre", hyps2)
            out.append(Obl(f"C11/lemma/writer-output-meets-reader-precondition/reaction-bounds/{shape.split('/')[0]}", hyps2,
                           z3.And(*want), "lemma"))
    return out


def lemmas():
    """round trip per object kind, composed from the very post-conditions of the writer (c10_c11_io) and of the reader (above) on
    synthetic states: x --writer post--> record R --reader post--> y  implies  y has the attributes of x.  One lemma per shape of x
    (which None-able attributes are None) and per set of optional entries the writer can emit for that shape."""
    from pyvc.engine import Engine, Obl
    eng = Engine(REG, HOOKS)
    out = _lemmas_simple(eng, Obl, "metabolite", "metabolite", "_metabolite_to_dict", "_metabolite_from_dict", "Metabolite",
                         ("id", "name", "compartment"))
    out += _lemmas_simple(eng, Obl, "gene", "gene", "_gene_to_dict", "gene_from_dict", "Gene", ("id", "name"))
    out += _lemmas_reaction(eng, Obl)
    return out
