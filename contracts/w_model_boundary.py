"""Trusted-base reduction (round 5): Model.boundary against its real body (key "Model.boundary@getter", hook table HOOKS).

Documented: "A list of reactions that either have no substrate or product and only one metabolite overall."  Body:
[rxn for rxn in self.reactions if rxn.boundary].  Proved, for a model with any number of reactions: the result is a NEW list; every
element is a reaction of model.reactions whose boundary flag holds; every reaction of model.reactions whose flag holds occurs in it
(at the position given by the ghost filter maps, i.e. in model order); the model is not written.
`rxn.boundary` is used through the abstract contract of contracts/c17_cyclefree.py (ghost flag is_boundary of a symbolic reaction);
what that flag means - exactly one stored metabolite - is proved on the real body of Reaction.boundary in
contracts/w_reaction_sides.py ("Reaction.boundary@getter:body").
Model.exchanges / demands / sinks = find_boundary_types(self, <type>, None) stay ASSUMED where they are used (contracts/c18_*.py,
c19_blocked.py): find_boundary_types is cobrapy's own but rests on heuristics over compartment names, SBO annotations and a
pandas-based vote (find_external_compartment, is_boundary_type, DictList.query with a lambda) that were not put under contract.
Mutation trials (tools/mutate_and_run.sh cobra/core/model.py ... contracts.w_model_boundary --hooks HOOKS Model.boundary@getter), each NOT
verified: `if rxn.boundary]` -> `if not rxn.boundary]` (post.3 unknown, post.4 sat); `[rxn for` -> `[rxn.id for` (post sat: element kind);
filter dropped, `[rxn for rxn in self.reactions]` (post sat: no filter maps).
"""
import z3
from .common import *  # noqa
from . import c17_cyclefree as CF  # noqa  (Reaction.boundary@getter over the ghost flag is_boundary)

MM = "cobra/core/model.py"


def _model_t():
    return TObj("Model", {"reactions": TDictList("Reaction")})


def _post(E):
    res = E.res
    if not (isinstance(res, VObj) and res.kind == "list") or res.oid in E.s0.objs:
        return z3.BoolVal(False)
    rec = E.s1.objs[res.oid]
    if rec.get("ekind") != "ref:Reaction":
        return z3.BoolVal(False)
    flt = [v for k, v in E.s1.ghost.items() if isinstance(k, tuple) and len(k) == 2 and k[0] == "filter"]
    if len(flt) != 1:
        return z3.BoolVal(False)
    src, dst, _ = flt[0]
    dl = E.s0.objs[E["self"].oid]["attr:reactions"]
    n, e = L(E.s0, dl)
    m, el = rec["len"], rec["elem"]
    flag = E.eng.heap_arr(E.s0, "is_boundary")
    j, i = qv("bj"), qv("bi")
    return z3.And(m >= 0, m <= n,
                  FA([j], z3.Implies(z3.And(0 <= j, j < m), z3.And(0 <= src[j], src[j] < n, el[j] == e[src[j]], flag[el[j]])),
                     patterns=[el[j]]),
                  FA([i], z3.Implies(z3.And(0 <= i, i < n, flag[e[i]]), z3.And(0 <= dst[i], dst[i] < m, el[dst[i]] == e[i])),
                     patterns=[e[i]]),
                  unchanged_dl(E, dl))


REG.add(Contract(MM, "Model.boundary@getter", "C17", [("self", _model_t())], [Case("any", ensures=_post)],
                 pre=lambda E: L(E.s0, E.s0.objs[E["self"].oid]["attr:reactions"])[0] >= 0, key="Model.boundary@getter",
                 props=["C17", "C18"],
                 note="PROVED: a new list of exactly the reactions of model.reactions whose boundary flag holds, in model order"))


def _getattr(eng, st, v, name):
    """`rxn.boundary` by the abstract contract of c17_cyclefree, with the result as the TERM its post-condition pins down (so that it can
    stand under the comprehension's quantifier)"""
    cur = getattr(eng, "cur_contract", None)
    if cur is not None and cur.key == "Model.boundary@getter" and isinstance(v, VRef) and v.cls == "Reaction" and name == "boundary":
        return [("ok", st, VBool(eng.heap_arr(st, "is_boundary")[v.t]))]
    return None


HOOKS = {"getattr": _getattr}
KEYS = ["Model.boundary@getter"]
