"""C20 - ModelSummary._generate / MetaboliteSummary._generate (draft header, rewritten below when the proofs stand)."""
import z3
import cobra  # noqa
from .common import *  # noqa
from pyvc import npalg as N
from pyvc import builtins as B
from pyvc.values import VSeq
from pyvc.apply import ASSUMED_USED
from . import c20_reaction_summary as RS

MM = "cobra/summary/model_summary.py"
MT = "cobra/summary/metabolite_summary.py"
for _m in (MM, MT, "cobra/summary/summary.py"):
    if _m not in REG.modules:
        REG.modules.append(_m)
REG.inline.add("Summary._generate")

I = z3.IntSort()
NUM = z3.Function("pd:num", N.NP, z3.RealSort())            # the float an opaque scalar holds
AT = z3.Function("pd:at", N.NP, N.NP, N.NP, z3.RealSort())  # frame.at[label, column] of an EXTERNAL frame (the fva frame)


def T(name, *ts):
    return N.term(name, *ts)


def copy_of(x):
    return T("call", T("attr.copy", x))


def id_of(x):
    return T("attr.id", x)


def only_met(x):
    """the single metabolite of a boundary reaction (iteration over a one-entry `metabolites` dict)"""
    return T("pd.only", T("attr.metabolites", x))


def coef(r, mid):
    return T("call", T("attr.get_coefficient", r), mid)


def lit(s):
    return N.of_id(id_lit(s))


ORIG = z3.Function("pd:original", N.NP, N.NP)


def copy_axioms():
    """ASSUMED (contract cobra.copy@summary): what Reaction.copy / Metabolite.copy keep"""
    x, m = z3.Const("cp_x", N.NP), z3.Const("cp_m", N.NP)
    return [z3.ForAll([x], z3.And(id_of(copy_of(x)) == id_of(x), ORIG(copy_of(x)) == x), patterns=[copy_of(x)]),
            z3.ForAll([x], id_of(only_met(copy_of(x))) == id_of(only_met(x)), patterns=[only_met(copy_of(x))]),
            z3.ForAll([x, m], coef(copy_of(x), m) == coef(x, m), patterns=[coef(copy_of(x), m)])]


REG.add(Contract("cobra", "copy", "C20", [("self", TNone())], [Case("any")], assumed=True, key="cobra.copy@summary",
                 note="Reaction.copy / Metabolite.copy keep the identifier and give different objects for different originals; the (single) metabolite of the copy of a boundary reaction has "
                      "the identifier of the original's; copy.get_coefficient(mid) == original.get_coefficient(mid)"))
REG.add(Contract("pandas", "rowwise", "C20", [("self", TNone())], [Case("any")], assumed=True, key="pandas.rowwise",
                 note="row-wise semantics of the pandas operations the summaries use, as interpreted by contracts/c20_frames.py `ev`: "
                      "DataFrame(data=<list of row tuples>, columns, index) has one row per tuple in list order, labelled index[i]; "
                      "frame[col] / frame[[cols]] / frame.loc[mask, cols] select by LABEL (boolean mask: the rows where it holds) and are "
                      "copies; `frame[col] = v`, `frame[[cols]] = v`, `frame.loc[mask, cols] = v` replace exactly those cells, aligning a "
                      "labelled right-hand side (Series / DataFrame) on row AND column labels and an unlabelled one (`.values`) by "
                      "position; a left `join` on unique labels keeps the rows and adds the other frame's columns looked up by label "
                      "(every label present there); abs / where / mul(axis=0) / + - * / < <= > >= == | & act cell by cell "
                      "(scalars broadcast); floats are reals (no NaN, no rounding); `x[col] op= y` is `x[col] = x[col] op y`"))


_ARITH = {"np:add/2": lambda a, b: a + b, "np:sub/2": lambda a, b: a - b, "np:mul/2": lambda a, b: a * b, "np:div/2": lambda a, b: a / b}


def num(t):
    """the real number an opaque SCALAR term stands for (floats are reals)"""
    if t.sort() == z3.RealSort():
        return t
    h = t.decl().name() if z3.is_app(t) else ""
    if h == "np:of_real":
        return t.arg(0)
    if h == "np:of_int":
        return z3.ToReal(t.arg(0))
    if z3.is_app(t) and t.decl().kind() == z3.Z3_OP_ITE:
        return z3.If(t.arg(0), num(t.arg(1)), num(t.arg(2)))
    if h in _ARITH:
        return _ARITH[h](num(t.arg(0)), num(t.arg(1)))
    if h == "np:neg/1":
        return -num(t.arg(0))
    return NUM(t)


# ================================================================ hooks
_ABSTRACT = ("pfba", "flux_variability_analysis", "linear_reaction_coefficients", "Reaction")


def global_hook(eng, name):
    if name in _ABSTRACT:
        return VFunc("abstract", name)
    if name in ("zip", "sum"):
        return VFunc("abstract", "py:" + name)
    return None


def _trace(st, key):
    return st.ghost.get(key, ())


def call_abstract(eng, st, f, pos, kw):
    if f.a in ("pfba", "flux_variability_analysis"):
        out = N.VNp(fresh("np:" + f.a, N.NP))
        return [("ok", st.setghost("ms_calls", _trace(st, "ms_calls") + ((f.a, tuple(pos), dict(kw), out, st),)), out)]
    if f.a == "linear_reaction_coefficients":
        if len(pos) != 1 or kw or _trace(st, "lrc_calls"):
            raise Unsupported("linear_reaction_coefficients: unexpected call shape")
        st, d = alloc_dict(st, "np", "real", base="lrc")
        return [("ok", st.setghost("lrc_calls", ((tuple(pos), d),)), d)]
    if f.a == "Reaction":
        # the placeholder of the minimal display (non-linear objective): an opaque object, the call recorded
        out = N.VNp(fresh("np:Reaction", N.NP))
        return [("ok", st.setghost("ms_calls", _trace(st, "ms_calls") + ((f.a, tuple(pos), dict(kw), out, st),)), out)]
    if f.a == "py:zip":
        if len(pos) != 2 or kw:
            raise Unsupported("zip of other than two sequences")
        a, b = B.to_seq(eng, st, pos[0]), B.to_seq(eng, st, pos[1])
        if a is None or b is None:
            raise Unsupported("zip of non-sequences")
        n = z3.If(a.n <= b.n, a.n, b.n)
        return [("ok", st, VSeq(n, lambda s, i: VTuple((a.get(s, i), b.get(s, i))), tag="zip"))]
    if f.a == "py:sum":
        from pyvc import comprehension as C
        if len(pos) == 1 and not kw and isinstance(pos[0], C.VGen) and isinstance(pos[0].elt, N.VNp) and pos[0].cond is None:
            # sum(<opaque float> for k, c in d.items()): the engine's uninterpreted finite sum SIGMA(dom, F) with the summand read as a
            # real (floats are reals: pandas.rowwise)
            g = pos[0]
            key_term, dom = B._enumeration_of(st, g)
            if key_term is None:
                raise Unsupported("sum() over something else than the enumeration of a dict / set")
            k = z3.Const(fresh_name("sk"), key_term.sort())
            body = z3.substitute(num(g.elt.t), (key_term, k))
            if B._mentions(body, g.idx):
                raise Unsupported("sum(): the summand depends on the position in the enumeration")
            F = fresh("summand", z3.ArraySort(key_term.sort(), z3.RealSort()))
            st = st.assume(FA([k], z3.Select(F, k) == body, patterns=[z3.Select(F, k)]))
            st = st.setghost(("sigma", F.decl().name()), (dom, F))
            ASSUMED_USED["pandas.rowwise"] = REG.get("pandas.rowwise").note
            return [("ok", st, VReal(0, B.sigma(key_term.sort())(dom, F)))]
        return B.BUILTINS["sum"](eng, st, pos, kw)
    if f.a == "pandas.DataFrame":
        if pos or set(kw) != {"data", "columns", "index"}:
            raise Unsupported("pd.DataFrame: unexpected call shape")
        res = N.VNp(fresh("np:DataFrame", N.NP))
        rec = {"data": kw["data"], "columns": kw["columns"], "index": kw["index"], "state": st, "res": res}
        return [("ok", st.setghost("df_calls", _trace(st, "df_calls") + (rec,)), res)]
    return None


def getattr_hook(eng, st, v, name):
    if isinstance(v, VConc) and isinstance(v.py, tuple) and v.py[0] == "module" and v.py[1] == "pandas" and name == "DataFrame":
        return [("ok", st, VFunc("abstract", "pandas.DataFrame"))]
    return None


def iter_hook(eng, st, v):
    """`for met in rxn.metabolites` for a boundary reaction: ONE element (stated precondition: every boundary reaction has exactly
    one metabolite - the definition of Reaction.boundary)"""
    if isinstance(v, N.VNp) and z3.is_app(v.t) and v.t.decl().name() == "np:attr.metabolites/1":
        x = v.t.arg(0)
        return [("ok", st, VSeq(z3.IntVal(1), lambda s, i: N.VNp(only_met(x)), known_len=1, tag="only"))]
    return None


def getitem_hook(eng, st, obj, idx):
    # frame.loc[mask, [cols]]: a python list inside the index tuple
    if isinstance(obj, N.VNp) and isinstance(idx, VTuple):
        tup = N.app("tuple", *[N._prep(eng, st, x) for x in idx.items])
        return [("ok", st, N.app("getitem", obj, tup))]
    return None


# ---------------------------------------------------------------- in-place frame updates as functional updates of the ONE name
def _head(t):
    return t.decl().name() if z3.is_app(t) else ""


_OWNED_HEADS = ("np:pd.set/3", "np:pd.loc_set/4")


def _owned(t):
    """the frame object was CREATED in the function under verification (a DataFrame(...) call, a join, a copy, or an update of one):
    no caller holds a reference to it"""
    h = _head(t)
    if z3.is_const(t):
        return h.startswith("np:DataFrame")
    if h in _OWNED_HEADS:
        return _owned(t.arg(0))
    if h.startswith("np:call/") and _head(t.arg(0)) in ("np:attr.join/1", "np:attr.copy/1"):
        return True
    return False


def _bindings(st, t):
    out = []
    for fid, (parent, vars_) in st.frames.items():
        for k, v in vars_.items():
            if isinstance(v, N.VNp):
                out.append((("var", fid, k), v.t))
    for oid, rec in st.objs.items():
        for k, v in rec.items():
            if isinstance(k, str) and k.startswith("attr:") and isinstance(v, N.VNp):
                out.append((("attr", oid, k), v.t))
    return out


def _may_view(t, F):
    """a value that may share memory with the frame F: a single column, or an attribute (.values, .T, .loc) of it"""
    h = _head(t)
    if h == "np:getitem/2" and t.arg(0).eq(F) and _head(t.arg(1)) == "np:of_id":
        return True
    if h.startswith("np:attr.") and t.arg(0).eq(F):
        return True
    return False


def setitem_hook(eng, st, obj, idx, val):
    if not isinstance(obj, N.VNp):
        return None
    via_loc = _head(obj.t) == "np:attr.loc/1"
    F = obj.t.arg(0) if via_loc else obj.t
    if not _owned(F):
        raise Unsupported("in-place write into a frame that was not created in this function (a caller may hold it)")
    names = _bindings(st, F)
    holders = [n for n, t in names if t.eq(F)]
    if len(holders) != 1:
        raise Unsupported(f"in-place write into a frame bound to {len(holders)} names: the functional update is not sound")
    if any(_may_view(t, F) for n, t in names):
        raise Unsupported("in-place write into a frame while a possible VIEW of it (single column / attribute) is bound to a name")
    v = N._prep(eng, st, val)
    if via_loc:
        if not (isinstance(idx, VTuple) and len(idx.items) == 2):
            raise Unsupported(".loc assignment without (rows, columns)")
        new = N.app("pd.loc_set", N.VNp(F), N._prep(eng, st, idx.items[0]), N._prep(eng, st, idx.items[1]), v)
    else:
        new = N.app("pd.set", N.VNp(F), N._prep(eng, st, idx), v)
    ASSUMED_USED["pandas.rowwise"] = REG.get("pandas.rowwise").note
    kind, where, name = holders[0]
    if kind == "var":
        st = st.setvar(where, name, new)
    else:
        st = st.updobj(where, **{name: new})
    return [("ok", st, NONE)]


NAN = z3.Const("np:nan", N.NP)


def float_nan_hook(eng, st):
    return [("ok", st, N.VNp(NAN))]


HOOKS = chain_hooks({"float_nan": float_nan_hook, "global": global_hook, "call_abstract": call_abstract, "getattr": getattr_hook, "iter": iter_hook,
                     "getitem": getitem_hook, "setitem": setitem_hook, "isinstance": RS.isinstance_hook}, N.HOOKS)


# ================================================================ the ASSUMED row-wise meaning of the frame terms (contract pandas.rowwise)
class Sc:
    """a scalar (broadcast over rows)"""
    def __init__(self, e):
        self.e = e


class Se:
    """a labelled Series at the arbitrary row: its value there, and whether the row is present in it"""
    def __init__(self, e, present):
        self.e, self.present = e, present


class Fr:
    """a labelled DataFrame at the arbitrary row: ordered columns (name, cell), presence of the row, the row's label, and - after a
    left join - the EXTERNAL frame whose further columns are looked up by label (AT)"""
    def __init__(self, cols, present, label, extra=None):
        self.cols, self.present, self.label, self.extra = list(cols), present, label, extra

    def names(self):
        return [n for n, _ in self.cols]

    def col(self, name):
        for n, e in self.cols:
            if n == name:
                return e
        if self.extra is not None:
            return AT(self.extra, self.label, lit(name))
        raise Unsupported(f"column {name!r} is not in the frame (KeyError / NaN)")

    def with_col(self, name, e):
        if name in self.names():
            cols = [(n, e if n == name else x) for n, x in self.cols]
        else:
            cols = self.cols + [(name, e)]
        return Fr(cols, self.present, self.label, self.extra)

    def sub(self, names, present=None):
        return Fr([(n, self.col(n)) for n in names], self.present if present is None else present, self.label)


class Ar:
    """UNLABELLED values (`.values`): positional"""
    def __init__(self, es, present):
        self.es, self.present = list(es), present


def R(e):
    return num(e) if e.sort() == N.NP else e


def _abs(x):
    x = R(x)
    return z3.If(x >= 0, x, -x)


def colname(t):
    if _head(t) == "np:of_id":
        x = z3.simplify(t.arg(0))
        if z3.is_const(x) and x.decl().name().startswith("lit_"):
            return x.decl().name()[4:]
    raise Unsupported(f"column key that is not a literal name: {t}")


def colkey(t):
    """-> (single?, [names])"""
    if _head(t).startswith("np:list/"):
        return False, [colname(a) for a in t.children()]
    return True, [colname(t)]


_CMPS = {"np:lt/2": lambda a, b: a < b, "np:le/2": lambda a, b: a <= b, "np:gt/2": lambda a, b: a > b, "np:ge/2": lambda a, b: a >= b,
         "np:eq/2": lambda a, b: a == b, "np:ne/2": lambda a, b: a != b}
_BOOLS = {"np:or/2": z3.Or, "np:and/2": z3.And}
_TRUE = z3.BoolVal(True)


def _implied(a, b):
    """presence b follows from presence a (syntactic / by simplification; refuses otherwise: NaN would be introduced)"""
    def conj(x):
        if z3.is_and(x):
            return [c for y in x.children() for c in conj(y)]
        return [] if z3.is_true(x) else [x]
    have = conj(a)
    return all(any(c.eq(h) for h in have) for c in conj(b))


class Rows:
    """interpretation of frame terms at ONE arbitrary row i of the frames built in the state `st`"""
    def __init__(self, st, i):
        self.st, self.i, self.memo = st, i, {}
        ASSUMED_USED["pandas.rowwise"] = REG.get("pandas.rowwise").note

    def ev(self, t):
        k = t.get_id()
        if k not in self.memo:
            self.memo[k] = self._ev(t)
        return self.memo[k]

    def frame(self, t):
        v = self.ev(t)
        if not isinstance(v, Fr):
            raise Unsupported(f"not a frame: {_head(t)}")
        return v

    def _dataframe(self, t):
        recs = [r for r in _trace(self.st, "df_calls") if r["res"].t.eq(t)]
        if len(recs) != 1:
            raise Unsupported("unknown DataFrame constant")
        r = recs[0]
        s = r["state"]
        data, cols, idx = r["data"], r["columns"], r["index"]
        if not (isinstance(data, VObj) and data.kind == "tlist" and isinstance(idx, VObj) and idx.kind == "list"):
            raise Unsupported("DataFrame(data=, index=) of other than a list of row tuples and a list of labels")
        cs = B.to_seq(None, s, cols)
        names = [colname(N.lift(cs.get(s, z3.IntVal(c)))) for c in range(cs.known_len)]
        drec = s.objs[data.oid]
        if len(names) != len(drec["cols"]):
            raise Unsupported("DataFrame: number of columns differs from the width of the rows")
        cells = [(nm, z3.Select(c, self.i)) for nm, c in zip(names, drec["cols"])]
        irec = s.objs[idx.oid]
        label = z3.Select(irec["elem"], self.i)
        f = Fr(cells, _TRUE, label if label.sort() == N.NP else N.of_id(label))
        f.nrows, f.nlabels = drec["len"], irec["len"]
        return f

    def _binary(self, fn, a, b, conv):
        def one(x, y):
            return fn(conv(x), conv(y))
        if isinstance(a, Sc) and isinstance(b, Sc):
            return Sc(one(a.e, b.e))
        if isinstance(a, Se) and isinstance(b, (Se, Sc)):
            if isinstance(b, Se) and not b.present.eq(a.present):
                raise Unsupported("binary operation on series over different rows")
            return Se(one(a.e, b.e), a.present)
        if isinstance(a, Sc) and isinstance(b, Se):
            return Se(one(a.e, b.e), b.present)
        if isinstance(a, Fr) and isinstance(b, Sc):
            return Fr([(n, one(x, b.e)) for n, x in a.cols], a.present, a.label)
        raise Unsupported(f"binary operation on {type(a).__name__} and {type(b).__name__}")

    def _assign(self, F, mask, key, V):
        single, names = colkey(key)
        rows = F.present if mask is None else z3.And(F.present, mask)

        def put(f, name, e):
            old = f.col(name) if name in f.names() or f.extra is not None else None
            if mask is None:
                return f.with_col(name, e)
            if old is None:
                raise Unsupported("masked assignment into a column that does not exist")
            if old.sort() != e.sort():
                old, e = R(old), R(e)
            return f.with_col(name, z3.If(mask, e, old))
        if isinstance(V, Sc):
            for nm in names:
                F = put(F, nm, V.e)
            return F
        if isinstance(V, Se):
            if not single:
                raise Unsupported("series assigned to several columns")
            if not _implied(rows, V.present):
                raise Unsupported("assignment of a series that lacks some of the target rows (NaN)")
            return put(F, names[0], V.e)
        if isinstance(V, Fr):
            if single:
                raise Unsupported("frame assigned to one column")
            if not _implied(rows, V.present):
                raise Unsupported("assignment of a frame that lacks some of the target rows (NaN)")
            vals = [V.col(nm) for nm in names]           # a LABELLED right-hand side is aligned on the column labels
            for nm, e in zip(names, vals):
                F = put(F, nm, e)
            return F
        if isinstance(V, Ar):
            if len(V.es) != len(names) or not _implied(rows, V.present):
                raise Unsupported("positional assignment of another shape")
            for nm, e in zip(names, V.es):               # an UNLABELLED right-hand side goes by position
                F = put(F, nm, e)
            return F
        raise Unsupported("assignment of an unknown kind of value")

    def _mask(self, t, F):
        if _head(t) == "np:slice/3":
            return None
        m = self.ev(t)
        if not (isinstance(m, Se) and m.e.sort() == z3.BoolSort() and m.present.eq(F.present)):
            raise Unsupported("row selector that is not a boolean mask over the rows of the frame")
        return m.e

    def _ev(self, t):
        h = _head(t)
        if z3.is_const(t) and h.startswith("np:DataFrame"):
            return self._dataframe(t)
        if h == "np:pd.set/3":
            return self._assign(self.frame(t.arg(0)), None, t.arg(1), self.ev(t.arg(2)))
        if h == "np:pd.loc_set/4":
            F = self.frame(t.arg(0))
            return self._assign(F, self._mask(t.arg(1), F), t.arg(2), self.ev(t.arg(3)))
        if h == "np:getitem/2":
            X, k = t.arg(0), t.arg(1)
            if _head(X) == "np:attr.loc/1":
                F = self.frame(X.arg(0))
                if _head(k) != "np:tuple/2":
                    raise Unsupported(".loc[...] without (rows, columns)")
                m = self._mask(k.arg(0), F)
                pres = F.present if m is None else z3.And(F.present, m)
                single, names = colkey(k.arg(1))
                return Se(F.col(names[0]), pres) if single else F.sub(names, pres)
            if _head(k) in ("np:of_id",) or _head(k).startswith("np:list/"):
                try:
                    single, names = colkey(k)
                except Unsupported:
                    return Sc(t)
                Xv = self.ev(X)
                if isinstance(Xv, Fr):
                    return Se(Xv.col(names[0]), Xv.present) if single else Xv.sub(names)
            return Sc(t)
        if h == "np:attr.values/1":
            X = self.ev(t.arg(0))
            if isinstance(X, Fr):
                return Ar([e for _, e in X.cols], X.present)
            if isinstance(X, Se):
                return Ar([X.e], X.present)
            raise Unsupported(".values of a scalar")
        if h.startswith("np:call/") and _head(t.arg(0)).startswith("np:attr."):
            meth, recv, args = _head(t.arg(0))[8:-2], t.arg(0).arg(0), t.children()[1:]
            if meth == "copy" and not args:
                X = self.ev(recv)
                if isinstance(X, (Fr, Se)):
                    return X
                return Sc(t)
            if meth == "abs" and not args:
                X = self.ev(recv)
                if isinstance(X, Se):
                    return Se(_abs(X.e), X.present)
                if isinstance(X, Fr):
                    return Fr([(n, _abs(e)) for n, e in X.cols], X.present, X.label)
                raise Unsupported("abs of a scalar")
            if meth == "where" and len(args) == 2:
                X, C, O = self.frame(recv), self.ev(args[0]), self.ev(args[1])
                if not (isinstance(C, Fr) and C.names() == X.names() and C.present.eq(X.present) and isinstance(O, Sc)):
                    raise Unsupported("where(cond, other) of another shape")
                return Fr([(n, z3.If(C.col(n), R(e), R(O.e))) for n, e in X.cols], X.present, X.label)
            if meth == "join" and len(args) == 1:
                X = self.frame(recv)
                if X.extra is not None:
                    raise Unsupported("second join")
                return Fr(X.cols, X.present, X.label, extra=args[0])
            if meth == "sum" and not args:
                return Sc(NUM(t))                            # an OPAQUE total: nothing is known about it but what it is the sum of
            return Sc(t)
        if h == "np:call_axis_/3" and _head(t.arg(0)) == "np:attr.mul/1":
            X, S = self.frame(t.arg(0).arg(0)), self.ev(t.arg(1))
            if not (isinstance(S, Se) and S.present.eq(X.present) and t.arg(2).eq(N.of_int(z3.IntVal(0)))):
                raise Unsupported("frame.mul(series, axis=) of another shape")
            return Fr([(n, R(e) * R(S.e)) for n, e in X.cols], X.present, X.label)
        if h in _ARITH:
            return self._binary(_ARITH[h], self.ev(t.arg(0)), self.ev(t.arg(1)), R)
        if h in _CMPS:
            return self._binary(_CMPS[h], self.ev(t.arg(0)), self.ev(t.arg(1)), R)
        if h in _BOOLS:
            return self._binary(_BOOLS[h], self.ev(t.arg(0)), self.ev(t.arg(1)), lambda x: x)
        return Sc(t)


# ================================================================ ModelSummary._generate
_MS_ATTRS = ("_objective", "_objective_value", "_boundary", "_boundary_metabolites", "uptake_flux", "secretion_flux", "_flux", "_tolerance")


def _ms_self():
    return TObj("ModelSummary", {a: TNone() for a in _MS_ATTRS})


def _model_t():
    return TObj("Model", {"tolerance": TReal(), "boundary": TList("np")})


ROW_J = z3.Int("summary_j")          # an arbitrary position in model.boundary / self._reactions
KEY_X = z3.Const("summary_x", N.NP)  # an arbitrary reaction (objective coefficients)


def _rnd(x, tol):
    """`view.where(view.abs() >= tolerance, 0)` / `loc[abs < tolerance] = 0` on a real"""
    return z3.If(_abs(x) >= tol, x, z3.RealVal(0))


def _solution_and_ranges(E, calls, want_reactions):
    """which solution / which FVA ranges the code must have used -> (python-level shape ok, solution term, ranges term or None)"""
    sol_given = not isinstance(E["solution"], VNone)
    fva = E["fva"]
    want = (0 if sol_given else 1) + (1 if isinstance(fva, VReal) else 0)
    if len(calls) != want:
        return False, None, None
    ok, k = True, 0
    if sol_given:
        sol = E["solution"].t
    else:
        name, pos, kw, out, _ = calls[0]
        ok = ok and name == "pfba" and len(pos) == 1 and pos[0] is E["model"] and not kw
        sol, k = out.t, 1
    if isinstance(fva, VNone):
        return ok, sol, None
    if isinstance(fva, VReal):
        name, pos, kw, out, st_call = calls[k]
        ok = ok and (name == "flux_variability_analysis" and not pos and set(kw) == {"model", "reaction_list", "fraction_of_optimum"}
                     and kw["model"] is E["model"] and kw["fraction_of_optimum"] is fva
                     and bool(want_reactions(kw["reaction_list"], st_call)))
        return ok, sol, out.t
    return ok, sol, fva.t


def _the_perm(st):
    ps = [v for k, v in st.ghost.items() if isinstance(k, tuple) and len(k) == 2 and k[0] == "perm"]
    return ps[0] if len(ps) == 1 else None


def _row_clauses(rows, flux_t, side_ts, side_names, r_id, fac, raw, tol, ranges, label_ok=None):
    """the clauses about ONE row of the flux table `flux_t` and of the two sides: shared by the model and the metabolite summary"""
    F = rows.frame(flux_t)
    cs = []
    with_fva = ranges is not None
    if with_fva:
        flux = _rnd(raw, tol) + 0
        lo, hi = _rnd(AT(ranges, r_id, lit("minimum")), tol) * fac, _rnd(AT(ranges, r_id, lit("maximum")), tol) * fac
        mn, mx = z3.If(fac < 0, hi, lo) + 0, z3.If(fac < 0, lo, hi) + 0          # a negative factor swaps the ends of the range
    else:
        flux = z3.If(_abs(raw) < tol, z3.RealVal(0), raw) + 0
    cs.append(("label", F.label == r_id))
    cs.append(("present", F.present))
    cs.append(("reaction", F.col("reaction") == r_id))
    cs.append(("factor", R(F.col("factor")) == fac))
    cs.append(("flux", R(F.col("flux")) == flux))
    if with_fva:
        cs.append(("minimum", R(F.col("minimum")) == mn))
        cs.append(("maximum", R(F.col("maximum")) == mx))
    want_side = [z3.Or(flux > 0, z3.And(flux == 0, fac > 0)), z3.Or(flux < 0, z3.And(flux == 0, fac < 0))]
    sides = []
    for t, nm, want in zip(side_ts, side_names, want_side):
        S = rows.frame(t)
        sides.append(S)
        cs.append((nm + ":listed-iff", S.present == want))
        for c in ["flux", "reaction"] + (["minimum", "maximum"] if with_fva else []):
            a, b = S.col(c), F.col(c)
            cs.append((f"{nm}:{c}", (R(a) == R(b)) if c != "reaction" else (a == b)))
    cs.append(("exactly-one-side", z3.Implies(fac != 0, z3.Xor(sides[0].present, sides[1].present))))
    return F, sides, cs


def _ms_post(E):
    s0, s1 = E.s0, E.s1
    me = s1.objs[E["self"].oid]
    model = s0.objs[E["model"].oid]
    mb = model["attr:boundary"]
    n, mbe = s0.objs[mb.oid]["len"], s0.objs[mb.oid]["elem"]
    tol = model["attr:tolerance"].v
    calls = [c for c in _trace(s1, "ms_calls") if c[0] != "Reaction"]
    ok, sol, ranges = _solution_and_ranges(E, calls, lambda rl, st: rl is mb)
    pm = _the_perm(s1)
    flux_v, up_v, sec_v = me.get("attr:_flux"), me.get("attr:uptake_flux"), me.get("attr:secretion_flux")
    if not ok or pm is None or not all(isinstance(v, N.VNp) for v in (flux_v, up_v, sec_v)):
        return z3.BoolVal(False)
    perm, inv = pm
    j = ROW_J
    i = z3.Select(inv, j)                                   # the row of the j-th boundary reaction (rows are sorted by identifier)
    r = z3.Select(mbe, j)
    r_id, m_id = id_of(r), id_of(only_met(r))
    fac = NUM(coef(r, m_id))
    raw = NUM(T("getitem", sol, r_id)) * fac
    rows = Rows(s1, i)
    F, sides, cs = _row_clauses(rows, flux_v.t, (up_v.t, sec_v.t), ("uptake", "secretion"), r_id, fac, raw, tol, ranges)
    base = rows.frame([x for x in _trace(s1, "df_calls")][0]["res"].t)
    out = [z3.And(0 <= i, i < n, z3.Select(perm, i) == j),                               # the row exists ...
           z3.And(base.nrows == n, base.nlabels == n)]                                   # ... and there are no other rows
    out += [c for _, c in cs]
    out.append(F.col("metabolite") == m_id)
    for S in sides:
        out.append(S.col("metabolite") == F.col("metabolite"))
        want = ["flux"] + (["minimum", "maximum"] if ranges is not None else []) + ["reaction", "metabolite"]
        out.append(z3.BoolVal(S.names() == want))
    # the tolerance of the summary is the model's; the objective
    out.append(z3.BoolVal(me.get("attr:_tolerance") is model["attr:tolerance"]))
    out += _objective_clauses(E, sol)
    return z3.And(*[z3.Implies(z3.And(0 <= j, j < n), c) for c in out])


def _objective_clauses(E, sol):
    s1 = E.s1
    me = s1.objs[E["self"].oid]
    lrc = _trace(s1, "lrc_calls")
    if len(lrc) != 1 or lrc[0][0] != (E["model"],):
        return [z3.BoolVal(False)]
    d = s1.objs[lrc[0][1].oid]
    ov, ob = me.get("attr:_objective_value"), me.get("attr:_objective")
    x = KEY_X
    if isinstance(ov, VReal):
        # linear objective: {copy of r: c_r} and the value SIGMA over these copies of solution[copy.id] * c
        sig = [v for k, v in s1.ghost.items() if isinstance(k, tuple) and k[0] == "sigma"]
        if len(sig) != 1 or not (isinstance(ob, VObj) and ob.kind == "dict"):
            return [z3.BoolVal(False)]
        dom, Fn = sig[0]
        orec = s1.objs[ob.oid]
        return [z3.Implies(z3.Select(d["dom"], x), z3.And(z3.Select(orec["dom"], copy_of(x)),
                                                           z3.Select(orec["val"], copy_of(x)) == z3.Select(d["val"], x))),
                dom == orec["dom"], ov.k == 0, ov.v == B.sigma(N.NP)(orec["dom"], Fn),
                z3.Select(Fn, x) == NUM(T("getitem", sol, id_of(x))) * z3.Select(orec["val"], x)]
    # non-linear / non-reaction objective (no coefficients): the documented minimal display
    return [z3.Not(z3.Select(d["dom"], x)), z3.BoolVal(isinstance(ov, N.VNp) and ov.t.eq(NAN))]


def _cases(post):
    out = []
    for sol in (False, True):
        for fv in ("none", "float", "frame"):
            c = Case(f"solution={'given' if sol else 'none'}:fva={fv}", ensures=post)
            c.params_override = {"solution": N.TNp() if sol else TNone(),
                                 "fva": {"none": TNone(), "float": TReal(), "frame": N.TNp()}[fv]}
            out.append(c)
    return out


REG.add(Contract(MM, "ModelSummary._generate", "C20",
                 [("self", _ms_self()), ("model", _model_t()), ("solution", TNone()), ("fva", TNone())],
                 _cases(_ms_post), key="ModelSummary._generate", axioms=lambda E: copy_axioms(),
                 pre=lambda E: E.s0.objs[E["model"].oid]["attr:tolerance"].k == 0,
                 modifies=lambda E: [("obj", E["self"]), ("ghost", "ms_calls", lambda st: ()), ("ghost", "df_calls", lambda st: ()),
                                     ("ghost", "lrc_calls", lambda st: ())]))


# ================================================================ MetaboliteSummary._generate
_MT_ATTRS = ("producing_flux", "consuming_flux", "_flux", "_tolerance")


def _mt_self():
    attrs = {a: TNone() for a in _MT_ATTRS}
    attrs.update({"_metabolite": N.TNp(), "_reactions": TList("np")})
    return TObj("MetaboliteSummary", attrs)


def _mt_post(E):
    s0, s1 = E.s0, E.s1
    me0, me = s0.objs[E["self"].oid], s1.objs[E["self"].oid]
    model = s0.objs[E["model"].oid]
    rl = me0["attr:_reactions"]
    n, re_ = s0.objs[rl.oid]["len"], s0.objs[rl.oid]["elem"]
    tol = model["attr:tolerance"].v
    j = ROW_J
    box = {}

    def want_reactions(lst, st):
        # reaction_list=[r.id for r in self._reactions]: a list; WHAT it holds is a clause below
        box["rl"] = (lst, st)
        return isinstance(lst, VObj) and lst.kind == "list"
    ok, sol, ranges = _solution_and_ranges(E, list(_trace(s1, "ms_calls")), want_reactions)
    flux_v, pro_v, con_v = me.get("attr:_flux"), me.get("attr:producing_flux"), me.get("attr:consuming_flux")
    if not ok or not all(isinstance(v, N.VNp) for v in (flux_v, pro_v, con_v)) or me.get("attr:_reactions") is not rl:
        return z3.BoolVal(False)
    r = z3.Select(re_, j)
    r_id = id_of(r)
    fac = NUM(coef(r, id_of(me0["attr:_metabolite"].t)))
    raw = NUM(T("getitem", sol, r_id)) * fac
    rows = Rows(s1, j)
    # each side is `<selection>.copy()` with the column `percent` set afterwards
    parts = []
    for v in (pro_v, con_v):
        if not (_head(v.t) == "np:pd.set/3" and colkey(v.t.arg(1)) == (True, ["percent"])):
            return z3.BoolVal(False)
        parts.append(v.t.arg(0))
    F, sides, cs = _row_clauses(rows, flux_v.t, (pro_v.t, con_v.t), ("producing", "consuming"), r_id, fac, raw, tol, ranges)
    base = rows.frame([x for x in _trace(s1, "df_calls")][0]["res"].t)
    out = [z3.And(base.nrows == n, base.nlabels == n)]                # one row per element of self._reactions, in that order
    out += [c for _, c in cs]
    flux = R(F.col("flux"))
    for S, P in zip(sides, parts):
        Pf = rows.frame(P)
        total = NUM(T("call", T("attr.sum", T("call", T("attr.abs", T("getitem", P, lit("flux")))))))     # the OPAQUE sum of |flux| of this side
        out.append(z3.And(Pf.present == S.present, R(Pf.col("flux")) == flux))                              # ... whose rows are this side's
        out.append(R(S.col("percent")) == _abs(flux) / total)
        want = ["flux"] + (["minimum", "maximum"] if ranges is not None else []) + ["reaction", "percent"]
        out.append(z3.BoolVal(S.names() == want))
    if "rl" in box:
        lst, st = box["rl"]
        lrec = st.objs[lst.oid]
        out.append(z3.And(lrec["len"] == n, z3.Select(lrec["elem"], j) == r_id))                            # FVA is asked for exactly these reactions
    out.append(z3.BoolVal(me.get("attr:_tolerance") is model["attr:tolerance"]))
    return z3.And(*[z3.Implies(z3.And(0 <= j, j < n), c) for c in out])


REG.add(Contract(MT, "MetaboliteSummary._generate", "C20",
                 [("self", _mt_self()), ("model", _model_t()), ("solution", TNone()), ("fva", TNone())],
                 _cases(_mt_post), key="MetaboliteSummary._generate", axioms=lambda E: copy_axioms(),
                 pre=lambda E: E.s0.objs[E["model"].oid]["attr:tolerance"].k == 0,
                 modifies=lambda E: [("obj", E["self"]), ("ghost", "ms_calls", lambda st: ()), ("ghost", "df_calls", lambda st: ())]))
