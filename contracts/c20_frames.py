"""C20 - ModelSummary._generate and MetaboliteSummary._generate: which numbers the model and the metabolite summary show.

Statement (C20): "A model summary lists every boundary reaction exactly once, under uptake or secretion according to the sign of its
metabolite's net exchange, with a flux equal to the solution's flux times the stoichiometric coefficient, and reports the objective
value of that solution.  A metabolite summary lists every reaction of the metabolite exactly once as producing or consuming, with flux
equal to solution flux times coefficient; ... Ranges shown with fva= are the FVA ranges scaled the same way".

Both functions build a pandas frame and then UPDATE IT IN PLACE (`flux["flux"] *= ...`, `flux[[cols]] = ...`, `flux.loc[mask, col] = ...`),
which an algebra of pure uninterpreted operations cannot express.  Two layers:

LAYER 1 - data flow (proved by symbolic execution of the real source).  A frame is an immutable opaque value held in a local variable
or an attribute; the `setitem` hook gives `F[key] = v` the meaning "the ONE name that holds F now holds pd.set(F, key, v)" and
`F.loc[rows, cols] = v` the meaning "... holds pd.loc_set(F, rows, cols, v)"; `F[key] op= v` is executed by the engine as
`F[key] = F[key] op v`.  This is sound exactly when the frame object is reachable through one name only and no live value shares its
memory.  The hook CHECKS that at every write and refuses (Unsupported -> undecided) otherwise:
  * the frame was created in this very function (a pd.DataFrame(...) call, the result of .join / .copy, or an update of such);
  * exactly one local / attribute of the whole symbolic state holds that term;
  * no name is bound to a possible VIEW of it: `F[col]` (single column), `F.<attr>` (.values, .T, .loc), `F.loc[<not a boolean mask>, ..]`.
    The names the real code binds are `view = flux[[..]]` (list of columns: a copy), `tmp = flux.loc[negative, "maximum"]`
    (boolean mask: a copy), `negative` / `is_produced` / `is_consumed` / `production` / `consumption` (results of operators: new objects).
  ASSUMPTION stated: these three pandas facts (list-of-columns / boolean-mask selection and operator results never alias their source).
  By inspection of the source: ModelSummary._generate and MetaboliteSummary._generate write only to the local `flux` (rebound once by
  `flux = flux.join(fva)`) and, in the metabolite summary, to `self.producing_flux` / `self.consuming_flux` (each the result of `.copy()`);
  `self._flux = flux` is the LAST statement, after every write.

LAYER 2 - meaning, under the ASSUMED contract `pandas.rowwise` (see its note; the interpreter `Rows.ev` below IS that assumption: it
maps a frame term to the cells of one arbitrary row, refusing every shape it does not know), floats as reals, and the ASSUMED contract
`cobra.copy@summary` (a copy keeps the identifier, the coefficients, and - for a boundary reaction - the identifier of its metabolite).

PROVED for every shape of the arguments (solution given / None; fva None / float / frame), precondition: model.tolerance finite; model
summary: every element of model.boundary has exactly ONE metabolite (the definition of Reaction.boundary; used by the `iter` hook):
  ModelSummary._generate, for an ARBITRARY position j of model.boundary (r = model.boundary[j], m = its metabolite):
    * rows: the frame has len(model.boundary) rows and as many labels; row inv[j] of the permutation `sorted` applies is r's row, different
      positions get different rows (ghost bijection of `sorted`): each boundary reaction exactly once; label = reaction cell = r.id,
      metabolite cell = m.id;
    * factor = r.get_coefficient(m.id);  flux = solution[r.id] * factor, replaced by 0 when |.| < tolerance (then + 0);
    * with fva (frame G = the given frame, or the result of the FVA call): minimum / maximum = thr(G.at[r.id, "minimum"/"maximum"]) * factor
      with thr(x) = x if |x| >= tolerance else 0, SWAPPED when factor < 0 (then + 0), and flux = thr(solution[r.id] * factor);
      plus the statement's form (scaled, then thresholded, swapped) under the hypothesis that the threshold cuts the same values before
      and after scaling - which is proved to hold for |factor| = 1 (see FINDING 1);
    * r's row is in uptake_flux iff flux > 0 or (flux = 0 and factor > 0), in secretion_flux iff flux < 0 or (flux = 0 and factor < 0); when
      factor != 0 in exactly one of them; the cells there are those of the flux table; the column lists are exactly
      [flux, (minimum, maximum,) reaction, metabolite];
    * the solution is the argument, else the result of exactly ONE pfba(model); a float fva: exactly ONE
      flux_variability_analysis(model=model, reaction_list=model.boundary, fraction_of_optimum=fva); _tolerance = model.tolerance;
    * objective: linear_reaction_coefficients(model) is called once; non-empty: _objective = {copy(r): c_r} and _objective_value =
      SIGMA over the keys k of _objective of solution[k.id] * _objective[k] (the engine's uninterpreted finite sum; that it equals the sum
      over the originals needs a re-indexing lemma and is NOT proved); empty: the documented minimal display (placeholder reaction, nan).
  MetaboliteSummary._generate, for an ARBITRARY position j of self._reactions (r = self._reactions[j], the metabolite M = self._metabolite):
    * rows = len(self._reactions) (that the list holds every reaction of the metabolite once is __init__'s business: a sorted copy of the
      frozenset metabolite.reactions - not under contract); label = reaction cell = r.id; factor = r.get_coefficient(M.id); flux, minimum,
      maximum, the producing / consuming split and its exclusiveness exactly as above;
    * percent = |flux| / T where T is the OPAQUE pandas sum of the |flux| column of that very side table (whose rows are proved to be the
      side's rows); column lists [flux, (minimum, maximum,) reaction, percent];
    * solution / pfba as above; a float fva: ONE flux_variability_analysis(model=model, reaction_list=L, fraction_of_optimum=fva) with
      len(L) = len(self._reactions) and L[j] = r.id.
NOT PROVED (bounded driver): percentages sum to one / totals balance (opaque sums), NaN, rendering.

FINDING 1 (native reproduction, /venv/bin/python against /repo): the zero threshold is applied to the FVA range BEFORE scaling by the
coefficient but to the flux AFTER scaling, so "ranges ... scaled the same way" fails for |factor| != 1 and a shown flux can lie outside
its shown range.  Model: a_c; R1: -> 100 a_c, R2: a_c -> ; tolerance 1e-7; Solution fluxes R1 = 5e-8, R2 = 5e-6; fva frame minimum = maximum
= the same numbers.  `model.metabolites.a_c.summary(solution=sol, fva=fva)._flux` shows R1 flux 5e-06 (= 5e-8 * 100) with minimum = maximum = 0
(5e-8 is below the tolerance and zeroed before the scaling), while R2 shows -5e-06 in [-5e-06, -5e-06].

ENGINE CHANGES (additive): pyvc/comprehension.py `_listcomp_flat1` ([e for x in xs for y in <one-element iterable of x>], previously
unsupported) and in `_element` the inner iterable may be an external collection the `iter` hook gives a fixed length; pyvc/builtins.py
`bi_float`: float("nan") goes to the new hook "float_nan" (unsupported without it; it used to crash the z3 numeral parser).

ALSO PROVED: MetaboliteSummary.__init__ (hooks HOOKS_INIT): self._metabolite = the copy of the metabolite; self._reactions holds the
copy of every member of the frozenset metabolite.reactions exactly once (length = cardinality; member x's copy stands at position
inv[pos[x]] of the ghost enumeration / sorted permutation; every entry is the copy of a member); _generate (applied by its contract: its
frame condition leaves _reactions / _metabolite alone) is called exactly once with (model, solution, fva) as given.  Summary.__init__ is
ASSUMED (three lines; zero-argument super() in an inherited __init__ is beyond the engine).

MUTANTS (the text replacement of tools/mutate_and_run.sh through a one-case wrapper with short budgets; each is NOT verified - the
obligation(s) that went unknown / sat, by clause name):
  model_summary.py
    M1  `negative = flux["factor"] < 0` -> `> 0`                                          minimum, maximum
    M2  `flux.loc[negative, "minimum"] = tmp` -> `= flux.loc[negative, "maximum"]`        minimum, range-as-stated
    M3  `flux["flux"] *= flux["factor"]` -> `pass`                                        flux, uptake:listed-iff, secretion:listed-iff
    M4  is_produced: `(flux["factor"] > 0)` -> `< 0`                                      uptake:listed-iff, exactly-one-side
    M5  data tuple `solution[rxn.id]` -> `solution[met.id]`                               flux, uptake / secretion:listed-iff
    M7  `fraction_of_optimum=fva` -> `=1.0`                                               post (call shape: False; sat)
    M8  the seeded one: the three swap lines -> `flux.loc[negative, ["minimum", "maximum"]] = flux.loc[negative, ["maximum", "minimum"]]`
        (a LABELLED right-hand side is aligned on the column labels: a no-op)             minimum, maximum, range-as-stated
    M8' the same with `.values` (positional: a real swap) VERIFIES, as it must
    M9  `tmp = flux.loc[negative, "maximum"]` -> `tmp = flux["maximum"]` (a possible view bound to a name at a write)
                                                                                          refused by the setitem hook (Unsupported)
    M10 `index=[r.id for r in self._boundary]` -> `[m.id for m in self._boundary_metabolites]`   label
    M13 `solution[rxn.id] * coef` -> `+ coef` (objective)                                 objective summand
  metabolite_summary.py
    T2  `consumption = self.consuming_flux["flux"].abs()` -> `self.producing_flux[...]`   refused by the interpreter (rows missing: NaN)
    T3  `r.get_coefficient(self._metabolite.id)` -> `(r.id)`                              factor, flux, producing / consuming:listed-iff, exactly-one-side
    T4  `reaction_list=[r.id for r in self._reactions]` -> `... self._reactions[1:]]`     FVA reaction list
    T5  `flux.loc[negative, "maximum"] = flux.loc[negative, "minimum"]` -> `= ...["maximum"]`    maximum, range-as-stated
    T6  `.mul(flux["factor"], axis=0)` -> `.mul(flux["flux"], axis=0)`                    minimum, maximum, range-as-stated
    T7  `is_produced = (flux["flux"] > 0)` -> `>= 0`                                      producing:listed-iff, exactly-one-side
    T9  a second `solution = pfba(model)`                                                 post (call shape: False; sat)
    T10 `self.consuming_flux = ....copy()` -> `= self.producing_flux` (two names, one frame)      refused by the setitem hook
    T8  (equivalent: `self._flux = flux` also BEFORE the percent columns are written - another frame) verifies, as it must
    I1  __init__: `r.copy() for r in sorted(...)` -> `r for r in sorted(...)`             members' copies (post.3, post.4)
    I2  __init__: `self._generate(model, solution, fva)` -> `(model, solution, None)`     pass-through of fva (case fva=float; equivalent for fva=None)
    I3  __init__: `self._reactions = self._reactions[1:]` before the call                 length / members
"""
import z3
import cobra  # noqa
from .common import *  # noqa
from pyvc import npalg as N
from pyvc import builtins as B
from pyvc.values import VSeq
from pyvc.apply import ASSUMED_USED
from . import c20_reaction_summary as RS

MM = "cobra/summary/model_summary.py"
MT = "cobra/summary/metabolite_summary.py"
for _m in (MM, MT, "cobra/summary/summary.py"):
    if _m not in REG.modules:
        REG.modules.append(_m)
REG.inline.add("Summary._generate")

I = z3.IntSort()
NUM = z3.Function("pd:num", N.NP, z3.RealSort())            # the float an opaque scalar holds
AT = z3.Function("pd:at", N.NP, N.NP, N.NP, z3.RealSort())  # frame.at[label, column] of an EXTERNAL frame (the fva frame)


def T(name, *ts):
    return N.term(name, *ts)


def copy_of(x):
    return T("call", T("attr.copy", x))


def id_of(x):
    return T("attr.id", x)


def only_met(x):
    """the single metabolite of a boundary reaction (iteration over a one-entry `metabolites` dict)"""
    return T("pd.only", T("attr.metabolites", x))


def coef(r, mid):
    return T("call", T("attr.get_coefficient", r), mid)


def lit(s):
    return N.of_id(id_lit(s))


ORIG = z3.Function("pd:original", N.NP, N.NP)


def copy_axioms():
    """ASSUMED (contract cobra.copy@summary): what Reaction.copy / Metabolite.copy keep"""
    x, m = z3.Const("cp_x", N.NP), z3.Const("cp_m", N.NP)
    ASSUMED_USED["cobra.copy@summary"] = REG.get("cobra.copy@summary").note
    return [z3.ForAll([x], z3.And(id_of(copy_of(x)) == id_of(x), ORIG(copy_of(x)) == x), patterns=[copy_of(x)]),
            z3.ForAll([x], id_of(only_met(copy_of(x))) == id_of(only_met(x)), patterns=[only_met(copy_of(x))]),
            z3.ForAll([x, m], coef(copy_of(x), m) == coef(x, m), patterns=[coef(copy_of(x), m)])]


REG.add(Contract("cobra", "copy", "C20", [("self", TNone())], [Case("any")], assumed=True, key="cobra.copy@summary",
                 note="Reaction.copy / Metabolite.copy keep the identifier and give different objects for different originals; the (single) metabolite of the copy of a boundary reaction has "
                      "the identifier of the original's; copy.get_coefficient(mid) == original.get_coefficient(mid)"))
REG.add(Contract("pandas", "rowwise", "C20", [("self", TNone())], [Case("any")], assumed=True, key="pandas.rowwise",
                 note="row-wise semantics of the pandas operations the summaries use, as interpreted by contracts/c20_frames.py `ev`: "
                      "DataFrame(data=<list of row tuples>, columns, index) has one row per tuple in list order, labelled index[i]; "
                      "frame[col] / frame[[cols]] / frame.loc[mask, cols] select by LABEL (boolean mask: the rows where it holds) and are "
                      "copies; `frame[col] = v`, `frame[[cols]] = v`, `frame.loc[mask, cols] = v` replace exactly those cells, aligning a "
                      "labelled right-hand side (Series / DataFrame) on row AND column labels and an unlabelled one (`.values`) by "
                      "position; a left `join` on unique labels keeps the rows and adds the other frame's columns looked up by label "
                      "(every label present there); abs / where / mul(axis=0) / + - * / < <= > >= == | & act cell by cell "
                      "(scalars broadcast); floats are reals (no NaN, no rounding); `x[col] op= y` is `x[col] = x[col] op y`"))


_ARITH = {"np:add/2": lambda a, b: a + b, "np:sub/2": lambda a, b: a - b, "np:mul/2": lambda a, b: a * b, "np:div/2": lambda a, b: a / b}


def num(t):
    """the real number an opaque SCALAR term stands for (floats are reals)"""
    if t.sort() == z3.RealSort():
        return t
    h = t.decl().name() if z3.is_app(t) else ""
    if h == "np:of_real":
        return t.arg(0)
    if h == "np:of_int":
        return z3.ToReal(t.arg(0))
    if z3.is_app(t) and t.decl().kind() == z3.Z3_OP_ITE:
        return z3.If(t.arg(0), num(t.arg(1)), num(t.arg(2)))
    if h in _ARITH:
        return _ARITH[h](num(t.arg(0)), num(t.arg(1)))
    if h == "np:neg/1":
        return -num(t.arg(0))
    return NUM(t)


# ================================================================ hooks
_ABSTRACT = ("pfba", "flux_variability_analysis", "linear_reaction_coefficients", "Reaction")


def global_hook(eng, name):
    if name in _ABSTRACT:
        return VFunc("abstract", name)
    if name in ("zip", "sum"):
        return VFunc("abstract", "py:" + name)
    return None


def _trace(st, key):
    return st.ghost.get(key, ())


def call_abstract(eng, st, f, pos, kw):
    if f.a in ("pfba", "flux_variability_analysis"):
        out = N.VNp(fresh("np:" + f.a, N.NP))
        return [("ok", st.setghost("ms_calls", _trace(st, "ms_calls") + ((f.a, tuple(pos), dict(kw), out, st),)), out)]
    if f.a == "linear_reaction_coefficients":
        if len(pos) != 1 or kw or _trace(st, "lrc_calls"):
            raise Unsupported("linear_reaction_coefficients: unexpected call shape")
        st, d = alloc_dict(st, "np", "real", base="lrc")
        return [("ok", st.setghost("lrc_calls", ((tuple(pos), d),)), d)]
    if f.a == "Reaction":
        # the placeholder of the minimal display (non-linear objective): an opaque object, the call recorded
        out = N.VNp(fresh("np:Reaction", N.NP))
        return [("ok", st.setghost("ms_calls", _trace(st, "ms_calls") + ((f.a, tuple(pos), dict(kw), out, st),)), out)]
    if f.a == "py:zip":
        if len(pos) != 2 or kw:
            raise Unsupported("zip of other than two sequences")
        a, b = B.to_seq(eng, st, pos[0]), B.to_seq(eng, st, pos[1])
        if a is None or b is None:
            raise Unsupported("zip of non-sequences")
        n = z3.If(a.n <= b.n, a.n, b.n)
        return [("ok", st, VSeq(n, lambda s, i: VTuple((a.get(s, i), b.get(s, i))), tag="zip"))]
    if f.a == "py:sum":
        from pyvc import comprehension as C
        if len(pos) == 1 and not kw and isinstance(pos[0], C.VGen) and isinstance(pos[0].elt, N.VNp) and pos[0].cond is None:
            # sum(<opaque float> for k, c in d.items()): the engine's uninterpreted finite sum SIGMA(dom, F) with the summand read as a
            # real (floats are reals: pandas.rowwise)
            g = pos[0]
            key_term, dom = B._enumeration_of(st, g)
            if key_term is None:
                raise Unsupported("sum() over something else than the enumeration of a dict / set")
            k = z3.Const(fresh_name("sk"), key_term.sort())
            body = z3.substitute(num(g.elt.t), (key_term, k))
            if B._mentions(body, g.idx):
                raise Unsupported("sum(): the summand depends on the position in the enumeration")
            F = fresh("summand", z3.ArraySort(key_term.sort(), z3.RealSort()))
            st = st.assume(FA([k], z3.Select(F, k) == body, patterns=[z3.Select(F, k)]))
            st = st.setghost(("sigma", F.decl().name()), (dom, F))
            ASSUMED_USED["pandas.rowwise"] = REG.get("pandas.rowwise").note
            return [("ok", st, VReal(0, B.sigma(key_term.sort())(dom, F)))]
        return B.BUILTINS["sum"](eng, st, pos, kw)
    if f.a == "pandas.DataFrame":
        if pos or set(kw) != {"data", "columns", "index"}:
            raise Unsupported("pd.DataFrame: unexpected call shape")
        res = N.VNp(fresh("np:DataFrame", N.NP))
        rec = {"data": kw["data"], "columns": kw["columns"], "index": kw["index"], "state": st, "res": res}
        return [("ok", st.setghost("df_calls", _trace(st, "df_calls") + (rec,)), res)]
    return None


def getattr_hook(eng, st, v, name):
    if isinstance(v, VConc) and isinstance(v.py, tuple) and v.py[0] == "module" and v.py[1] == "pandas" and name == "DataFrame":
        return [("ok", st, VFunc("abstract", "pandas.DataFrame"))]
    return None


def iter_hook(eng, st, v):
    """`for met in rxn.metabolites` for a boundary reaction: ONE element (stated precondition: every boundary reaction has exactly
    one metabolite - the definition of Reaction.boundary)"""
    if isinstance(v, N.VNp) and z3.is_app(v.t) and v.t.decl().name() == "np:attr.metabolites/1":
        x = v.t.arg(0)
        return [("ok", st, VSeq(z3.IntVal(1), lambda s, i: N.VNp(only_met(x)), known_len=1, tag="only"))]
    return None


def getitem_hook(eng, st, obj, idx):
    # frame.loc[mask, [cols]]: a python list inside the index tuple
    if isinstance(obj, N.VNp) and isinstance(idx, VTuple):
        tup = N.app("tuple", *[N._prep(eng, st, x) for x in idx.items])
        return [("ok", st, N.app("getitem", obj, tup))]
    return None


# ---------------------------------------------------------------- in-place frame updates as functional updates of the ONE name
def _head(t):
    return t.decl().name() if z3.is_app(t) else ""


_OWNED_HEADS = ("np:pd.set/3", "np:pd.loc_set/4")


def _owned(t):
    """the frame object was CREATED in the function under verification (a DataFrame(...) call, a join, a copy, or an update of one):
    no caller holds a reference to it"""
    h = _head(t)
    if z3.is_const(t):
        return h.startswith("np:DataFrame")
    if h in _OWNED_HEADS:
        return _owned(t.arg(0))
    if h.startswith("np:call/") and _head(t.arg(0)) in ("np:attr.join/1", "np:attr.copy/1"):
        return True
    return False


def _bindings(st, t):
    """every place of the symbolic state that holds an opaque value: locals of every frame, attributes of materialised objects,
    items of concrete lists, and the components of tuples there (a frame inside a tuple can only be refused: kind "tuple").
    NOT scanned: symbolic-length lists of kind np (neither function puts a frame into a list)"""
    out = []

    def visit(where, v):
        if isinstance(v, N.VNp):
            out.append((where, v.t))
        elif isinstance(v, VTuple):
            for x in v.items:
                visit(("tuple",) + where[1:], x)
    for fid, (parent, vars_) in st.frames.items():
        for k, v in vars_.items():
            visit(("var", fid, k), v)
    for oid, rec in st.objs.items():
        for k, v in rec.items():
            if isinstance(k, str) and k.startswith("attr:"):
                visit(("attr", oid, k), v)
        for x in rec.get("items") or ():
            visit(("tuple", oid, "items"), x)
    return out


def _may_view(t, F):
    """a value that may share memory with the frame F: a single column, or an attribute (.values, .T, .loc) of it"""
    h = _head(t)
    if h == "np:getitem/2" and t.arg(0).eq(F) and _head(t.arg(1)) == "np:of_id":
        return True
    if h.startswith("np:attr.") and t.arg(0).eq(F):
        return True
    if h == "np:getitem/2" and _head(t.arg(0)) in ("np:attr.loc/1", "np:attr.iloc/1") and t.arg(0).arg(0).eq(F):
        # .loc[rows, cols] is a COPY when rows is a boolean mask (a comparison / its | & ~ combinations); a slice may be a view
        k = t.arg(1)
        rows = k.arg(0) if _head(k).startswith("np:tuple/") else k
        return _head(rows) not in tuple(_CMPS) + tuple(_BOOLS) + ("np:invert/1",)
    return False


def setitem_hook(eng, st, obj, idx, val):
    if not isinstance(obj, N.VNp):
        return None
    via_loc = _head(obj.t) == "np:attr.loc/1"
    F = obj.t.arg(0) if via_loc else obj.t
    if not _owned(F):
        raise Unsupported("in-place write into a frame that was not created in this function (a caller may hold it)")
    names = _bindings(st, F)
    holders = [n for n, t in names if t.eq(F)]
    if len(holders) != 1 or holders[0][0] == "tuple":
        raise Unsupported(f"in-place write into a frame bound to {len(holders)} names: the functional update is not sound")
    if any(_may_view(t, F) for n, t in names):
        raise Unsupported("in-place write into a frame while a possible VIEW of it (single column / attribute) is bound to a name")
    v = N._prep(eng, st, val)
    if via_loc:
        if not (isinstance(idx, VTuple) and len(idx.items) == 2):
            raise Unsupported(".loc assignment without (rows, columns)")
        new = N.app("pd.loc_set", N.VNp(F), N._prep(eng, st, idx.items[0]), N._prep(eng, st, idx.items[1]), v)
    else:
        new = N.app("pd.set", N.VNp(F), N._prep(eng, st, idx), v)
    ASSUMED_USED["pandas.rowwise"] = REG.get("pandas.rowwise").note
    kind, where, name = holders[0]
    if kind == "var":
        st = st.setvar(where, name, new)
    else:
        st = st.updobj(where, **{name: new})
    return [("ok", st, NONE)]


NAN = z3.Const("np:nan", N.NP)


def float_nan_hook(eng, st):
    return [("ok", st, N.VNp(NAN))]


HOOKS = chain_hooks({"float_nan": float_nan_hook, "global": global_hook, "call_abstract": call_abstract, "getattr": getattr_hook, "iter": iter_hook,
                     "getitem": getitem_hook, "setitem": setitem_hook, "isinstance": RS.isinstance_hook}, N.HOOKS)


# ================================================================ the ASSUMED row-wise meaning of the frame terms (contract pandas.rowwise)
class Sc:
    """a scalar (broadcast over rows)"""
    def __init__(self, e):
        self.e = e


class Se:
    """a labelled Series at the arbitrary row: its value there, and whether the row is present in it"""
    def __init__(self, e, present):
        self.e, self.present = e, present


class Fr:
    """a labelled DataFrame at the arbitrary row: ordered columns (name, cell), presence of the row, the row's label, and - after a
    left join - the EXTERNAL frame whose further columns are looked up by label (AT)"""
    def __init__(self, cols, present, label, extra=None):
        self.cols, self.present, self.label, self.extra = list(cols), present, label, extra

    def names(self):
        return [n for n, _ in self.cols]

    def col(self, name):
        for n, e in self.cols:
            if n == name:
                return e
        if self.extra is not None:
            return AT(self.extra, self.label, lit(name))
        raise Unsupported(f"column {name!r} is not in the frame (KeyError / NaN)")

    def with_col(self, name, e):
        if name in self.names():
            cols = [(n, e if n == name else x) for n, x in self.cols]
        else:
            cols = self.cols + [(name, e)]
        return Fr(cols, self.present, self.label, self.extra)

    def sub(self, names, present=None):
        return Fr([(n, self.col(n)) for n in names], self.present if present is None else present, self.label)


class Ar:
    """UNLABELLED values (`.values`): positional"""
    def __init__(self, es, present):
        self.es, self.present = list(es), present


def R(e):
    return num(e) if e.sort() == N.NP else e


def _abs(x):
    x = R(x)
    return z3.If(x >= 0, x, -x)


def colname(t):
    if _head(t) == "np:of_id":
        x = z3.simplify(t.arg(0))
        if z3.is_const(x) and x.decl().name().startswith("lit_"):
            return x.decl().name()[4:]
    raise Unsupported(f"column key that is not a literal name: {t}")


def colkey(t):
    """-> (single?, [names])"""
    if _head(t).startswith("np:list/"):
        return False, [colname(a) for a in t.children()]
    return True, [colname(t)]


_CMPS = {"np:lt/2": lambda a, b: a < b, "np:le/2": lambda a, b: a <= b, "np:gt/2": lambda a, b: a > b, "np:ge/2": lambda a, b: a >= b,
         "np:eq/2": lambda a, b: a == b, "np:ne/2": lambda a, b: a != b}
_BOOLS = {"np:or/2": z3.Or, "np:and/2": z3.And}
_TRUE = z3.BoolVal(True)


def _implied(a, b):
    """presence b follows from presence a (syntactic / by simplification; refuses otherwise: NaN would be introduced)"""
    def conj(x):
        if z3.is_and(x):
            return [c for y in x.children() for c in conj(y)]
        return [] if z3.is_true(x) else [x]
    have = conj(a)
    return all(any(c.eq(h) for h in have) for c in conj(b))


class Rows:
    """interpretation of frame terms at ONE arbitrary row i of the frames built in the state `st`"""
    def __init__(self, st, i):
        self.st, self.i, self.memo = st, i, {}
        ASSUMED_USED["pandas.rowwise"] = REG.get("pandas.rowwise").note

    def ev(self, t):
        k = t.get_id()
        if k not in self.memo:
            self.memo[k] = self._ev(t)
        return self.memo[k]

    def frame(self, t):
        v = self.ev(t)
        if not isinstance(v, Fr):
            raise Unsupported(f"not a frame: {_head(t)}")
        return v

    def _dataframe(self, t):
        recs = [r for r in _trace(self.st, "df_calls") if r["res"].t.eq(t)]
        if len(recs) != 1:
            raise Unsupported("unknown DataFrame constant")
        r = recs[0]
        s = r["state"]
        data, cols, idx = r["data"], r["columns"], r["index"]
        if not (isinstance(data, VObj) and data.kind == "tlist" and isinstance(idx, VObj) and idx.kind == "list"):
            raise Unsupported("DataFrame(data=, index=) of other than a list of row tuples and a list of labels")
        cs = B.to_seq(None, s, cols)
        names = [colname(N.lift(cs.get(s, z3.IntVal(c)))) for c in range(cs.known_len)]
        drec = s.objs[data.oid]
        if len(names) != len(drec["cols"]):
            raise Unsupported("DataFrame: number of columns differs from the width of the rows")
        cells = [(nm, z3.Select(c, self.i)) for nm, c in zip(names, drec["cols"])]
        irec = s.objs[idx.oid]
        label = z3.Select(irec["elem"], self.i)
        f = Fr(cells, _TRUE, label if label.sort() == N.NP else N.of_id(label))
        f.nrows, f.nlabels = drec["len"], irec["len"]
        return f

    def _binary(self, fn, a, b, conv):
        def one(x, y):
            return fn(conv(x), conv(y))
        if isinstance(a, Sc) and isinstance(b, Sc):
            return Sc(one(a.e, b.e))
        if isinstance(a, Se) and isinstance(b, (Se, Sc)):
            if isinstance(b, Se) and not b.present.eq(a.present):
                raise Unsupported("binary operation on series over different rows")
            return Se(one(a.e, b.e), a.present)
        if isinstance(a, Sc) and isinstance(b, Se):
            return Se(one(a.e, b.e), b.present)
        if isinstance(a, Fr) and isinstance(b, Sc):
            return Fr([(n, one(x, b.e)) for n, x in a.cols], a.present, a.label)
        raise Unsupported(f"binary operation on {type(a).__name__} and {type(b).__name__}")

    def _assign(self, F, mask, key, V):
        single, names = colkey(key)
        rows = F.present if mask is None else z3.And(F.present, mask)

        def put(f, name, e):
            old = f.col(name) if name in f.names() or f.extra is not None else None
            if mask is None:
                return f.with_col(name, e)
            if old is None:
                raise Unsupported("masked assignment into a column that does not exist")
            if old.sort() != e.sort():
                old, e = R(old), R(e)
            return f.with_col(name, z3.If(mask, e, old))
        if isinstance(V, Sc):
            for nm in names:
                F = put(F, nm, V.e)
            return F
        if isinstance(V, Se):
            if not single:
                raise Unsupported("series assigned to several columns")
            if not _implied(rows, V.present):
                raise Unsupported("assignment of a series that lacks some of the target rows (NaN)")
            return put(F, names[0], V.e)
        if isinstance(V, Fr):
            if single:
                raise Unsupported("frame assigned to one column")
            if not _implied(rows, V.present):
                raise Unsupported("assignment of a frame that lacks some of the target rows (NaN)")
            vals = [V.col(nm) for nm in names]           # a LABELLED right-hand side is aligned on the column labels
            for nm, e in zip(names, vals):
                F = put(F, nm, e)
            return F
        if isinstance(V, Ar):
            if len(V.es) != len(names) or not _implied(rows, V.present):
                raise Unsupported("positional assignment of another shape")
            for nm, e in zip(names, V.es):               # an UNLABELLED right-hand side goes by position
                F = put(F, nm, e)
            return F
        raise Unsupported("assignment of an unknown kind of value")

    def _mask(self, t, F):
        if _head(t) == "np:slice/3":
            return None
        m = self.ev(t)
        if not (isinstance(m, Se) and m.e.sort() == z3.BoolSort() and m.present.eq(F.present)):
            raise Unsupported("row selector that is not a boolean mask over the rows of the frame")
        return m.e

    def _ev(self, t):
        h = _head(t)
        if z3.is_const(t) and h.startswith("np:DataFrame"):
            return self._dataframe(t)
        if h == "np:pd.set/3":
            return self._assign(self.frame(t.arg(0)), None, t.arg(1), self.ev(t.arg(2)))
        if h == "np:pd.loc_set/4":
            F = self.frame(t.arg(0))
            return self._assign(F, self._mask(t.arg(1), F), t.arg(2), self.ev(t.arg(3)))
        if h == "np:getitem/2":
            X, k = t.arg(0), t.arg(1)
            if _head(X) == "np:attr.loc/1":
                F = self.frame(X.arg(0))
                if _head(k) != "np:tuple/2":
                    raise Unsupported(".loc[...] without (rows, columns)")
                m = self._mask(k.arg(0), F)
                pres = F.present if m is None else z3.And(F.present, m)
                single, names = colkey(k.arg(1))
                return Se(F.col(names[0]), pres) if single else F.sub(names, pres)
            if _head(k) in ("np:of_id",) or _head(k).startswith("np:list/"):
                try:
                    single, names = colkey(k)
                except Unsupported:
                    return Sc(t)
                Xv = self.ev(X)
                if isinstance(Xv, Fr):
                    return Se(Xv.col(names[0]), Xv.present) if single else Xv.sub(names)
            return Sc(t)
        if h == "np:attr.values/1":
            X = self.ev(t.arg(0))
            if isinstance(X, Fr):
                return Ar([e for _, e in X.cols], X.present)
            if isinstance(X, Se):
                return Ar([X.e], X.present)
            raise Unsupported(".values of a scalar")
        if h.startswith("np:call/") and _head(t.arg(0)).startswith("np:attr."):
            meth, recv, args = _head(t.arg(0))[8:-2], t.arg(0).arg(0), t.children()[1:]
            if meth == "copy" and not args:
                X = self.ev(recv)
                if isinstance(X, (Fr, Se)):
                    return X
                return Sc(t)
            if meth == "abs" and not args:
                X = self.ev(recv)
                if isinstance(X, Se):
                    return Se(_abs(X.e), X.present)
                if isinstance(X, Fr):
                    return Fr([(n, _abs(e)) for n, e in X.cols], X.present, X.label)
                raise Unsupported("abs of a scalar")
            if meth == "where" and len(args) == 2:
                X, C, O = self.frame(recv), self.ev(args[0]), self.ev(args[1])
                if not (isinstance(C, Fr) and C.names() == X.names() and C.present.eq(X.present) and isinstance(O, Sc)):
                    raise Unsupported("where(cond, other) of another shape")
                return Fr([(n, z3.If(C.col(n), R(e), R(O.e))) for n, e in X.cols], X.present, X.label)
            if meth == "join" and len(args) == 1:
                X = self.frame(recv)
                if X.extra is not None:
                    raise Unsupported("second join")
                return Fr(X.cols, X.present, X.label, extra=args[0])
            if meth == "sum" and not args:
                return Sc(NUM(t))                            # an OPAQUE total: nothing is known about it but what it is the sum of
            return Sc(t)
        if h == "np:call_axis_/3" and _head(t.arg(0)) == "np:attr.mul/1":
            X, S = self.frame(t.arg(0).arg(0)), self.ev(t.arg(1))
            if not (isinstance(S, Se) and S.present.eq(X.present) and t.arg(2).eq(N.of_int(z3.IntVal(0)))):
                raise Unsupported("frame.mul(series, axis=) of another shape")
            return Fr([(n, R(e) * R(S.e)) for n, e in X.cols], X.present, X.label)
        if h in _ARITH:
            return self._binary(_ARITH[h], self.ev(t.arg(0)), self.ev(t.arg(1)), R)
        if h in _CMPS:
            return self._binary(_CMPS[h], self.ev(t.arg(0)), self.ev(t.arg(1)), R)
        if h in _BOOLS:
            return self._binary(_BOOLS[h], self.ev(t.arg(0)), self.ev(t.arg(1)), lambda x: x)
        return Sc(t)


# ================================================================ ModelSummary._generate
_MS_ATTRS = ("_objective", "_objective_value", "_boundary", "_boundary_metabolites", "uptake_flux", "secretion_flux", "_flux", "_tolerance")


def _ms_self():
    return TObj("ModelSummary", {a: TNone() for a in _MS_ATTRS})


def _model_t():
    return TObj("Model", {"tolerance": TReal(), "boundary": TList("np")})


ROW_J = z3.Int("summary_j")          # an arbitrary position in model.boundary / self._reactions
KEY_X = z3.Const("summary_x", N.NP)  # an arbitrary reaction (objective coefficients)


def _rnd(x, tol):
    """`view.where(view.abs() >= tolerance, 0)` / `loc[abs < tolerance] = 0` on a real"""
    return z3.If(_abs(x) >= tol, x, z3.RealVal(0))


def _solution_and_ranges(E, calls, want_reactions):
    """which solution / which FVA ranges the code must have used -> (python-level shape ok, solution term, ranges term or None)"""
    sol_given = not isinstance(E["solution"], VNone)
    fva = E["fva"]
    want = (0 if sol_given else 1) + (1 if isinstance(fva, VReal) else 0)
    if len(calls) != want:
        return False, None, None
    ok, k = True, 0
    if sol_given:
        sol = E["solution"].t
    else:
        name, pos, kw, out, _ = calls[0]
        ok = ok and name == "pfba" and len(pos) == 1 and pos[0] is E["model"] and not kw
        sol, k = out.t, 1
    if isinstance(fva, VNone):
        return ok, sol, None
    if isinstance(fva, VReal):
        name, pos, kw, out, st_call = calls[k]
        ok = ok and (name == "flux_variability_analysis" and not pos and set(kw) == {"model", "reaction_list", "fraction_of_optimum"}
                     and kw["model"] is E["model"] and kw["fraction_of_optimum"] is fva
                     and bool(want_reactions(kw["reaction_list"], st_call)))
        return ok, sol, out.t
    return ok, sol, fva.t


def _the_perm(st):
    ps = [v for k, v in st.ghost.items() if isinstance(k, tuple) and len(k) == 2 and k[0] == "perm"]
    return ps[0] if len(ps) == 1 else None


def _row_clauses(rows, flux_t, side_ts, side_names, r_id, fac, raw, tol, ranges):
    """the clauses about ONE row of the flux table `flux_t` and of the two sides: shared by the model and the metabolite summary"""
    F = rows.frame(flux_t)
    cs = []
    with_fva = ranges is not None
    if with_fva:
        flux = _rnd(raw, tol) + 0
        lo, hi = _rnd(AT(ranges, r_id, lit("minimum")), tol) * fac, _rnd(AT(ranges, r_id, lit("maximum")), tol) * fac
        mn, mx = z3.If(fac < 0, hi, lo) + 0, z3.If(fac < 0, lo, hi) + 0          # a negative factor swaps the ends of the range
    else:
        flux = z3.If(_abs(raw) < tol, z3.RealVal(0), raw) + 0
    cs.append(("label", F.label == r_id))
    cs.append(("present", F.present))
    cs.append(("reaction", F.col("reaction") == r_id))
    cs.append(("factor", R(F.col("factor")) == fac))
    cs.append(("flux", R(F.col("flux")) == flux))
    if with_fva:
        # exactly what is computed: the zero threshold is applied to the FVA range BEFORE it is scaled (FINDING 1 in the docstring)
        cs.append(("minimum", R(F.col("minimum")) == mn))
        cs.append(("maximum", R(F.col("maximum")) == mx))
        # the STATEMENT ("the FVA ranges scaled the same way" as the flux, i.e. scaled, then thresholded), provable only when the
        # threshold cuts the same values before and after scaling (always so for |factor| = 1, the usual boundary reaction)
        a, b = AT(ranges, r_id, lit("minimum")), AT(ranges, r_id, lit("maximum"))
        same = z3.And((_abs(a) >= tol) == (_abs(a * fac) >= tol), (_abs(b) >= tol) == (_abs(b * fac) >= tol))
        slo, shi = _rnd(a * fac, tol), _rnd(b * fac, tol)
        cs.append(("range-as-stated", z3.Implies(same, z3.And(R(F.col("minimum")) == z3.If(fac < 0, shi, slo),
                                                                R(F.col("maximum")) == z3.If(fac < 0, slo, shi)))))
        cs.append(("range-as-stated-unit-factor", z3.Implies(_abs(fac) == 1, same)))
    want_side = [z3.Or(flux > 0, z3.And(flux == 0, fac > 0)), z3.Or(flux < 0, z3.And(flux == 0, fac < 0))]
    sides = []
    for t, nm, want in zip(side_ts, side_names, want_side):
        S = rows.frame(t)
        sides.append(S)
        cs.append((nm + ":listed-iff", S.present == want))
        for c in ["flux", "reaction"] + (["minimum", "maximum"] if with_fva else []):
            a, b = S.col(c), F.col(c)
            cs.append((f"{nm}:{c}", (R(a) == R(b)) if c != "reaction" else (a == b)))
    cs.append(("exactly-one-side", z3.Implies(fac != 0, z3.Xor(sides[0].present, sides[1].present))))
    return F, sides, cs


def _ms_post(E):
    if E.role != "goal":
        return z3.BoolVal(True)
    s0, s1 = E.s0, E.s1
    me = s1.objs[E["self"].oid]
    model = s0.objs[E["model"].oid]
    mb = model["attr:boundary"]
    n, mbe = s0.objs[mb.oid]["len"], s0.objs[mb.oid]["elem"]
    tol = model["attr:tolerance"].v
    calls = [c for c in _trace(s1, "ms_calls") if c[0] != "Reaction"]
    ok, sol, ranges = _solution_and_ranges(E, calls, lambda rl, st: rl is mb)
    pm = _the_perm(s1)
    flux_v, up_v, sec_v = me.get("attr:_flux"), me.get("attr:uptake_flux"), me.get("attr:secretion_flux")
    if not ok or pm is None or not all(isinstance(v, N.VNp) for v in (flux_v, up_v, sec_v)):
        return z3.BoolVal(False)
    perm, inv = pm
    j = ROW_J
    i = z3.Select(inv, j)                                   # the row of the j-th boundary reaction (rows are sorted by identifier)
    r = z3.Select(mbe, j)
    r_id, m_id = id_of(r), id_of(only_met(r))
    fac = NUM(coef(r, m_id))
    raw = NUM(T("getitem", sol, r_id)) * fac
    rows = Rows(s1, i)
    F, sides, cs = _row_clauses(rows, flux_v.t, (up_v.t, sec_v.t), ("uptake", "secretion"), r_id, fac, raw, tol, ranges)
    base = rows.frame([x for x in _trace(s1, "df_calls")][0]["res"].t)
    out = [z3.And(0 <= i, i < n, z3.Select(perm, i) == j),                               # the row exists ...
           z3.And(base.nrows == n, base.nlabels == n)]                                   # ... and there are no other rows
    out += [c for _, c in cs]
    out.append(F.col("metabolite") == m_id)
    for S in sides:
        out.append(S.col("metabolite") == F.col("metabolite"))
        want = ["flux"] + (["minimum", "maximum"] if ranges is not None else []) + ["reaction", "metabolite"]
        out.append(z3.BoolVal(S.names() == want))
    # the tolerance of the summary is the model's; the objective
    out.append(z3.BoolVal(me.get("attr:_tolerance") is model["attr:tolerance"]))
    out += _objective_clauses(E, sol)
    return z3.And(*[z3.Implies(z3.And(0 <= j, j < n), c) for c in out])


def _objective_clauses(E, sol):
    s1 = E.s1
    me = s1.objs[E["self"].oid]
    lrc = _trace(s1, "lrc_calls")
    if len(lrc) != 1 or lrc[0][0] != (E["model"],):
        return [z3.BoolVal(False)]
    d = s1.objs[lrc[0][1].oid]
    ov, ob = me.get("attr:_objective_value"), me.get("attr:_objective")
    x = KEY_X
    if isinstance(ov, VReal):
        # linear objective: {copy of r: c_r} and the value SIGMA over these copies of solution[copy.id] * c
        sig = [v for k, v in s1.ghost.items() if isinstance(k, tuple) and k[0] == "sigma"]
        if len(sig) != 1 or not (isinstance(ob, VObj) and ob.kind == "dict"):
            return [z3.BoolVal(False)]
        dom, Fn = sig[0]
        orec = s1.objs[ob.oid]
        return [z3.Implies(z3.Select(d["dom"], x), z3.And(z3.Select(orec["dom"], copy_of(x)),
                                                           z3.Select(orec["val"], copy_of(x)) == z3.Select(d["val"], x))),
                dom == orec["dom"], ov.k == 0, ov.v == B.sigma(N.NP)(orec["dom"], Fn),
                z3.Select(Fn, x) == NUM(T("getitem", sol, id_of(x))) * z3.Select(orec["val"], x)]
    # non-linear / non-reaction objective (no coefficients): the documented minimal display
    return [z3.Not(z3.Select(d["dom"], x)), z3.BoolVal(isinstance(ov, N.VNp) and ov.t.eq(NAN))]


def _cases(post):
    out = []
    for sol in (False, True):
        for fv in ("none", "float", "frame"):
            c = Case(f"solution={'given' if sol else 'none'}:fva={fv}", ensures=post)
            c.params_override = {"solution": N.TNp() if sol else TNone(),
                                 "fva": {"none": TNone(), "float": TReal(), "frame": N.TNp()}[fv]}
            out.append(c)
    return out


REG.add(Contract(MM, "ModelSummary._generate", "C20",
                 [("self", _ms_self()), ("model", _model_t()), ("solution", TNone()), ("fva", TNone())],
                 _cases(_ms_post), key="ModelSummary._generate", axioms=lambda E: copy_axioms(),
                 note="precondition: finite model.tolerance; every element of model.boundary has exactly ONE metabolite (the definition "
                      "of Reaction.boundary: the iteration `for met in rxn.metabolites` yields one element); in-place frame updates as "
                      "functional updates of the one name holding the frame (checked at every write); row-wise pandas semantics and "
                      "the copy contract assumed (pandas.rowwise, cobra.copy@summary)",
                 pre=lambda E: E.s0.objs[E["model"].oid]["attr:tolerance"].k == 0,
                 modifies=lambda E: [("obj", E["self"]), ("ghost", "ms_calls", lambda st: ()), ("ghost", "df_calls", lambda st: ()),
                                     ("ghost", "lrc_calls", lambda st: ())]))


# ================================================================ MetaboliteSummary._generate
_MT_ATTRS = ("producing_flux", "consuming_flux", "_flux", "_tolerance")


def _fresh_real(st):
    v, dom = xr_fresh("tolerance")
    return st.assume(dom), v


def _mt_self():
    attrs = {a: TNone() for a in _MT_ATTRS}
    attrs.update({"_metabolite": N.TNp(), "_reactions": TList("np")})
    return TObj("MetaboliteSummary", attrs)


def _mt_post(E):
    if E.role != "goal":
        return z3.BoolVal(True)            # at a call site (MetaboliteSummary.__init__) only the frame condition is used
    s0, s1 = E.s0, E.s1
    me0, me = s0.objs[E["self"].oid], s1.objs[E["self"].oid]
    model = s0.objs[E["model"].oid]
    rl = me0["attr:_reactions"]
    n, re_ = s0.objs[rl.oid]["len"], s0.objs[rl.oid]["elem"]
    tol = model["attr:tolerance"].v
    j = ROW_J
    box = {}

    def want_reactions(lst, st):
        # reaction_list=[r.id for r in self._reactions]: a list; WHAT it holds is a clause below
        box["rl"] = (lst, st)
        return isinstance(lst, VObj) and lst.kind == "list"
    ok, sol, ranges = _solution_and_ranges(E, list(_trace(s1, "ms_calls")), want_reactions)
    flux_v, pro_v, con_v = me.get("attr:_flux"), me.get("attr:producing_flux"), me.get("attr:consuming_flux")
    if not ok or not all(isinstance(v, N.VNp) for v in (flux_v, pro_v, con_v)) or me.get("attr:_reactions") is not rl:
        return z3.BoolVal(False)
    r = z3.Select(re_, j)
    r_id = id_of(r)
    fac = NUM(coef(r, id_of(me0["attr:_metabolite"].t)))
    raw = NUM(T("getitem", sol, r_id)) * fac
    rows = Rows(s1, j)
    # each side is `<selection>.copy()` with the column `percent` set afterwards
    parts = []
    for v in (pro_v, con_v):
        if not (_head(v.t) == "np:pd.set/3" and colkey(v.t.arg(1)) == (True, ["percent"])):
            return z3.BoolVal(False)
        parts.append(v.t.arg(0))
    F, sides, cs = _row_clauses(rows, flux_v.t, (pro_v.t, con_v.t), ("producing", "consuming"), r_id, fac, raw, tol, ranges)
    base = rows.frame([x for x in _trace(s1, "df_calls")][0]["res"].t)
    out = [z3.And(base.nrows == n, base.nlabels == n)]                # one row per element of self._reactions, in that order
    out += [c for _, c in cs]
    flux = R(F.col("flux"))
    for S, P in zip(sides, parts):
        Pf = rows.frame(P)
        total = NUM(T("call", T("attr.sum", T("call", T("attr.abs", T("getitem", P, lit("flux")))))))     # the OPAQUE sum of |flux| of this side
        out.append(z3.And(Pf.present == S.present, R(Pf.col("flux")) == flux))                              # ... whose rows are this side's
        out.append(R(S.col("percent")) == _abs(flux) / total)
        want = ["flux"] + (["minimum", "maximum"] if ranges is not None else []) + ["reaction", "percent"]
        out.append(z3.BoolVal(S.names() == want))
    if "rl" in box:
        lst, st = box["rl"]
        lrec = st.objs[lst.oid]
        out.append(z3.And(lrec["len"] == n, z3.Select(lrec["elem"], j) == r_id))                            # FVA is asked for exactly these reactions
    out.append(z3.BoolVal(me.get("attr:_tolerance") is model["attr:tolerance"]))
    return z3.And(*[z3.Implies(z3.And(0 <= j, j < n), c) for c in out])


REG.add(Contract(MT, "MetaboliteSummary._generate", "C20",
                 [("self", _mt_self()), ("model", _model_t()), ("solution", TNone()), ("fva", TNone())],
                 _cases(_mt_post), key="MetaboliteSummary._generate", axioms=lambda E: copy_axioms(),
                 note="precondition: finite model.tolerance; in-place frame updates as functional updates of the one name holding the "
                      "frame (checked at every write); row-wise pandas semantics and the copy contract assumed (pandas.rowwise, "
                      "cobra.copy@summary)",
                 pre=lambda E: E.s0.objs[E["model"].oid]["attr:tolerance"].k == 0,
                 modifies=lambda E: [("attr", E["self"], a, lambda st: (st, N.VNp(fresh("np:summary_frame", N.NP))))
                                     for a in ("producing_flux", "consuming_flux", "_flux")]
                 + [("attr", E["self"], "_tolerance", _fresh_real),
                    ("ghost", "ms_calls", lambda st: ()), ("ghost", "df_calls", lambda st: ())]))


# ================================================================ MetaboliteSummary.__init__: the list of reactions the table is built from
def _si_post(E):
    me = E.s1.objs[E["self"].oid]
    return z3.BoolVal(isinstance(me.get("attr:_flux"), VNone) and isinstance(me.get("attr:_tolerance"), VNone))


REG.add(Contract("cobra/summary/summary.py", "Summary.__init__", "C20", [("self", TObj("Summary", {}))], [Case("any", ensures=_si_post)],
                 key="Summary.__init__", assumed=True,
                 modifies=lambda E: [("attr", E["self"], "_flux", lambda st: (st, NONE)), ("attr", E["self"], "_tolerance", lambda st: (st, NONE))],
                 note="Summary.__init__(**kwargs) = object.__init__ and `self._flux = None; self._tolerance = None` (three lines; ASSUMED only "
                      "because a zero-argument super() inside an inherited __init__ is resolved relative to the class under verification "
                      "by the engine, and contract call sites do not bind **kwargs); called with no further keyword arguments"))


def _met_t():
    return TObj("Metabolite", {"reactions": TSet("np"), "np": N.TNp()})


def init_call_method(eng, st, recv, name, pos, kw):
    if isinstance(recv, VObj) and recv.cls == "Metabolite" and name == "copy" and not pos and not kw:
        return [("ok", st, N.VNp(copy_of(st.objs[recv.oid]["attr:np"].t)))]
    if isinstance(recv, VObj) and recv.cls == "MetaboliteSummary" and name == "_generate":
        # the contract proved above, applied; the call is recorded
        outs = []
        for k, s, v in eng.apply_contract(st, REG.get("MetaboliteSummary._generate"), [recv] + list(pos), kw):
            if k == "ok":
                s = s.setghost("gen_calls", _trace(s, "gen_calls") + ((tuple(pos), dict(kw)),))
            outs.append((k, s, v))
        return outs
    return None


HOOKS_INIT = chain_hooks({"call_method": init_call_method}, HOOKS)


def _mi_post(E):
    s0, s1 = E.s0, E.s1
    me = s1.objs[E["self"].oid]
    met = s0.objs[E["metabolite"].oid]
    rs = s0.objs[met["attr:reactions"].oid]
    lst, mcopy = me.get("attr:_reactions"), me.get("attr:_metabolite")
    gen = _trace(s1, "gen_calls")
    if not (isinstance(lst, VObj) and lst.kind == "list" and isinstance(mcopy, N.VNp) and len(gen) == 1):
        return z3.BoolVal(False)
    order = [v for k, v in s1.ghost.items() if isinstance(k, tuple) and k[0] == "order" and k[1] == met["attr:reactions"].oid]
    pm = _the_perm(s1)
    if len(order) != 1 or pm is None:
        return z3.BoolVal(False)
    enum, pos_of, card = order[0]
    perm, inv = pm
    lrec = s1.objs[lst.oid]
    x = KEY_X
    p = z3.Select(inv, z3.Select(pos_of, x))          # where the copy of member x of metabolite.reactions stands in self._reactions
    j = ROW_J
    pos, kw = gen[0]
    return z3.And(
        mcopy.t == copy_of(met["attr:np"].t),
        lrec["len"] == card,                                                                     # as many entries as members ...
        z3.Implies(z3.Select(rs["dom"], x), z3.And(0 <= p, p < card, z3.Select(lrec["elem"], p) == copy_of(x))),   # ... every member's copy is there ...
        z3.Implies(z3.And(0 <= j, j < card),                                                     # ... and every entry is the copy of a member
                   z3.And(z3.Select(rs["dom"], z3.Select(enum, z3.Select(perm, j))),
                          z3.Select(lrec["elem"], j) == copy_of(z3.Select(enum, z3.Select(perm, j))))),
        z3.BoolVal(len(pos) == 3 and not kw and pos[0] is E["model"] and pos[1] is E["solution"] and pos[2] is E["fva"]))


def _mi_cases():
    out = _cases(_mi_post)
    return out


REG.add(Contract(MT, "MetaboliteSummary.__init__", "C20",
                 [("self", TObj("MetaboliteSummary", {})), ("metabolite", _met_t()), ("model", _model_t()), ("solution", TNone()),
                  ("fva", TNone()), ("**kwargs", TConc({"__kwargs__": True}))],
                 _mi_cases(), key="MetaboliteSummary.__init__", axioms=lambda E: copy_axioms(),
                 pre=lambda E: E.s0.objs[E["model"].oid]["attr:tolerance"].k == 0,
                 modifies=lambda E: [("obj", E["self"]), ("ghost", "ms_calls", lambda st: ()), ("ghost", "df_calls", lambda st: ()),
                                     ("ghost", "gen_calls", lambda st: ())]))
