"""C03 / C02 — Model.remove_reactions(reactions, remove_orphans=True) WITH a context open: the case the in-context contract
contracts/c02_remove_reactions_ctx.py leaves out.  Key `Model.remove_reactions[context:orphans]` (KEYS), hook table `HOOKS`, glue
lemma `lemmas()`.  Layered on the two existing contracts: the final state is stated with the specification functions of the
no-context contract (contracts/c02_remove_reactions.py, case remove_orphans_true), the undo registrations with those of the in-context
contract (`_tr_state` of c02_remove_reactions_ctx.py, reused clause by clause) PLUS three further kinds of trace entries.

Documented: "Remove reactions from the model. The change is reverted upon exit when using the model as a context. ... remove_orphans:
Remove orphaned genes and metabolites from the model as well."  C03: every change has its inverse registered.

PROVED, for argument lists of any length, models with any number of reactions / genes / groups, any depth of the context stack:
  (A) the final state exactly as the no-context contract proves it for remove_orphans=True (the very same formulas: model.reactions,
      model pointers, back-references, groups, solver-call trace; Model.remove_metabolites called exactly on the orphaned metabolites;
      the genes that left model.genes - ghost set `rr_gone` - are exactly the orphaned genes, model.genes well formed, no group of the
      model contains an orphaned gene / metabolite; NO model pointer other than those of the listed reactions and of the orphaned
      metabolites changes: a write to `gene._model` fails this clause, whatever is registered).
  (B) the undo registrations (the ghost trace of the in-context contract; entry j = (kind, reaction being removed, second argument,
      manager) and, for the new kind GGADD, a third argument): everything that contract states for remove_orphans=False - every entry
      in the INNERMOST context, for a listed reaction, THE entry of its kind for its arguments, [OBJ,] POP, SETM, RADD consecutive at
      the start of the reaction's block, one XADD per metabolite / gene that listed the reaction, one GADD per group that contained it,
      blocks in the order of the argument, back-reference entries before the reaction's group entries - and additionally
        GENADD  partial(self.genes.add, g)       ONLY for g a gene of the reaction being removed that listed it at entry and that HAS
                left model.genes (is in the ghost set of orphaned genes), once per gene; and CONVERSELY one GENADD entry for EVERY
                gene that left model.genes.  Order: after the XADD entry partial(g._reaction.add, r) of the same gene and reaction
                (on exit, last in first out: the gene is back in model.genes BEFORE it lists the reaction again and before the
                reaction is re-added - no undo entry looks a gene up in model.genes, so the order is immaterial for the closed form);
        GGADD   partial(grp.add_members, [g])    ONLY for g a gene that left model.genes and grp a group of model.groups that
                contained g AT ENTRY, once per pair, after the GENADD entry of g; and CONVERSELY one GGADD entry for EVERY group of
                the model that contained an orphaned gene at entry;
        RMMET   the recorded call self.remove_metabolites(m) (NOT a registration of this function: the entry stands for the segment
                of registrations the callee makes in the same manager, which is the business of ITS proved in-context contract
                `Model.remove_metabolites[context]`, contracts/c02_remove_metabolites_ctx.py) ONLY for m a metabolite of the reaction
                being removed that listed it and lists nothing now, once per metabolite; CONVERSELY one per orphaned metabolite.
      All three kinds lie inside the block of the reaction being removed, before its group entries.
  (C) glue lemma `undo-restores:genes-content` (closed formula whose hypotheses are the very pre- and post-condition of this contract
      on a synthetic pair of states): replaying the GENADD entries on the exit state (each writes the one cell `g in model.genes :=
      True`: the C15 contract of DictList.add; no other entry of this function writes model.genes) gives back the ENTRY membership in
      model.genes for every object (as a set of objects: DictList.add appends, the order is not restored - C03 excludes it).  Guards:
      `False` does not follow from the hypotheses.  NOT proved (as for the base contract): the induction over the trace length that
      connects HistoryManager.reset's recursive run with the closed form; the group memberships of orphaned genes are restored by
      the GGADD entries (complete both ways by (B)) but this module carries no separate closed-form lemma for them.
OBSERVATION (no defect): an orphaned gene keeps its `_model` pointer while it is outside model.genes (the code never clears it, with
  or without a context); on exit it is a member again, so the pointer is right then.  Natively checked: 15 enter / remove (every ordered
  selection of 3 reactions sharing genes, genes and metabolites in two groups, an objective) / leave / compare histories, no difference;
  inside the block the orphaned gene is outside model.genes and still points at the model.

PRECONDITIONS (stated, not proved here): those of the in-context contract (a context open, managers on the stack, a list of pairwise
different members of model.reactions each pointing at the model, model.reactions well formed) and those of the no-context
remove_orphans=True case (model.genes well formed, the genes of a listed reaction that list it are members of model.genes, no object
both a metabolite and a gene of listed reactions, no listed reaction a metabolite of a listed reaction) PLUS type discipline: no listed
reaction is a gene of a listed reaction.  remove_orphans the literal True.
ASSUMED: everything the two base contracts assume.  In particular Model.remove_metabolites(m) is an ABSTRACT call here exactly as in
the no-context contract (obliged: m lists no reaction; assumed: m._model None, m out of the groups of the model, nothing else of this
contract's views) - what it registers is not looked at; `DictList.remove` / `DictList.add` by their C15 contracts; the list returned
by Model.get_associated_groups(gene) ASSUMED free of duplicates at the call site (as for the reaction's groups in the base contract).

ENGINE NOTE (no change of pyvc): the engine havocs a loop's `modifies` at the loop head and does NOT check the body's writes against
it - a write to a heap field that an inner loop does not list was dropped silently (a first version of this contract VERIFIED the
mutant M1 below).  Here every inner loop lists all heap fields the function may write (`_model`, `_reaction`, `_members`) and its
invariant states the ones it must not write unchanged (`_same`); the two base contracts do not do this for `_model` in the gene loop.

MUTANTS (tools/mutate_and_run.sh at its reduced solver budget; control: the unmutated source at the same budget leaves only
loop#0/inv-preserve.39~2 undecided, which is discharged at the normal budget - it is not counted below):
  M1 `gene._model = None` after self.genes.remove(gene), no undo (the seeded change)   -> loop#2/inv-preserve.30 (paths ~4, ~7: `_model`
     unchanged in the gene loop) not discharged
  M2 the registration context(partial(self.genes.add, gene)) dropped                   -> loop#2/inv-preserve.26 (entries made by the loop:
     a GGADD entry needs the gene's GENADD entry before it) and .28 (one GENADD per gene that left) not discharged
  M3 the registration context(partial(group.add_members, [gene])) dropped              -> loop#3/inv-preserve.6 (trace length = entry length
     + groups visited) and .10 (entry nA + w is the GGADD of the w-th group) not discharged
  M4 context(partial(self.genes.add, gene)) registered twice                           -> loop#2/inv-preserve.26 (nothing twice: whGen)
  M5 context(partial(group.add_members, [reaction])) in the gene's group loop          -> loop#3/inv-preserve.9 (every entry the loop makes is
     the GGADD of the current gene) and .10 not discharged
(all `unknown`, none `sat`: the clauses are quantified).
"""
import z3
import cobra  # noqa
from .common import *  # noqa
from . import c02_remove_reactions as RR
from . import c02_remove_reactions_ctx as RRC
from . import c03_context as C3

MM = RR.MM
KEY = "Model.remove_reactions[context:orphans]"
KEYS = [KEY]
RRC.MINE.add(KEY)
I_, B_ = z3.IntSort(), z3.BoolSort()
A_, Hh, gh = RRC.A_, RR.Hh, RRC.gh
K_XADD, K_GADD = RRC.K_XADD, RRC.K_GADD
K_GENADD, K_GGADD, K_RMMET = 7, 8, 9

# further ghost state: arg3[j] = the gene of a GGADD entry; witness maps whGen[g] / whM[m] = position of the GENADD / RMMET entry of
# gene g / metabolite m, whGG[g][grp] = position of the GGADD entry of (g, grp)
OWN = {"rro_arg3": A_(I_, Ref), "rro_whGen": A_(Ref, I_), "rro_whGG": A_(Ref, Ref, I_), "rro_whM": A_(Ref, I_)}
_O0 = {k: z3.Const(k + "_0", s) for k, s in OWN.items()}


def go(st, key):
    v = st.ghost.get(key)
    return v if v is not None else _O0[key]


def _hav(key):
    return ("ghost", key, lambda st: fresh(key, OWN[key]))


def _mine(eng):
    return getattr(eng.cur_contract, "key", None) == KEY


def _local(eng, st, name):
    v = st.lookup(eng._top_fid, name)
    if not isinstance(v, VRef):
        raise Unsupported(f"no local `{name}`")
    return v.t


def _record(eng, st, kind, x, y, mgr, third=None):
    T = dict(gh(st, "rru"))
    n = T["n"]
    T.update(n=n + 1, kind=z3.Store(T["kind"], n, z3.IntVal(kind)), arg=z3.Store(T["arg"], n, x), arg2=z3.Store(T["arg2"], n, y),
             ctx=z3.Store(T["ctx"], n, mgr))
    st = st.setghost("rru", T)
    if kind == K_GENADD:
        st = st.setghost("rro_whGen", z3.Store(go(st, "rro_whGen"), y, n))
    elif kind == K_RMMET:
        st = st.setghost("rro_whM", z3.Store(go(st, "rro_whM"), y, n))
    else:
        w = go(st, "rro_whGG")
        st = st.setghost("rro_whGG", z3.Store(w, third, z3.Store(w[third], y, n)))
        st = st.setghost("rro_arg3", z3.Store(go(st, "rro_arg3"), n, third))
    return st


def call_object_hook(eng, st, f, pos, kw):
    """context(partial(self.genes.add, gene)) / context(partial(group.add_members, [gene])): recorded as GENADD / GGADD; every other
    registration is left to the hook of the base contract"""
    if not (_mine(eng) and isinstance(f, VRef) and f.cls == "HistoryManager" and len(pos) == 1 and not kw):
        return None
    u = pos[0]
    model = eng.entry_args.get("self")
    if isinstance(u, VFunc) and u.kind == "partial" and not u.c and isinstance(model, VObj) and isinstance(u.a, VFunc) \
            and u.a.kind == "bound" and len(tuple(u.b)) == 1:
        recv, name, b = u.a.a, u.a.b, tuple(u.b)
        gl = st.objs[model.oid].get("attr:genes")
        r = RRC._cur_reaction(eng, st)
        if isinstance(recv, VObj) and isinstance(gl, VObj) and recv.oid == gl.oid and name == "add" and isinstance(b[0], VRef):
            return [("ok", _record(eng, st, K_GENADD, r, b[0].t, f.t), NONE)]
        if isinstance(recv, VRef) and recv.cls == "Group" and name == "add_members":
            x = RRC._list1(st, b[0])
            if x is not None and not z3.simplify(r).eq(x):
                # the member is not the reaction being removed: it has to be the gene being removed (obliged)
                eng.oblige(st, x == _local(eng, st, "gene"), "undo/group-entry-of-the-current-gene", kind="side")
                return [("ok", _record(eng, st, K_GGADD, r, recv.t, f.t, third=_local(eng, st, "gene")), NONE)]
    return None


def call_method_hook(eng, st, recv, name, pos, kw):
    if not _mine(eng):
        return None
    m = RR._entry_model(eng)
    if m is None:
        return None
    if isinstance(recv, VObj) and recv.oid == m.oid and name == "remove_metabolites" and len(pos) == 1 and not kw \
            and isinstance(pos[0], VRef):
        # the abstract call of the no-context contract, plus GHOST code: the call is recorded in the trace (RMMET)
        outs = RR.call_method_hook(eng, st, recv, name, pos, kw)
        return [(k_, _record(eng, s_, K_RMMET, RRC._cur_reaction(eng, s_), pos[0].t, _local(eng, s_, "context")) if k_ == "ok" else s_, v_)
                for k_, s_, v_ in outs]
    if isinstance(recv, VObj) and recv.oid == m.oid and name == "get_associated_groups" and len(pos) == 1 and not kw \
            and isinstance(pos[0], VRef) and not z3.simplify(pos[0].t).eq(z3.simplify(RRC._cur_reaction(eng, st))):
        # the groups of an orphaned GENE: as the base hook does for the reaction (contract + ASSUMED: no duplicates), but the ghost
        # marker `mid` (where the reaction's own group entries begin) is left alone
        blk = st.ghost.get("rru_blk")
        outs = RRC.call_method_hook(eng, st, recv, name, pos, kw)
        return [(k_, s_.setghost("rru_blk", blk if blk is not None else RRC._G0["rru_blk"]) if k_ == "ok" else s_, v_)
                for k_, s_, v_ in outs]
    return None


HOOKS = chain_hooks({"call_object": call_object_hook, "call_method": call_method_hook}, RRC.HOOKS)


# ---------------------------------------------------------------- specification
def _pre(E):
    n, e = RR._arg(E)
    G = Hh(E, E.s0, "_genes")
    k, k2 = qv("ok1"), qv("ok2")
    xk, xk2 = z3.Select(e, k), z3.Select(e, k2)
    return z3.And(RRC._pre(E),
                  # type discipline: no listed reaction is a gene of a listed reaction
                  FA([k, k2], z3.Implies(z3.And(0 <= k, k < n, 0 <= k2, k2 < n), z3.Not(G[xk][xk2])), patterns=[G[xk][xk2]]))


def _tr_state(E, st, t):
    base = RRC._tr_state(E, st, t)
    assert len(base) == 12, "c02_remove_reactions_ctx._tr_state: clause list changed"
    n_arg, e = RR._arg(E)
    gn, ge = RR._groups(E, E.s0)
    T, Bk = gh(st, "rru"), gh(st, "rru_blk")
    whS, whX, whG = gh(st, "rru_whS"), gh(st, "rru_whX"), gh(st, "rru_whG")
    a3, whGen, whGG, whM = (go(st, k_) for k_ in ("rro_arg3", "rro_whGen", "rro_whGG", "rro_whM"))
    n, kd, ar, a2, cx = (T[f] for f in ("n", "kind", "arg", "arg2", "ctx"))
    lo, mid, hob = Bk["lo"], Bk["mid"], Bk["has_obj"]
    R0, M0 = Hh(E, E.s0, "_reaction"), Hh(E, E.s0, "_members")
    Mt, G = Hh(E, E.s0, "_metabolites"), Hh(E, E.s0, "_genes")
    GONE, OM = RR.gone(st), RR.orphans(st)
    top = RRC._top(E)
    j, y, g_ = qv("uj"), qv("uy", Ref), qv("ug")
    x, z, w = ar[j], a2[j], a3[j]
    kc = RRC._kc
    single = lambda K: z3.And(kd[j] == K, z == NULL, whS[kc(K)][x] == j)  # noqa
    nxt = RR.ARGPOS[x] + 1
    gg = z3.Select(ge, g_)
    every = FA([j], z3.Implies(z3.And(0 <= j, j < n), z3.And(
        cx[j] == top, RR._listed(E, x, t),
        z3.Or(z3.And(single(RRC.K_OBJ), hob[x]), single(RRC.K_POP), single(RRC.K_SETM), single(RRC.K_RADD),
              z3.And(kd[j] == K_XADD, whX[x][z] == j, z3.Or(Mt[x][z], G[x][z]), R0[z][x]),
              z3.And(kd[j] == K_GADD, whG[x][z] == j, RR._in_groups(E, z), M0[z][x]),
              z3.And(kd[j] == K_GENADD, whGen[z] == j, G[x][z], R0[z][x], GONE[z], whX[x][z] < j, kd[whX[x][z]] == K_XADD),
              z3.And(kd[j] == K_GGADD, whGG[w][z] == j, RR._in_groups(E, z), M0[z][w], GONE[w], G[x][w], R0[w][x],
                     whGen[w] < j, kd[whGen[w]] == K_GENADD, a2[whGen[w]] == w),
              z3.And(kd[j] == K_RMMET, whM[z] == j, Mt[x][z], R0[z][x], OM[z])))), patterns=[kd[j]])
    order = FA([j], z3.Implies(z3.And(0 <= j, j < n),
                               z3.And(lo[RR.ARGPOS[x]] <= j, z3.Implies(nxt < t, j < lo[nxt]),
                                      z3.Implies(kd[j] != K_GADD, j < mid[x]), z3.Implies(kd[j] == K_GADD, mid[x] <= j))),
               patterns=[kd[j]])
    conv = [
        # one GENADD entry per gene that left model.genes, one RMMET entry per orphaned metabolite
        FA([y], z3.Implies(GONE[y], z3.And(0 <= whGen[y], whGen[y] < n, kd[whGen[y]] == K_GENADD, a2[whGen[y]] == y)), patterns=[GONE[y]]),
        FA([y], z3.Implies(OM[y], z3.And(0 <= whM[y], whM[y] < n, kd[whM[y]] == K_RMMET, a2[whM[y]] == y)), patterns=[OM[y]]),
        # one GGADD entry per group of the model that contained an orphaned gene at entry
        FA([y, g_], z3.Implies(z3.And(GONE[y], 0 <= g_, g_ < gn, M0[gg][y]),
                               z3.And(0 <= whGG[y][gg], whGG[y][gg] < n, kd[whGG[y][gg]] == K_GGADD, a3[whGG[y][gg]] == y,
                                      a2[whGG[y][gg]] == gg)), patterns=[M0[gg][y]])]
    return [base[0], every] + base[2:11] + [order] + conv


def _post(E):
    return z3.And(RR._post(E), *_tr_state(E, E.s1, RR._arg(E)[0]))


def _same(E, Lc, *fields):
    """explicit frame of an inner loop: the engine havocs the loop's `modifies` at the loop head and does NOT check that the body
    writes nothing else (a write to a heap field outside `modifies` would be dropped silently); so the heap fields the function
    may write are ALL put into the inner loops' `modifies` and the ones a loop must not write are stated unchanged here"""
    x = qv("sx", Ref)
    return [FA([x], Hh(E, Lc.st, f)[x] == Hh(E, Lc.entry, f)[x], patterns=[Hh(E, Lc.st, f)[x]]) for f in fields]


def _inv_outer(E, Lc):
    return z3.And(RR._inv_outer(E, Lc), *_tr_state(E, Lc.st, Lc.i))


def _trace_parts(Lc):
    st, en = Lc.st, Lc.entry
    T, TA = gh(st, "rru"), gh(en, "rru")
    return T, TA, TA["n"]


def _inv_mets(E, Lc):
    """loop over reaction._metabolites: one XADD per element enumerated so far that listed the reaction, one RMMET per newly orphaned
    metabolite"""
    base = RR._inv_members("_metabolites")
    r, c = RR._cur(Lc), RRC._ctx_of(Lc)
    st, en, i = Lc.st, Lc.entry, Lc.i
    _, order, pos, dom = Lc.seq.src[:4]
    R_in = Hh(E, en, "_reaction")
    T, TA, nA = _trace_parts(Lc)
    n, kd, ar, a2, cx = (T[f] for f in ("n", "kind", "arg", "arg2", "ctx"))
    whX, whXA = gh(st, "rru_whX"), gh(en, "rru_whX")
    whM, whMA = go(st, "rro_whM"), go(en, "rro_whM")
    OM, OMA = RR.orphans(st), RR.orphans(en)
    new = lambda v: z3.And(z3.Select(dom, v), z3.Select(pos, v) < i, R_in[v][r])  # noqa
    newo = lambda v: z3.And(OM[v], z3.Not(OMA[v]))  # noqa
    j, x, y = qv("nj"), qv("nx", Ref), qv("ny", Ref)
    cs = RRC._prefix_kept(st, en) + [
        FA([x], z3.Implies(x != r, whX[x] == whXA[x]), patterns=[whX[x]]),
        FA([y], z3.Implies(z3.Not(new(y)), whX[r][y] == whXA[r][y]), patterns=[whX[r][y]]),
        FA([y], z3.Implies(z3.Not(newo(y)), whM[y] == whMA[y]), patterns=[whM[y]]),
        FA([j], z3.Implies(z3.And(nA <= j, j < n),
                           z3.And(cx[j] == c, ar[j] == r,
                                  z3.Or(z3.And(kd[j] == K_XADD, new(a2[j]), whX[r][a2[j]] == j),
                                        z3.And(kd[j] == K_RMMET, new(a2[j]), newo(a2[j]), whM[a2[j]] == j)))),
           patterns=[kd[j], ar[j], a2[j]]),
        FA([y], z3.Implies(new(y), z3.And(nA <= whX[r][y], whX[r][y] < n, kd[whX[r][y]] == K_XADD, ar[whX[r][y]] == r,
                                          a2[whX[r][y]] == y)), patterns=[z3.Select(pos, y), whX[r][y]]),
        FA([y], z3.Implies(newo(y), z3.And(nA <= whM[y], whM[y] < n, kd[whM[y]] == K_RMMET, ar[whM[y]] == r, a2[whM[y]] == y)),
           patterns=[OM[y]])]
    return z3.And(base(E, Lc), *cs)


def _inv_genes(E, Lc):
    """loop over reaction._genes: one XADD per element enumerated so far that listed the reaction; per gene that left model.genes in
    this loop one GENADD (after its XADD) and one GGADD per group of the model that contained it"""
    base = RR._inv_members("_genes")
    r, c = RR._cur(Lc), RRC._ctx_of(Lc)
    st, en, i = Lc.st, Lc.entry, Lc.i
    _, order, pos, dom = Lc.seq.src[:4]
    gn, ge = RR._groups(E, E.s0)
    R_in, M_in, M = Hh(E, en, "_reaction"), Hh(E, en, "_members"), Hh(E, st, "_members")
    T, TA, nA = _trace_parts(Lc)
    n, kd, ar, a2, cx = (T[f] for f in ("n", "kind", "arg", "arg2", "ctx"))
    whX, whXA = gh(st, "rru_whX"), gh(en, "rru_whX")
    whGen, whGenA = go(st, "rro_whGen"), go(en, "rro_whGen")
    whGG, whGGA = go(st, "rro_whGG"), go(en, "rro_whGG")
    a3, a3A = go(st, "rro_arg3"), go(en, "rro_arg3")
    GONE, GONEA = RR.gone(st), RR.gone(en)
    new = lambda v: z3.And(z3.Select(dom, v), z3.Select(pos, v) < i, R_in[v][r])  # noqa
    newg = lambda v: z3.And(GONE[v], z3.Not(GONEA[v]))  # noqa
    j, x, y, g_ = qv("ej"), qv("ex", Ref), qv("ey", Ref), qv("eg")
    gg = z3.Select(ge, g_)
    cs = RRC._prefix_kept(st, en) + [
        FA([j], z3.Implies(z3.And(0 <= j, j < nA), a3[j] == a3A[j]), patterns=[a3[j]]),
        FA([x], z3.Implies(x != r, whX[x] == whXA[x]), patterns=[whX[x]]),
        FA([y], z3.Implies(z3.Not(new(y)), whX[r][y] == whXA[r][y]), patterns=[whX[r][y]]),
        FA([y], z3.Implies(z3.Not(newg(y)), whGen[y] == whGenA[y]), patterns=[whGen[y]]),
        FA([y], z3.Implies(z3.Not(newg(y)), whGG[y] == whGGA[y]), patterns=[whGG[y]]),
        FA([j], z3.Implies(z3.And(nA <= j, j < n),
                           z3.And(cx[j] == c, ar[j] == r,
                                  z3.Or(z3.And(kd[j] == K_XADD, new(a2[j]), whX[r][a2[j]] == j),
                                        z3.And(kd[j] == K_GENADD, new(a2[j]), newg(a2[j]), whGen[a2[j]] == j,
                                               nA <= whX[r][a2[j]], whX[r][a2[j]] < j, kd[whX[r][a2[j]]] == K_XADD),
                                        z3.And(kd[j] == K_GGADD, new(a3[j]), newg(a3[j]), whGG[a3[j]][a2[j]] == j,
                                               RR._in_groups(E, a2[j]), M_in[a2[j]][a3[j]],
                                               nA <= whGen[a3[j]], whGen[a3[j]] < j, kd[whGen[a3[j]]] == K_GENADD,
                                               a2[whGen[a3[j]]] == a3[j])))),
           patterns=[kd[j], ar[j], a2[j]]),
        FA([y], z3.Implies(new(y), z3.And(nA <= whX[r][y], whX[r][y] < n, kd[whX[r][y]] == K_XADD, ar[whX[r][y]] == r,
                                          a2[whX[r][y]] == y)), patterns=[z3.Select(pos, y), whX[r][y]]),
        FA([y], z3.Implies(newg(y), z3.And(nA <= whGen[y], whGen[y] < n, kd[whGen[y]] == K_GENADD, ar[whGen[y]] == r, a2[whGen[y]] == y)),
           patterns=[GONE[y]]),
        FA([y, g_], z3.Implies(z3.And(newg(y), 0 <= g_, g_ < gn, M_in[gg][y]),
                               z3.And(nA <= whGG[y][gg], whGG[y][gg] < n, kd[whGG[y][gg]] == K_GGADD, ar[whGG[y][gg]] == r,
                                      a3[whGG[y][gg]] == y, a2[whGG[y][gg]] == gg)), patterns=[M_in[gg][y]])]
    return z3.And(base(E, Lc), *(cs + _same(E, Lc, "_model")))


def _inv_gene_groups(E, Lc):
    """loop over self.get_associated_groups(gene): entry nA + w is the GGADD of the w-th group"""
    base = RR._inv_groups("gene", lambda Lc_: Lc_.seq.src)
    r, c, g = RR._cur(Lc), RRC._ctx_of(Lc), Lc.var("gene").t
    st, en, i = Lc.st, Lc.entry, Lc.i
    gn, ge = L(st, Lc.seq.src)
    T, TA, nA = _trace_parts(Lc)
    n, kd, ar, a2, cx = (T[f] for f in ("n", "kind", "arg", "arg2", "ctx"))
    whGG, whGGA = go(st, "rro_whGG"), go(en, "rro_whGG")
    a3, a3A = go(st, "rro_arg3"), go(en, "rro_arg3")
    j, x, w = qv("fj"), qv("fx", Ref), qv("fw")
    gw = z3.Select(ge, w)
    cs = RRC._prefix_kept(st, en) + [
        n == nA + i,
        FA([j], z3.Implies(z3.And(0 <= j, j < nA), a3[j] == a3A[j]), patterns=[a3[j]]),
        FA([x], z3.Implies(x != g, whGG[x] == whGGA[x]), patterns=[whGG[x]]),
        FA([j], z3.Implies(z3.And(nA <= j, j < n),
                           z3.And(cx[j] == c, kd[j] == K_GGADD, ar[j] == r, a3[j] == g, a2[j] == z3.Select(ge, j - nA),
                                  whGG[g][a2[j]] == j)), patterns=[kd[j], ar[j], a2[j]]),
        FA([w], z3.Implies(z3.And(0 <= w, w < i), z3.And(whGG[g][gw] == nA + w, kd[nA + w] == K_GGADD, ar[nA + w] == r, a3[nA + w] == g,
                                                         a2[nA + w] == gw)), patterns=[gw])]
    return z3.And(base(E, Lc), *(cs + _same(E, Lc, "_model", "_reaction")))


def _inv_rxn_groups(E, Lc):
    return z3.And(RRC._inv_groups(E, Lc), *_same(E, Lc, "_model", "_reaction"))


OWN_GHOST = [_hav(k) for k in OWN]


def _mod(E):
    return RRC._mod(E) + OWN_GHOST


def _outer_mod(E, Lc):
    return RRC._outer_mod(E, Lc) + OWN_GHOST


_H = RRC._havoc
_HEAPS = [("heap", "_members"), ("heap", "_model"), ("heap", "_reaction")]
_c_orph = RR.pcase_(Case("remove_orphans_true", ensures=_post), remove_orphans=TConc(True))
REG.add(Contract(MM, "Model.remove_reactions", "C03",
                 [("self", RR._model_t()), ("reactions", TList("ref:Reaction")), ("remove_orphans", TConc(True))],
                 [_c_orph], pre=_pre, modifies=_mod, key=KEY, props=["C03", "C02"],
                 loops={0: LoopSpec(_inv_outer, _outer_mod),
                        1: LoopSpec(_inv_mets, lambda E, Lc: RR._met_mod(E, Lc) + [_H("rru"), _H("rru_whX"), _hav("rro_whM")]),
                        2: LoopSpec(_inv_genes, lambda E, Lc: RR._gene_mod(E, Lc) + [("heap", "_model"), _H("rru"), _H("rru_whX"),
                                                                                    _hav("rro_whGen"), _hav("rro_whGG"), _hav("rro_arg3")]),
                        3: LoopSpec(_inv_gene_groups, lambda E, Lc: _HEAPS + [_H("rru"), _hav("rro_whGG"), _hav("rro_arg3")]),
                        4: LoopSpec(_inv_rxn_groups, lambda E, Lc: _HEAPS + [_H("rru"), _H("rru_whG")])},
                 note="a context is open (any depth); remove_orphans the literal True; otherwise the preconditions of the in-context "
                      "contract and of the no-context remove_orphans=True case, plus: no listed reaction is a gene of a listed reaction. "
                      "Model.remove_metabolites(<one metabolite that lists no reaction>) is an abstract call with an ASSUMED effect, "
                      "recorded in the trace (its own registrations are the business of Model.remove_metabolites[context]); the lists "
                      "returned by Model.get_associated_groups ASSUMED free of duplicates at the call sites"))


# ---------------------------------------------------------------- glue lemma: the GENADD entries restore model.genes
def lemmas():
    from pyvc.engine import Engine, Obl, flatten_and
    from pyvc.state import State
    from pyvc.loops import havoc_locations
    eng = Engine(REG, HOOKS)
    st, a = State(), {}
    for name, t in (("self", RR._model_t()), ("reactions", TList("ref:Reaction")), ("remove_orphans", TConc(True))):
        st, a[name] = t.make(st, "lo_" + name)
    st = st.assume(*eng.kind_axioms(st))
    s1 = havoc_locations(eng, st, _mod(Env(a, st, eng=eng)))
    E = Env(a, st, s1, eng=eng)
    ids = idarr(E, st)

    def member(s):
        n_, e_ = L(s, RR._genes(E, s))
        dom_, val_ = Dv(s, RR._genes(E, s))
        return lambda v: z3.And(z3.Select(dom_, ids[v]), z3.Select(e_, z3.Select(val_, ids[v])) == v)
    in0, in1 = member(st), member(s1)
    in_f = z3.Const("lo_gene_listed_after_undo", A_(Ref, B_))
    T = gh(s1, "rru")
    n, kd, a2 = T["n"], T["kind"], T["arg2"]
    j, x = qv("lj"), qv("lx", Ref)
    in_n = z3.And(0 <= j, j < n)
    replay = [FA([j], z3.Implies(z3.And(in_n, kd[j] == K_GENADD), in_f[a2[j]]), patterns=[kd[j]]),
              FA([x], z3.Implies(in1(x), in_f[x]), patterns=[in_f[x]]),
              FA([x], z3.Implies(z3.And(in_f[x], z3.Not(in1(x))), z3.Exists([j], z3.And(in_n, kd[j] == K_GENADD, a2[j] == x))),
                 patterns=[in_f[x]])]
    hyps = list(st.pc) + list(s1.pc) + flatten_and(_pre(E)) + flatten_and(_post(E)) + replay
    out = [Obl("C03/lemma/remove_reactions[orphans]/undo-restores:genes-content", hyps,
               FA([x], in_f[x] == in0(x), patterns=[in_f[x]]), "lemma")]
    probe = z3.Solver()
    probe.set("timeout", 5000)
    probe.add(*hyps)
    if probe.check() == z3.unsat:
        raise RuntimeError("c02_remove_reactions_ctx_orph.lemmas: contradictory hypotheses (vacuous lemma)")
    return out
