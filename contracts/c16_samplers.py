"""C16 / C14 — the guards, bookkeeping and index arithmetic AROUND the random walk of the hit-and-run samplers
(cobra/sampling/hr_sampler.py, achr.py, optgp.py, sampling.py), in exact integer arithmetic and the opaque array algebra.

As in contracts/c16_sampling.py every numpy / pandas operation is an uninterpreted function named after the operation and
`np.random.*` is a fresh value: what is proved is control flow, data flow and the integer bookkeeping, NOT numerics.  The sampler
object is MATERIALISED (its integer fields n_samples / thinning / nproj / retries / _seed / processes are z3 Ints, its arrays opaque
terms held in attributes), so attribute writes are tracked exactly; the pseudo-attribute `np` is the opaque identity of the sampler
that the proved contract of `sampling.core.step` (contracts/c16_sampling.py) talks about: `guard_ok(S, p)` = `not any(S._bounds_dist(p)
< -S.bounds_tol)` was evaluated on p and found true.

Spec vocabulary
  okpt(p)     := guard_ok(S, p)  or  RP(warmup, p)
  RP(w, r)    := r is `w[idx, :].mean(axis=0)` for some index array idx  (a value `_random_point` returned; only the direction
                 `RP(w, w[idx,:].mean(axis=0))` is used, given as a definitional axiom)
  pts[m]      := (ghost) the value of `prev` when the sampler's iteration counter reached m
  rows[r]     := (ghost) the value stored into row r of the array created by `np.zeros((n, ...))`, row_it[r] the counter at that moment

PROVED (preconditions, all stated in `pre=`: n >= 0, thinning >= 1, nproj >= 1 [documented: int > 0], n_samples >= 0, processes >= 1,
the model's reaction DictList well-formed):
  ACHRSampler.__single_iteration   exactly ONE step(self, prev, warmup[<random>, :] - center) with the default fraction; point AND centre are
        re-projected exactly when `problem.homogeneous and n_samples * thinning % nproj == 0` (old n_samples); the centre becomes
        n*c/(n+1) + p/(n+1) with the OLD count n (the running mean of n+1 points), n_samples is incremented once; the new point is
        okpt.  RuntimeError of step propagates.
  ACHRSampler.sample(n, fluxes)    loop invariant (k iterations done): n_samples = n_samples0 + k, rows [0, k // thinning) of the array created
        as np.zeros((n, warmup.shape[1])) are written and no other, row r was written when the counter was n_samples0 + (r+1)*thinning
        with the point reached then (rows[r] = pts[that counter]) and is okpt.  Hence: EXACTLY n rows, row i = the point after
        (i+1)*thinning iterations (no off-by-one: the loop variable runs 1 .. thinning*n, stores at i // thinning - 1 when i % thinning == 0),
        thinning*n iterations in all; fluxes=True: DataFrame(samples[:, fwd_idx] - samples[:, rev_idx], columns = [the reaction ids in model
        order]); fluxes=False: DataFrame(samples, columns = [v.name in solver order]).
        NOTE (stated, not hidden): a stored point need NOT have passed the bounds guard: when a re-projection was due and the equalities
        were violated it is the value of `_random_point()` (a mean of warmup rows), which no guard looks at.
  optgp.mp_init                    the module global `sampler` is the argument.
  optgp._sample_chain((n, idx))    np.random.seed is called exactly once, with (sampler._seed + idx) % (2**31 - 1), BEFORE any np.random draw of
        the function (ghost flags set by the hooks: a draw before the seeding / a second seeding would be flagged; checked in the loop
        invariant too); no sampler field but `retries` is written (centre and n_samples are LOCAL); the result is (sampler.retries, the array
        np.zeros((n, center.shape[0]))) whose rows [0, n) and no other were written, row r when the step counter was 1 + (r+1)*thinning
        (1 = the start-up step with fraction 0.95) with the result of that step or the random point that replaced it, okpt.  Reads only
        sampler fields (anything else would be an unbound name for the executor): with the trusted determinism of np.random the chain is a
        function of (sampler fields, n, idx).
  OptGPSampler.sample(n, fluxes)   serial (processes = 1): mp_init(self); _sample_chain((n, 0)) in process; n rows.  Parallel (processes > 1),
        under the ASSUMED ordered-map contract `Pool.map` (see its note): n_process = c with c*P >= n > (c-1)*P  [np.ceil(n / P).astype(int),
        float division and ceil assumed exact]; ONE pool created with exactly (P, initializer=mp_init, initargs=(self,)) before any field of
        self is written, entered, ONE map(_sample_chain, [(c, j) for j in range(P)], chunksize=1) - the items are proved to be exactly these
        pairs and the precondition of _sample_chain is an obligation for an arbitrary j in the state mp_init's proved contract leaves in a
        worker -, left again (also when a task raises); chains = np.vstack of the P chains IN INDEX ORDER; rows returned = c*P with
        n <= c*P < n + P; self.retries += the sum of the tasks' retries; BOTH branches: n_samples += the number of samples ACTUALLY
        generated, center = (n_samples*center + atleast_2d(chains).sum(0)) / (n_samples + that number); the frame as for ACHR.
  HRSampler._bounds_dist(p)        np.array([min over (p - lb), min over (ub - p)]), each combined with the constraint distances
        (A p - lower, upper - A p) exactly when the problem has constraints.
  HRSampler._random_point()        warmup[idx, :].mean(axis=0) for a random index array (RP).
  HRSampler._reproject(p)          if np.allclose(equalities.dot(p), b, rtol=0, atol=feasibility_tol) (and p != p nowhere): returns p; in every
        case returns p or a _random_point(); the projection nulls.dot(nulls.T.dot(p)) is computed exactly when the equalities are violated and
        RETURNED only when it compares equal to p in every element (ASSUMED extensionality: then it IS p).  See FINDING 1.
  HRSampler.validate(samples)      ValueError unless the number of columns is len(model.reactions) (flux space: S = create_stoichiometric_matrix,
        b / bounds built from the model) or len(model.variables) (variable space: problem.equalities / b / variable_bounds, plus the
        inequality rows when there are any); then, under the ASSUMED row-wise semantics of the final numpy operations (`numpy.rowwise`), for an
        arbitrary row with f = max |S x - b|, lb = min (x - lower), ub = min (upper - x):
            code = ("v" if f < feasibility_tol and lb > -bounds_tol and ub > -bounds_tol) + ("l" if lb <= -bounds_tol)
                   + ("u" if ub <= -bounds_tol) + ("e" if f > feasibility_tol)           (in this order)
        hence: the code is "v" iff the row is feasible; it contains l / u / e exactly for a violated lower bound / upper bound / equality;
        it has 1 to 3 letters PROVIDED f != feasibility_tol.  See FINDING 2.
  HRSampler.batch(size, num, fluxes)  (ACHRSampler receiver, generator executed eagerly through the new `yield` hook) exactly max(num, 0) values
        are yielded, each the result of ONE self.sample(size, fluxes=fluxes); n_samples grows by num * thinning * size.
  sampling.sample(model, n, method, thinning, processes, seed)  "optgp" -> OptGPSampler(model, processes=processes, thinning=thinning,
        seed=seed), "achr" -> ACHRSampler(model, thinning=thinning, seed=seed) (constructors by the ASSUMED contract
        HRSampler.__init__@samplers), then ONE sampler.sample(n) and DataFrame(columns=[the model's reaction ids in order], data=<its result>);
        any other method: ValueError before any constructor is called; an exception in the optgp / achr cases only after the constructor call.

ASSUMED: Pool.map (ordered map, workers initialised on a private copy), numpy.rowwise (validate only), HRSampler.__init__@samplers
(dispatch only: the interface the hook creates the object by; all three constructors are proved in contracts/c16_hrinit.py), float division / np.ceil exact, extensionality of arrays (`not any(a != b)` -> same point; _reproject only), np.random
deterministic given the seed, and the standing assumptions of the opaque algebra (pyvc/npalg.py).

FINDINGS (native reproduction with /venv/bin/python against /repo; neither breaks the feasibility statement of C16)
  1. HRSampler._reproject never returns the projection.  Documented: "Reproject a point into the feasibility region ... Projections may
     violate bounds - set to random point in space in that case".  The code tests `any(new != p)` instead of the bounds, so EVERY projection
     that differs from p in any element is thrown away for `_random_point()`.  Toy model EX_A <-> A, R1: A <-> B, EX_B: B <-> (all bounds
     [-10, 10]), ACHRSampler(seed=3), p = (5, 3, 5, 3, 5, 3) (strictly interior, S p = 0), q = p + 1e-3 e_0: the projection of q satisfies the
     equalities and has bounds distances (2.9998, 4.9993) - it passes the guard - but `_reproject(q)` returns `_random_point()` (2.0 away).
  2. HRSampler.validate returns the EMPTY code '' (documented: "a code of 1 to 3 letters") for a sample whose equality residual is
     EXACTLY feasibility_tol (`< tol` for 'v', `> tol` for 'e'), and for samples containing NaN.  Textbook model, ACHRSampler(seed=42): a
     returned sample with PGI += 0.25 has residual 0.24999999999999625; with sampler.feasibility_tol set to that number validate gives [''],
     with twice it ['v'], with half of it ['e']; a NaN entry gives [''] as well.

ENGINE CHANGES (additive): pyvc/loops.py `fresh_like`: a loop-assigned local holding an OPAQUE array (npalg.VNp) is havocked in the arbitrary
iteration (it used to keep its entry value - unsound for _sample_chain's `prev` / `center`); pyvc/engine.py `e_Yield`: `yield` through a new
hook "yield" (unsupported without it).

MUTANTS (tools/mutate_and_run.sh; each is NOT verified; the obligation that broke):
  achr.py    `self.n_samples += 1` -> `pass`                                   __single_iteration post.1 (count)
             `self.prev / (self.n_samples + 1)` -> `/ (self.n_samples)`          __single_iteration post.11 / post.7 (running mean)
             `self._reproject(self.center)` -> `self._reproject(self.prev)`     __single_iteration post.9, post.10
             `self.warmup[pi, :] - self.center` -> reversed                     __single_iteration post.4 (direction)
             `% self.nproj == 0` -> `== 1`                                      __single_iteration post.6 / post.5 (when re-projection is due)
             `step(self, self.prev, delta)` -> `step(self, self.center, delta)` __single_iteration post.3
             `if i % self.thinning == 0` -> `== 1`                              sample loop#0/inv-preserve.4, .5
             `samples[i // self.thinning - 1, :]` -> `samples[i // self.thinning, :]`   sample loop#0/inv-preserve.4, .5
             `range(1, self.thinning * n + 1)` -> `range(1, self.thinning * n)`  sample loop#0/inv-init.1
             `range(1, ...)` -> `range(0, self.thinning * n)`                   sample loop#0/inv-preserve.4, .5
             fwd_idx / rev_idx swapped                                          sample exit/post.3 (data of the frame)
             `= self.prev` -> `= self.center` (stored value)                    sample loop#0/inv-preserve.4
             variable names -> reaction ids in the fluxes=False branch          sample post (columns)
  optgp.py   seed call moved after the first draw                               _sample_chain loop#0/inv-init.8 (rng)
             `(sampler._seed + idx)` -> `(sampler._seed)`                       _sample_chain loop#0/inv-init.8
             `samples[...] = prev` -> `= center`                                _sample_chain loop#0/inv-preserve.6
             `n_samples += 1` -> `sampler.n_samples += 1`                       _sample_chain loop#0/inv-preserve.3, .9 (local count, field write)
             `range(1, T*n + 1)` -> `range(T*n)`                                _sample_chain loop#0/inv-preserve.6, .7
             `return (sampler.retries, samples)` -> `(n_samples, samples)`      _sample_chain exit/post.1
             `n = n_process * self.processes` dropped (requested n used)        OptGPSampler.sample post.17, post.18 (n_samples, centre)
             `range(self.processes)` -> `range(1, self.processes + 1)`          OptGPSampler.sample pool.map/item j is (n_process, j)
             `n = n_process * (self.processes - 1)`                             OptGPSampler.sample post.17, post.18 (unknown)
             `self.retries += sum(...)` -> `+= 0`                               OptGPSampler.sample post
             `self.n_samples + n` -> `self.n_samples + 1` (centre)              OptGPSampler.sample post.18
             `_sample_chain((n, 0))` -> `_sample_chain((n, 1))`                 OptGPSampler.sample exit#2/post.4
             `[n_process] * self.processes` -> `[n] * self.processes`           OptGPSampler.sample post.7, post.9
  hr_sampler.py  `(p - prob.variable_bounds[0,])` reversed                      _bounds_dist post
             `min(lb_dist, const_lb_dist)` -> `min(lb_dist, const_ub_dist)`     _bounds_dist post
             `self.warmup[idx, :]` -> `self.warmup[:, idx]`                     _random_point post
             `new = p` -> `new = nulls.dot(p)`                                  _reproject post.1
             `if any(new != p)` -> `if not any(new != p)`                       _reproject post.1, post.3
             validate: letter "l" -> "u"; `feasibility <` -> `<=`; `(samples - bounds[0,])` reversed; `ub_error <=` -> `<` in one of the two
             masks (unsupported: mask mismatch); `elif ... len(self.model.variables)` -> `reactions`; `bounds = prob.bounds`   validate post.2 /
             unexpected-exception
             batch: `sample(batch_num, ...)`, `sample(batch_size)`, `range(batch_num - 1)`     batch loop#0/inv-preserve.1, exit/post
  sampling.py `processes=processes` -> `processes=1`; `elif method != "achr"`; `seed=seed` dropped; `sample(n, fluxes=False)`;
             `if method == "achr"` first                                        sampling.sample post / raise post / expected-ValueError
"""
import z3
import cobra  # noqa
from .common import *  # noqa
from . import c15_dictlist  # noqa
from . import c16_sampling as CS
from pyvc import npalg as N
from pyvc import builtins as B
from pyvc.values import VSlice, VSeq

MH = "cobra/sampling/hr_sampler.py"
MA = "cobra/sampling/achr.py"
MO = "cobra/sampling/optgp.py"
MS = "cobra/sampling/sampling.py"

REG.classes.setdefault("ACHRSampler", ["HRSampler"])
REG.classes.setdefault("OptGPSampler", ["HRSampler"])
REG.classes.setdefault("HRSampler", [])

IntNP = z3.ArraySort(z3.IntSort(), N.NP)
IntInt = z3.ArraySort(z3.IntSort(), z3.IntSort())
IntBool = z3.ArraySort(z3.IntSort(), z3.BoolSort())
RP = z3.Function("sampler:RP", N.NP, N.NP, z3.BoolSort())
NONE_T = z3.Const("np:None", N.NP)
FULL = N.term("slice", NONE_T, NONE_T, NONE_T)          # the slice `:`


# ---------------------------------------------------------------- the sampler object
def _model_t():
    return TObj("Model", {"reactions": TDictList("Reaction"), "variables": TList("np"), "metabolites": N.TNp(), "constraints": N.TNp()})


INT_ATTRS = ("n_samples", "thinning", "nproj", "n_warmup", "retries", "_seed", "processes")
NP_ATTRS = ("warmup", "center", "prev", "problem", "fwd_idx", "rev_idx", "feasibility_tol", "bounds_tol", "np")


def sampler_t(cls):
    attrs = {k: TInt() for k in INT_ATTRS}
    attrs.update({k: N.TNp() for k in NP_ATTRS})
    attrs["model"] = _model_t()
    return TObj(cls, attrs)


def at(st, me, name):
    return st.objs[me.oid]["attr:" + name]


def S_of(st, me):
    return at(st, me, "np").t


def mean_rows(w, idx):
    """w[idx, :].mean(axis=0)"""
    return N.term("call(axis)", N.term("attr.mean", N.term("getitem", w, N.term("tuple", idx, FULL))), N.of_int(0))


def rp_axioms():
    w, i = z3.Const("rp_w", N.NP), z3.Const("rp_i", N.NP)
    return [z3.ForAll([w, i], RP(w, mean_rows(w, i)), patterns=[mean_rows(w, i)])]


def ext_axioms():
    """ASSUMED (numpy semantics, NaN-free arrays): two arrays that differ in no element are the same point"""
    a, b = z3.Const("ext_a", N.NP), z3.Const("ext_b", N.NP)
    t = N.term("builtins.any", N.term("ne", a, b))
    return [z3.ForAll([a, b], z3.Implies(z3.Not(N.truthy(t)), a == b), patterns=[t])]


def okpt(st0, me, p):
    return z3.Or(CS.guard_ok(S_of(st0, me), p), RP(at(st0, me, "warmup").t, p))


def pymod(x, y):
    """Python's x % y for y > 0 as the engine builds it"""
    return x - y * (x / y)


# ---------------------------------------------------------------- hooks
_NP_BUILTINS = ("any", "all", "min", "max", "sum")


def global_hook(eng, name):
    if name == "step":
        return VFunc("abstract", "step")
    if name in _NP_BUILTINS:
        return VFunc("abstract", "py:" + name)
    return None


def _trace(st, key):
    return st.ghost.get(key, ())


def call_abstract(eng, st, f, pos, kw):
    if f.a.startswith("py:"):
        nm = f.a[3:]
        if any(isinstance(x, N.VNp) for x in pos) and not kw:
            return [("ok", st, N.app("builtins." + nm, *pos))]
        return B.BUILTINS[nm](eng, st, pos, kw)
    if f.a == "step":
        # sampling.core.step by its PROVED contract (contracts/c16_sampling.py); the materialised sampler is passed as its opaque
        # identity; step may bump sampler.retries (not in its contract): the field becomes unknown
        me = pos[0]
        if not isinstance(me, VObj):
            return None
        S = N.VNp(S_of(st, me))
        out = []
        for k, s, v in eng.apply_contract(st, REG.get("step"), [S] + list(pos[1:]), kw):
            s = s.updobj(me.oid, **{"attr:retries": VInt(fresh("retries", z3.IntSort()))})
            if k == "ok":
                s = s.setghost("step_calls", _trace(s, "step_calls") + ({"sampler": me, "pos": tuple(pos[1:]), "kw": dict(kw), "res": v},))
                if s.ghost.get("chain_mode"):
                    # _sample_chain: the steps of the chain are counted, pts[c] = the result of the c-th step
                    c = s.ghost.get("chain_count", z3.IntVal(0)) + 1
                    s = s.setghost("chain_count", c).setghost("pts", z3.Store(_g(s, "pts"), c, v.t))
            out.append((k, s, v))
        return out
    return None


def call_method_hook(eng, st, recv, name, pos, kw):
    if isinstance(recv, VObj) and recv.cls in ("ACHRSampler", "OptGPSampler", "HRSampler") and name in ("_reproject", "_random_point"):
        con = REG.get("HRSampler." + name)
        out = []
        for k, s, v in eng.apply_contract(st, con, [recv] + list(pos), kw):
            if k == "ok":
                s = s.setghost(name + "_calls", _trace(s, name + "_calls") + ({"pos": tuple(pos), "res": v},))
            out.append((k, s, v))
        return out
    return None


HOOKS = chain_hooks({"global": global_hook, "call_abstract": call_abstract, "call_method": call_method_hook}, N.HOOKS)


def _res_np(base):
    def r(eng, st, E):
        return st, N.VNp(fresh("np:" + base, N.NP))
    return r


# ================================================================ HRSampler._random_point
def _rpt_post(E):
    if not isinstance(E.res, N.VNp):
        return z3.BoolVal(False)
    return RP(at(E.s0, E["self"], "warmup").t, E.res.t)


REG.add(Contract(MH, "HRSampler._random_point", "C16", [("self", sampler_t("HRSampler"))], [Case("any", ensures=_rpt_post)],
                 result=_res_np("random_point"), axioms=lambda E: rp_axioms(), key="HRSampler._random_point"))


# ================================================================ HRSampler._bounds_dist
def bounds_dist_term(prob, p, with_constraints):
    vb = N.term("attr.variable_bounds", prob)
    row = lambda a, i: N.term("getitem", a, N.term("tuple", N.of_int(i)))            # a[i,]
    mn = lambda x: N.term("call", N.term("attr.min", x))
    lb = mn(N.term("sub", p, row(vb, 0)))
    ub = mn(N.term("sub", row(vb, 1), p))
    if with_constraints:
        const = N.term("call", N.term("attr.dot", N.term("attr.inequalities", prob)), p)
        bd = N.term("attr.bounds", prob)
        lb = N.term("builtins.min", lb, mn(N.term("sub", const, row(bd, 0))))
        ub = N.term("builtins.min", ub, mn(N.term("sub", row(bd, 1), const)))
    return N.term("numpy.array", N.term("list", lb, ub))


def has_constraints(prob):
    return N.truthy(N.term("gt", N.term("getitem", N.term("attr.shape", N.term("attr.bounds", prob)), N.of_int(0)), N.of_int(0)))


def _bd_post(E):
    if not isinstance(E.res, N.VNp):
        return z3.BoolVal(False)
    prob, p = at(E.s0, E["self"], "problem").t, E["p"].t
    return z3.If(has_constraints(prob), E.res.t == bounds_dist_term(prob, p, True), E.res.t == bounds_dist_term(prob, p, False))


REG.add(Contract(MH, "HRSampler._bounds_dist", "C16", [("self", sampler_t("HRSampler")), ("p", N.TNp())], [Case("any", ensures=_bd_post)],
                 result=_res_np("bounds_dist"), key="HRSampler._bounds_dist"))


# ================================================================ HRSampler._reproject
def feasible_eq(prob, tol, p):
    """np.allclose(equalities.dot(p), b, rtol=0, atol=feasibility_tol)"""
    return N.truthy(N.term("numpy.allclose(atol,rtol)", N.term("call", N.term("attr.dot", N.term("attr.equalities", prob)), p),
                           N.term("attr.b", prob), tol, N.of_int(0)))


def projection(prob, p):
    nulls = N.term("attr.nullspace", prob)
    return N.term("call", N.term("attr.dot", nulls), N.term("call", N.term("attr.dot", N.term("attr.T", nulls)), p))


def differs(a, b):
    return N.truthy(N.term("builtins.any", N.term("ne", a, b)))


def _rj_post(E):
    if not isinstance(E.res, N.VNp):
        return z3.BoolVal(False)
    me, p, r = E["self"], E["p"].t, E.res.t
    prob, tol, w = at(E.s0, me, "problem").t, at(E.s0, me, "feasibility_tol").t, at(E.s0, me, "warmup").t
    feas = feasible_eq(prob, tol, p)
    cs = [z3.Implies(z3.And(feas, z3.Not(differs(p, p))), r == p),             # "If `p` is feasible, it will return `p`"
          z3.Or(r == p, RP(w, r))]                                             # else a point `_random_point` returned
    if E.role == "goal":
        # the projection is computed exactly when the equalities are violated, and it is RETURNED only if it is p itself
        rp_calls = _trace(E.s1, "_random_point_calls")
        cs.append(z3.BoolVal(len(rp_calls) <= 1))
        cs.append(z3.Implies(z3.And(z3.Not(feas), z3.Not(differs(projection(prob, p), p))), r == projection(prob, p)))
        cs.append(z3.Implies(z3.And(z3.Not(feas), differs(projection(prob, p), p)),
                             z3.BoolVal(len(rp_calls) == 1 and rp_calls[0]["res"] is E.res)))
    return z3.And(*cs)


REG.add(Contract(MH, "HRSampler._reproject", "C16", [("self", sampler_t("HRSampler")), ("p", N.TNp())], [Case("any", ensures=_rj_post)],
                 result=_res_np("reprojected"), axioms=lambda E: rp_axioms() + ext_axioms(),
                 modifies=lambda E: [("ghost", "_random_point_calls", lambda st: ())], key="HRSampler._reproject"))


# ================================================================ ACHRSampler.__single_iteration
def _si_pre(E):
    me = E["self"]
    return z3.And(at(E.s0, me, "thinning").t >= 1, at(E.s0, me, "nproj").t >= 1, at(E.s0, me, "n_samples").t >= 0)


def reproject_due(st, me):
    """`self.problem.homogeneous and (self.n_samples * self.thinning % self.nproj == 0)` (nproj > 0)"""
    ns, T, nproj = at(st, me, "n_samples").t, at(st, me, "thinning").t, at(st, me, "nproj").t
    return z3.And(N.truthy(N.term("attr.homogeneous", at(st, me, "problem").t)), pymod(ns * T, nproj) == 0)


def running_mean(ns, center, prev):
    """(n*center)/(n+1) + prev/(n+1): the mean of n+1 points from the mean of n and the new one"""
    return N.term("add", N.term("div", N.term("mul", N.of_int(ns), center), N.of_int(ns + 1)), N.term("div", prev, N.of_int(ns + 1)))


def _is_random(t):
    return z3.is_const(t) and t.decl().name().startswith("np:random")


def _si_post(E):
    me, s0, s1 = E["self"], E.s0, E.s1
    ns0 = at(s0, me, "n_samples").t
    prev1, center1 = at(s1, me, "prev"), at(s1, me, "center")
    if not (isinstance(prev1, N.VNp) and isinstance(center1, N.VNp) and isinstance(at(s1, me, "n_samples"), VInt)):
        return z3.BoolVal(False)
    cs = [at(s1, me, "n_samples").t == ns0 + 1,                      # incremented exactly once
          okpt(s0, me, prev1.t)]                                     # the new point passed the guard of step / is a _random_point
    if E.role != "goal":
        return z3.And(*cs)
    prev0, center0, w = at(s0, me, "prev").t, at(s0, me, "center").t, at(s0, me, "warmup").t
    steps, rj = _trace(s1, "step_calls"), _trace(s1, "_reproject_calls")
    # exactly ONE step, from the previous point, in the direction (a random warmup point) - centre, random step length
    good = (len(steps) == 1 and steps[0]["sampler"] is me and len(steps[0]["pos"]) == 2 and not steps[0]["kw"]
            and all(isinstance(x, N.VNp) for x in steps[0]["pos"]))
    cs.append(z3.BoolVal(bool(good)))
    if not good:
        return z3.And(*cs)
    x, delta, p1 = steps[0]["pos"][0].t, steps[0]["pos"][1].t, steps[0]["res"].t
    cs.append(x == prev0)
    shape = (z3.is_app(delta) and delta.decl().name() == "np:sub/2" and delta.arg(0).decl().name() == "np:getitem/2"
             and delta.arg(0).arg(1).decl().name() == "np:tuple/2" and _is_random(delta.arg(0).arg(1).arg(0)))
    cs.append(z3.BoolVal(bool(shape)))
    if shape:
        pi = delta.arg(0).arg(1).arg(0)
        cs.append(delta == N.term("sub", N.term("getitem", w, N.term("tuple", pi, FULL)), center0))
    due = reproject_due(s0, me)
    if len(rj) == 0:
        cs += [z3.Not(due), prev1.t == p1]
        cmid = center0
    elif len(rj) == 2 and all(len(c["pos"]) == 1 and isinstance(c["pos"][0], N.VNp) for c in rj):
        # both the point and the centre are re-projected, exactly when due
        cs += [due, rj[0]["pos"][0].t == p1, prev1.t == rj[0]["res"].t, rj[1]["pos"][0].t == center0]
        cmid = rj[1]["res"].t
        cs.append(z3.Or(cmid == center0, RP(w, cmid)))
    else:
        return z3.BoolVal(False)
    cs.append(center1.t == running_mean(ns0, cmid, prev1.t))          # the documented running mean, with the OLD count
    return z3.And(*cs)


def _si_mod(E):
    me = E["self"]
    return [("attr", me, "n_samples", lambda st: (st, VInt(fresh("n_samples", z3.IntSort())))),
            ("attr", me, "retries", lambda st: (st, VInt(fresh("retries", z3.IntSort())))),
            ("attr", me, "prev", lambda st: (st, N.VNp(fresh("np:prev", N.NP)))),
            ("attr", me, "center", lambda st: (st, N.VNp(fresh("np:center", N.NP)))),
            ("ghost", "step_calls", lambda st: ()), ("ghost", "_reproject_calls", lambda st: ()),
            ("ghost", "_random_point_calls", lambda st: ())]


def _si_case():
    c = Case("any", ensures=_si_post)
    c.may_raise = "RuntimeError"            # step gives up after MAX_TRIES
    c.ensures_on_raise = lambda E: z3.BoolVal(True)
    c.modifies_on_raise = _si_mod
    return c


REG.add(Contract(MA, "ACHRSampler.__single_iteration", "C16", [("self", sampler_t("ACHRSampler"))], [_si_case()], pre=_si_pre,
                 modifies=_si_mod, axioms=lambda E: rp_axioms(), key="ACHRSampler.__single_iteration"))


# ================================================================ ACHRSampler.sample
def _g(st, key):
    """ghost arrays of the sampling loop (initially arbitrary, nothing written)"""
    dflt = {"pts": z3.Const("pts0", IntNP), "rows": z3.Const("rows0", IntNP), "row_it": z3.Const("row_it0", IntInt),
            "written": z3.K(z3.IntSort(), z3.BoolVal(False))}
    return st.ghost.get(key, dflt[key])


def samples_array(n, w):
    """np.zeros((n, warmup.shape[1]))"""
    return N.term("numpy.zeros", N.term("tuple", N.of_int(n), N.term("getitem", N.term("attr.shape", w), N.of_int(1))))


def s_call_method(eng, st, recv, name, pos, kw):
    if isinstance(recv, VObj) and recv.cls == "ACHRSampler" and name == "__single_iteration":
        out = []
        for k, s, v in eng.apply_contract(st, REG.get("ACHRSampler.__single_iteration"), [recv], {}):
            if k == "ok":
                # ghost: the point reached when the iteration counter took its new value
                s = s.setghost("pts", z3.Store(_g(s, "pts"), at(s, recv, "n_samples").t, at(s, recv, "prev").t))
            out.append((k, s, v))
        return out
    return None


def s_setitem(eng, st, obj, idx, val):
    """samples[r, :] = point: recorded per row together with the iteration counter at that moment"""
    me = st.ghost.get("the_sampler")
    if isinstance(obj, N.VNp) and isinstance(idx, VTuple) and len(idx.items) == 2 and isinstance(idx.items[0], VInt) \
            and isinstance(idx.items[1], VSlice) and all(isinstance(x, VNone) for x in (idx.items[1].lo, idx.items[1].hi, idx.items[1].step)) \
            and isinstance(val, N.VNp) and me is not None:
        arr = st.ghost.get("rows_of")
        if arr is not None and not arr.eq(obj.t):
            raise Unsupported("rows written into two different arrays")
        r = idx.items[0].t
        cnt = st.ghost.get("chain_count")
        cnt = at(st, me, "n_samples").t if cnt is None else cnt
        st = st.setghost("rows_of", obj.t).setghost("rows", z3.Store(_g(st, "rows"), r, val.t)) \
            .setghost("row_it", z3.Store(_g(st, "row_it"), r, cnt)) \
            .setghost("written", z3.Store(_g(st, "written"), r, z3.BoolVal(True)))
        return [("ok", st, NONE)]
    return None


def s_getattr(eng, st, v, name):
    if isinstance(v, VConc) and isinstance(v.py, tuple) and v.py[0] == "module" and v.py[1] == "pandas" and name == "DataFrame":
        return [("ok", st, VFunc("abstract", "pandas.DataFrame"))]
    return None


def s_call_abstract(eng, st, f, pos, kw):
    if f.a == "pandas.DataFrame":
        data = pos[0] if pos else kw.get("data")
        res = N.VNp(fresh("np:DataFrame", N.NP))
        calls = _trace(st, "df_calls")
        return [("ok", st.setghost("df_calls", calls + ({"data": data, "columns": kw.get("columns"), "state": st, "res": res,
                                                           "extra": sorted(set(kw) - {"data", "columns"}), "npos": len(pos)},)), res)]
    return None


HOOKS_S = chain_hooks({"call_method": s_call_method, "setitem": s_setitem, "getattr": s_getattr, "call_abstract": s_call_abstract}, HOOKS)


def _sample_pre(E):
    me = E["self"]
    dl = at(E.s0, me_model(E.s0, me), "reactions")
    return z3.And(_si_pre(E), E["n"].t >= 0, WF(E, E.s0, dl))


def me_model(st, me):
    return at(st, me, "model")


def rows_ok(st0, me, st, ns0, T, upto, with_written=True):
    """rows [0, upto): written, at counter ns0 + (r+1)*T, holding the point reached at that counter, which passed the guard"""
    r = qv("rr")
    rows, row_it, written, pts = _g(st, "rows"), _g(st, "row_it"), _g(st, "written"), _g(st, "pts")
    return FA([r], z3.Implies(z3.And(0 <= r, r < upto),
                              z3.And(written[r], row_it[r] == ns0 + (r + 1) * T, rows[r] == pts[row_it[r]], okpt(st0, me, rows[r]))),
              patterns=[rows[r], written[r]])


def only_rows(st, upto):
    r = qv("wr")
    written = _g(st, "written")
    return FA([r], z3.Implies(written[r], z3.And(0 <= r, r < upto)), patterns=[written[r]])


def _sample_inv(E, Lc):
    me, st, k = E["self"], Lc.st, Lc.i
    T, ns0, n = at(E.s0, me, "thinning").t, at(E.s0, me, "n_samples").t, E["n"].t
    m = qv("pm")
    pts = _g(st, "pts")
    filled = k / T                                                       # iterations done // thinning (thinning >= 1)
    arr = st.ghost.get("rows_of")
    return z3.And(Lc.n == T * n,
                  at(st, me, "n_samples").t == ns0 + k,
                  z3.Implies(k >= 1, z3.And(at(st, me, "prev").t == pts[ns0 + k], okpt(E.s0, me, at(st, me, "prev").t))),
                  rows_ok(E.s0, me, st, ns0, T, filled),
                  only_rows(st, filled),
                  z3.BoolVal(arr is None or arr.eq(samples_array(n, at(E.s0, me, "warmup").t))))


def _sample_loop_mod(E, Lc):
    A = samples_array(E["n"].t, at(E.s0, E["self"], "warmup").t)
    return _si_mod(E)[:4] + [("ghost", "pts", lambda st: fresh("pts", IntNP)), ("ghost", "rows", lambda st: fresh("rows", IntNP)),
                             ("ghost", "row_it", lambda st: fresh("row_it", IntInt)), ("ghost", "written", lambda st: fresh("written", IntBool)),
                             ("ghost", "rows_of", lambda st: A)]


def frame_columns(E, fluxes):
    """the returned frame: pd.DataFrame(<data>, columns=<names>) - one call, data and names as documented"""
    me, s0, s1 = E["self"], E.s0, E.s1
    calls = _trace(s1, "df_calls")
    if len(calls) != 1 or calls[0]["res"] is not E.res or calls[0]["extra"] or not isinstance(calls[0]["data"], N.VNp) \
            or not isinstance(calls[0]["columns"], VObj):
        return [z3.BoolVal(False)], None
    c = calls[0]
    rec = c["state"].objs[c["columns"].oid]
    if "elem" not in rec or rec["elem"].sort().range() != (Id if fluxes else N.NP):
        return [z3.BoolVal(False)], None
    j = qv("cj")
    model = me_model(s0, me)
    if fluxes:
        n_r, e_r = L(s0, at(s0, model, "reactions"))
        ids = E.eng.heap_arr(s0, "_id")
        cols = z3.And(rec["len"] == n_r, FA([j], z3.Implies(z3.And(0 <= j, j < n_r), rec["elem"][j] == ids[e_r[j]]), patterns=[rec["elem"][j]]))
    else:
        n_v, e_v = L(s0, at(s0, model, "variables"))
        cols = z3.And(rec["len"] == n_v, FA([j], z3.Implies(z3.And(0 <= j, j < n_v), rec["elem"][j] == N.term("attr.name", e_v[j])),
                                            patterns=[rec["elem"][j]]))
    return [cols], c["data"].t


def flux_columns(A, fwd, rev):
    """samples[:, fwd_idx] - samples[:, rev_idx]"""
    return N.term("sub", N.term("getitem", A, N.term("tuple", FULL, fwd)), N.term("getitem", A, N.term("tuple", FULL, rev)))


def _sample_post(fluxes):
    def post(E):
        me, s0, s1 = E["self"], E.s0, E.s1
        T, ns0, n = at(s0, me, "thinning").t, at(s0, me, "n_samples").t, E["n"].t
        A = samples_array(n, at(s0, me, "warmup").t)
        if E.role != "goal":
            # at a call site: what the caller can use (the frame's construction is a ghost trace of the body)
            return z3.And(at(s1, me, "n_samples").t == ns0 + T * n, rows_ok(s0, me, s1, ns0, T, n), only_rows(s1, n))
        cs, data = frame_columns(E, fluxes)
        if data is not None:
            cs.append(data == (flux_columns(A, at(s0, me, "fwd_idx").t, at(s0, me, "rev_idx").t) if fluxes else A))
        arr = s1.ghost.get("rows_of")
        cs.append(z3.BoolVal(arr is None or arr.eq(A)))                 # the rows were written into the array that is returned
        cs.append(at(s1, me, "n_samples").t == ns0 + T * n)             # thinning * n iterations
        cs.append(rows_ok(s0, me, s1, ns0, T, n))                       # row r = the point after (r+1)*thinning iterations; passed the guard
        cs.append(only_rows(s1, n))                                     # exactly the rows 0 .. n-1 were written
        return z3.And(*cs)
    return post


def _sample_mod(E):
    return _sample_loop_mod(E, None) + [("ghost", "df_calls", lambda st: ()), ("ghost", "step_calls", lambda st: ()),
                                        ("ghost", "_reproject_calls", lambda st: ()), ("ghost", "_random_point_calls", lambda st: ())]


def _sample_cases(post):
    out = []
    for fl in (True, False):
        c = Case("fluxes" if fl else "variables", ensures=post(fl))
        c.params_override = {"fluxes": TConc(fl)}
        c.applies = (lambda a, st, fl=fl: isinstance(a["fluxes"], VBool) and z3.is_true(a["fluxes"].t) == fl and
                     (z3.is_true(a["fluxes"].t) or z3.is_false(a["fluxes"].t)))
        c.may_raise = "RuntimeError"
        c.ensures_on_raise = lambda E: z3.BoolVal(True)
        c.modifies_on_raise = _sample_mod
        out.append(c)
    return out


_fl = TConc(True)
_fl.default = VBool(True)


def _achr_self():
    def mk(st, name):
        st, me = sampler_t("ACHRSampler").make(st, name)
        return st.setghost("the_sampler", me), me
    return TCustom(mk)


REG.add(Contract(MA, "ACHRSampler.sample", "C16", [("self", _achr_self()), ("n", TInt()), ("fluxes", _fl)], _sample_cases(_sample_post),
                 pre=_sample_pre, modifies=_sample_mod, axioms=lambda E: rp_axioms(), result=_res_np("DataFrame"),
                 loops={0: LoopSpec(_sample_inv, _sample_loop_mod)}, key="ACHRSampler.sample",
                 note="n >= 0, thinning >= 1, nproj >= 1 (documented: int > 0), n_samples >= 0"))


# ================================================================ optgp.mp_init
def _mi_post(E):
    return z3.BoolVal(E.s1.ghost.get(("global", "sampler")) is E["obj"])


REG.add(Contract(MO, "mp_init", "C14", [("obj", sampler_t("OptGPSampler"))], [Case("any", ensures=_mi_post)],
                 modifies=lambda E: [("ghost", ("global", "sampler"), lambda st: E["obj"])], key="mp_init", props=["C14", "C16"]))


# ================================================================ optgp._sample_chain
INT32_MAX = 2 ** 31 - 1
IINFO32 = z3.Const("np:iinfo(int32)", N.NP)


def c_getattr(eng, st, v, name):
    if isinstance(v, VFunc) and v.kind == "npfunc" and v.a == "numpy.random" and name in ("seed", "randint"):
        return [("ok", st, VFunc("abstract", "numpy.random." + name))]
    if isinstance(v, VConc) and isinstance(v.py, tuple) and v.py[0] == "module" and v.py[1] == "numpy" and name == "iinfo":
        return [("ok", st, VFunc("abstract", "numpy.iinfo"))]
    if isinstance(v, N.VNp) and v.t.eq(IINFO32) and name == "max":
        return [("ok", st, VInt(INT32_MAX))]                        # np.iinfo(np.int32).max
    return None


def c_call_abstract(eng, st, f, pos, kw):
    if f.a == "numpy.iinfo":
        if len(pos) == 1 and isinstance(pos[0], VFunc) and pos[0].kind == "npfunc" and pos[0].a == "numpy.int32":
            return [("ok", st, N.VNp(IINFO32))]
        raise Unsupported("np.iinfo of something else than np.int32")
    if f.a == "numpy.random.seed":
        # the generator is (re)seeded: recorded; a second seeding, or a seeding after a draw, is flagged
        if st.ghost.get("rng_seed") is not None or st.ghost.get("rng_drawn") or len(pos) != 1 or not isinstance(pos[0], VInt):
            return [("ok", st.setghost("rng_bad", True), NONE)]
        return [("ok", st.setghost("rng_seed", pos[0].t), NONE)]
    if f.a == "numpy.random.randint":
        if st.ghost.get("rng_seed") is None:
            st = st.setghost("rng_bad", True)                        # a draw BEFORE the seeding
        return [("ok", st.setghost("rng_drawn", True), N.VNp(fresh("np:random", N.NP)))]
    return None


HOOKS_C = chain_hooks({"getattr": c_getattr, "call_abstract": c_call_abstract, "setitem": s_setitem}, HOOKS)


def _chain_self():
    def mk(st, name):
        st, me = sampler_t("OptGPSampler").make(st, name)
        return st.setghost("the_sampler", me).setghost("chain_mode", True), me
    return TCustom(mk)


def chain_array(n, center):
    """np.zeros((n, center.shape[0]))"""
    return N.term("numpy.zeros", N.term("tuple", N.of_int(n), N.term("getitem", N.term("attr.shape", center), N.of_int(0))))


def chain_rows_ok(st0, me, st, T, upto):
    """rows [0, upto) of the chain: written when the step counter was 1 + (r+1)*thinning (1 = the start-up step), holding the result of
    that step or the random point that replaced it at a re-projection; either passed the guard of step or is a _random_point"""
    r = qv("rr")
    rows, row_it, written, pts = _g(st, "rows"), _g(st, "row_it"), _g(st, "written"), _g(st, "pts")
    w = at(st0, me, "warmup").t
    return FA([r], z3.Implies(z3.And(0 <= r, r < upto),
                              z3.And(written[r], row_it[r] == 1 + (r + 1) * T, z3.Or(rows[r] == pts[row_it[r]], RP(w, rows[r])),
                                     okpt(st0, me, rows[r]))), patterns=[rows[r], written[r]])


KEPT = tuple(k for k in INT_ATTRS + NP_ATTRS if k != "retries")


def _kept(s0, st, me):
    """no field of the sampler but `retries` (bumped by step) is written"""
    return z3.BoolVal(all(at(st, me, k) is at(s0, me, k) for k in KEPT) and at(st, me, "model") is at(s0, me, "model"))


def _rng_ok(E, st):
    seed = st.ghost.get("rng_seed")
    if seed is None or st.ghost.get("rng_bad"):
        return z3.BoolVal(False)
    n, idx = E["args"].items
    return seed == pymod(at(E.s0, E["sampler"], "_seed").t + idx.t, z3.IntVal(INT32_MAX))


def _ns_start(E):
    ns = at(E.s0, E["sampler"], "n_samples").t
    return z3.If(ns > 1, ns, 1)


def _chain_inv(E, Lc):
    me, st, k = E["sampler"], Lc.st, Lc.i
    n = E["args"].items[0].t
    T = at(E.s0, me, "thinning").t
    prev, center, ns = Lc.var("prev"), Lc.var("center"), Lc.var("n_samples")
    if not (isinstance(prev, N.VNp) and isinstance(center, N.VNp) and isinstance(ns, VInt)):
        return z3.BoolVal(False)
    arr = st.ghost.get("rows_of")
    pts = _g(st, "pts")
    w = at(E.s0, me, "warmup").t
    return z3.And(Lc.n == T * n,
                  st.ghost.get("chain_count", z3.IntVal(0)) == k + 1,
                  ns.t == _ns_start(E) + k,
                  okpt(E.s0, me, prev.t), z3.Or(prev.t == pts[k + 1], RP(w, prev.t)),
                  chain_rows_ok(E.s0, me, st, T, k / T), only_rows(st, k / T),
                  z3.BoolVal(arr is None or arr.eq(chain_array(n, at(E.s0, me, "center").t))),
                  _rng_ok(E, st), _kept(E.s0, st, me))


def _chain_loop_mod(E, Lc):
    me = E["sampler"]
    A = chain_array(E["args"].items[0].t, at(E.s0, me, "center").t)
    return [("attr", me, "retries", lambda st: (st, VInt(fresh("retries", z3.IntSort())))),
            ("ghost", "pts", lambda st: fresh("pts", IntNP)), ("ghost", "rows", lambda st: fresh("rows", IntNP)),
            ("ghost", "row_it", lambda st: fresh("row_it", IntInt)), ("ghost", "written", lambda st: fresh("written", IntBool)),
            ("ghost", "rows_of", lambda st: A), ("ghost", "chain_count", lambda st: fresh("chain_count", z3.IntSort())),
            ("ghost", "step_calls", lambda st: ()), ("ghost", "_reproject_calls", lambda st: ()), ("ghost", "_random_point_calls", lambda st: ()),
            ("ghost", "rng_drawn", lambda st: True)]


def _chain_mod(E):
    return _chain_loop_mod(E, None) + [("ghost", "rng_seed", lambda st: fresh("rng_seed", z3.IntSort())), ("ghost", "rng_bad", lambda st: None)]


def _chain_post(E):
    me, s0, s1 = E["sampler"], E.s0, E.s1
    n, idx = E["args"].items
    T = at(s0, me, "thinning").t
    if not (isinstance(E.res, VTuple) and len(E.res.items) == 2 and isinstance(E.res.items[0], VInt) and isinstance(E.res.items[1], N.VNp)):
        return z3.BoolVal(False)
    A = chain_array(n.t, at(s0, me, "center").t)
    arr = s1.ghost.get("rows_of")
    cs = [E.res.items[0].t == at(s1, me, "retries").t,                 # (sampler.retries, samples)
          E.res.items[1].t == A, z3.BoolVal(arr is None or arr.eq(A)),
          chain_rows_ok(s0, me, s1, T, n.t), only_rows(s1, n.t),       # exactly n rows, row r after (r+1)*thinning steps, guard passed
          _kept(s0, s1, me)]                                           # centre / n_samples are updated LOCALLY only
    if E.role == "goal":
        cs.append(_rng_ok(E, s1))                                      # np.random.seed((seed + idx) % (2**31 - 1)) once, before any draw
    return z3.And(*cs)


def _chain_pre(E):
    me = E["sampler"]
    return z3.And(at(E.s0, me, "thinning").t >= 1, at(E.s0, me, "nproj").t >= 1, at(E.s0, me, "n_samples").t >= 0,
                  E["args"].items[0].t >= 0)


def _chain_case():
    c = Case("any", ensures=_chain_post)
    c.may_raise = "RuntimeError"
    c.ensures_on_raise = lambda E: z3.BoolVal(True)
    c.modifies_on_raise = _chain_mod
    return c


def _chain_res(eng, st, E):
    return st, VTuple((VInt(fresh("chain_retries", z3.IntSort())), N.VNp(fresh("np:chain", N.NP))))


REG.add(Contract(MO, "_sample_chain", "C14", [("args", TTuple([TInt(), TInt()])), ("sampler", _chain_self())], [_chain_case()],
                 pre=_chain_pre, modifies=_chain_mod, axioms=lambda E: rp_axioms(), result=_chain_res, props=["C14", "C16"],
                 loops={0: LoopSpec(_chain_inv, _chain_loop_mod)}, key="_sample_chain",
                 note="`sampler` is the module global of cobra.sampling.optgp (set by mp_init) as a ghost parameter; n >= 0, thinning >= 1, "
                      "nproj >= 1, n_samples >= 0"))


# ================================================================ OptGPSampler.sample
REG.add(Contract("multiprocessing/pool.py", "Pool.map", "C14", [("self", TNone())], [Case("any")], assumed=True, key="Pool.map",
                 note="ProcessPool(p, initializer, initargs) / multiprocessing.Pool: every worker runs initializer(*initargs) once on its own "
                      "copy of the arguments as they are when the pool is created; pool.map(f, items, chunksize) returns the list "
                      "[f(items[0]), ..., f(items[len-1])] IN THE ORDER OF THE ITEMS, each f(x) evaluated once by some worker in the state "
                      "the initializer left (for _sample_chain: its proved contract - it writes no sampler field but `retries`, which it "
                      "does not read before returning it, so earlier tasks of the same worker do not matter except for that count); the "
                      "parent's objects are not written by the workers; a task's exception is re-raised in the parent; __exit__ does not "
                      "swallow exceptions"))

RET = z3.Function("task:retries", z3.IntSort(), z3.IntSort())          # what task j returned: (RET(j), CH(j))
CH = z3.Function("task:chain", z3.IntSort(), N.NP)
T_ROWS = z3.Function("task:rows", z3.IntSort(), IntNP)                 # the ghost arrays of task j (see _sample_chain)
T_ROWIT = z3.Function("task:row_it", z3.IntSort(), IntInt)
T_WRITTEN = z3.Function("task:written", z3.IntSort(), IntBool)
T_PTS = z3.Function("task:pts", z3.IntSort(), IntNP)
ISUM = z3.Function("isum", IntInt, z3.IntSort(), z3.IntSort())         # isum(F, n) = F[0] + ... + F[n-1]


def _is_fn(v, kind, name):
    return isinstance(v, VFunc) and v.kind == kind and v.a == name


def o_global(eng, name):
    if name == "ProcessPool":
        return VFunc("abstract", "ProcessPool")
    if name in ("zip", "list"):
        return VFunc("abstract", "py:" + name)
    if name == "_sample_chain":
        return VFunc("abstract", "_sample_chain")         # applied by its proved contract; a direct call is recorded with its arguments
    return None


def o_binop(eng, st, op, a, b):
    """[x] * k  (a one-element list display repeated k times): the sequence x, x, ..., x of length max(k, 0)"""
    import ast
    if isinstance(op, ast.Mult) and isinstance(a, VObj) and a.kind == "list" and isinstance(b, VInt):
        seq = B.to_seq(eng, st, a)
        if seq is not None and seq.known_len == 1:
            x = seq.get(st, z3.IntVal(0))
            n = z3.If(b.t > 0, b.t, 0)
            out = VSeq(n, lambda s, i, x=x: x, known_len=None, tag="replist")
            return [("ok", st, out)]
    return None


def o_getattr(eng, st, v, name):
    if isinstance(v, VObj) and v.cls == "ProcessPool":
        return [("ok", st, VFunc("bound", v, name))]
    if isinstance(v, N.VNp) and name == "astype" and ("ceil", v.t.get_id()) in st.ghost:
        return [("ok", st, VFunc("abstract", "ceil.astype", st.ghost[("ceil", v.t.get_id())]))]
    if isinstance(v, VConc) and isinstance(v.py, tuple) and v.py[0] == "module" and v.py[1] == "numpy" and name in ("ceil", "vstack"):
        return [("ok", st, VFunc("abstract", "numpy." + name))]
    return None


def _task_env(me, w0, c, j, A):
    """entry / exit state and result of task j = _sample_chain((c, j)) in a worker, named by the task functions"""
    s1 = w0.updobj(me.oid, **{"attr:retries": VInt(RET(j))})
    s1 = s1.setghost("rows", T_ROWS(j)).setghost("row_it", T_ROWIT(j)).setghost("written", T_WRITTEN(j)).setghost("pts", T_PTS(j)) \
        .setghost("rows_of", A)
    return {"args": VTuple((VInt(c), VInt(j))), "sampler": me}, s1, VTuple((VInt(RET(j)), N.VNp(CH(j))))


def tasks_ok(eng, me, w0, c, P):
    """for EVERY task index j in [0, P): the post-condition of _sample_chain((c, j)) evaluated in the worker state"""
    j = qv("tj")
    A = chain_array(c, at(w0, me, "center").t)
    a, s1, res = _task_env(me, w0, c, j, A)
    return FA([j], z3.Implies(z3.And(0 <= j, j < P), _chain_post(Env(a, w0, s1, res=res, eng=eng))), patterns=[CH(j)])


def o_call_abstract(eng, st, f, pos, kw):
    if f.a == "_sample_chain":
        out = []
        for k, s, v in eng.apply_contract(st, REG.get("_sample_chain"), list(pos), kw):
            out.append((k, s.setghost("chain_calls", _trace(s, "chain_calls") + ({"pos": tuple(pos), "kw": dict(kw), "res": v},)), v))
        return out
    if f.a == "py:zip":
        if len(pos) == 2 and isinstance(pos[0], VSeq) and pos[0].tag == "replist" and isinstance(pos[1], VSeq) and pos[1].tag == "range":
            a, b = pos
            n = z3.If(a.n < b.n, a.n, b.n)
            out = VSeq(n, lambda s, i: VTuple((a.get(s, i), b.get(s, i))), known_len=None, tag="argsvec")
            return [("ok", st.setghost(("argsvec", id(out)), (a.get(st, z3.IntVal(0)), n)), out)]
        raise Unsupported(f"zip of something else than ([x] * k, range(k)): {pos!r} {[getattr(p, 'tag', None) for p in pos]}")
    if f.a == "py:list":
        if len(pos) == 1 and isinstance(pos[0], VSeq) and pos[0].tag == "argsvec":
            return [("ok", st, pos[0])]
        return eng.construct(st, "list", pos, kw)
    if f.a == "py:sum":
        from pyvc import comprehension as C
        if len(pos) == 1 and isinstance(pos[0], C.VGen) and pos[0].seq.tag == "poolresults" and pos[0].cond is None and isinstance(pos[0].elt, VInt):
            g = pos[0]
            F = fresh("summand", IntInt)
            k = qv("sk")
            st = st.assume(FA([k], F[k] == g.elt_at(k).t, patterns=[F[k]]))
            return [("ok", st.setghost("isum", (F, g.seq.n)), VInt(ISUM(F, g.seq.n)))]
        return None
    if f.a == "numpy.ceil":
        # ASSUMED exact: float division of two ints and np.ceil (true for operands below 2**53); ceil(x / y).astype(int) = the least
        # integer c with c * y >= x (y > 0)
        if len(pos) == 1 and isinstance(pos[0], VReal) and z3.is_app_of(pos[0].v, z3.Z3_OP_DIV):
            num, den = pos[0].v.arg(0), pos[0].v.arg(1)
            c = fresh("ceil", z3.IntSort())
            cr = z3.ToReal(c)
            st = st.assume(z3.Implies(den > 0, z3.And(cr * den >= num, (cr - 1) * den < num)), z3.Implies(z3.And(den > 0, num >= 0), c >= 0))
            out = N.VNp(fresh("np:ceil", N.NP))
            return [("ok", st.setghost(("ceil", out.t.get_id()), c), out)]
        raise Unsupported("np.ceil of something else than an int / int quotient")
    if f.a == "ceil.astype":
        if len(pos) == 1 and isinstance(pos[0], VClass) and pos[0].name == "int" and not kw:
            return [("ok", st, VInt(f.b))]
        raise Unsupported("np.ceil(..).astype(<not int>)")
    if f.a == "numpy.vstack":
        out = N.VNp(fresh("np:vstack", N.NP))
        return [("ok", st.setghost("vstack", {"list": pos[0] if pos else None, "state": st, "res": out}), out)]
    if f.a == "ProcessPool":
        # recorded; the state every worker starts in is the state at this moment after initializer(*initargs) - by the PROVED contract of
        # mp_init when that is the initializer
        procs = pos[0] if pos else kw.get("processes")
        init, args = kw.get("initializer"), kw.get("initargs")
        w0 = None
        if _is_fn(init, "repo", "mp_init") and isinstance(args, VTuple) and len(args.items) == 1 and isinstance(args.items[0], VObj):
            outs = list(eng.apply_contract(st, REG.get("mp_init"), list(args.items), {}))
            if len(outs) == 1 and outs[0][0] == "ok":
                w0 = outs[0][1]
        from pyvc.state import alloc_obj
        st2, pool = alloc_obj(st, "ProcessPool", {})
        info = {"w0": w0, "processes": procs, "initializer": init, "initargs": args, "extra_pos": len(pos) > 1,
                "extra_kw": sorted(set(kw) - {"processes", "initializer", "initargs"})}
        return [("ok", st2.setghost(("pool", pool.oid), info).setghost("pool_trace", _trace(st2, "pool_trace") + (("create", pool.oid, info),)), pool)]
    return None


def _pool_map(eng, st, pool, pos, kw):
    info = st.ghost.get(("pool", pool.oid))
    if info is None or len(pos) != 2 or not isinstance(pos[1], VSeq) or pos[1].tag != "argsvec":
        raise Unsupported("pool.map of something else than the (n_process, index) pairs")
    f, items = pos
    w0 = info["w0"]
    x, P = st.ghost[("argsvec", id(items))]
    if w0 is None or not _is_fn(f, "abstract", "_sample_chain") or not isinstance(x, VInt):
        raise Unsupported("pool.map with an initializer / task this module knows nothing about")
    from pyvc.apply import ASSUMED_USED
    ASSUMED_USED["Pool.map"] = REG.get("Pool.map").note
    me = w0.ghost[("global", "sampler")]
    con = REG.get("_sample_chain")
    # the precondition of the task is an OBLIGATION, for an arbitrary task index, in the worker state (with the parent's facts)
    j0 = fresh("task_index", z3.IntSort())
    from pyvc.state import State
    sw = State(st.pc, st.frames, w0.heap, w0.objs, w0.ghost).assume(0 <= j0, j0 < P)
    eng.oblige(sw, con.pre(Env({"args": VTuple((x, VInt(j0))), "sampler": me}, sw, eng=eng)), "call:_sample_chain/pre (pool task)", kind="callpre")
    # the items are exactly the pairs (n_process, j), j = 0 .. P-1
    it = items.get(sw, j0)
    eng.oblige(sw, z3.And(it.items[0].t == x.t, it.items[1].t == j0) if isinstance(it, VTuple) and len(it.items) == 2 and
               all(isinstance(y, VInt) for y in it.items) else z3.BoolVal(False), "pool.map/item j is (n_process, j)", kind="side")
    call = {"f": f, "x": x, "P": P, "chunksize": kw.get("chunksize"), "extra": sorted(set(kw) - {"chunksize"}), "w0": w0}
    st = st.setghost("pool_trace", _trace(st, "pool_trace") + (("map", pool.oid, call),))
    ok = st.assume(tasks_ok(eng, me, w0, x.t, P))
    res = VSeq(P, lambda s, i: VTuple((VInt(RET(i)), N.VNp(CH(i)))), known_len=None, tag="poolresults")
    return [("ok", ok, res), ("raise", st, VExc("RuntimeError"))]


def o_call_method(eng, st, recv, name, pos, kw):
    if isinstance(recv, VObj) and recv.cls == "ProcessPool":
        tr = _trace(st, "pool_trace")
        if name == "__enter__":
            return [("ok", st.setghost("pool_trace", tr + (("enter", recv.oid, None),)), recv)]
        if name == "__exit__":
            return [("ok", st.setghost("pool_trace", tr + (("exit", recv.oid, None),)), VBool(False))]
        if name == "map":
            return _pool_map(eng, st, recv, pos, kw)
        raise Unsupported(f"ProcessPool.{name}")
    return None


HOOKS_O = chain_hooks({"global": o_global, "binop": o_binop, "getattr": o_getattr, "call_abstract": o_call_abstract,
                       "call_method": o_call_method}, HOOKS_S)


def _optgp_self():
    def mk(st, name):
        st, me = sampler_t("OptGPSampler").make(st, name)
        return st.setghost("the_sampler", me), me
    return TCustom(mk)


def _osample_pre(E):
    return z3.And(_sample_pre(E), at(E.s0, E["self"], "processes").t >= 1)


def global_mean(ns, center, chains, total):
    """(n_samples * center + np.atleast_2d(chains).sum(0)) / (n_samples + total)"""
    return N.term("div", N.term("add", N.term("mul", N.of_int(ns), center),
                                N.term("call", N.term("attr.sum", N.term("numpy.atleast_2d", chains)), N.of_int(0))), N.of_int(ns + total))


def _osample_post(fluxes):
    def post(E):
        me, s0, s1 = E["self"], E.s0, E.s1
        T, ns0, n, P = at(s0, me, "thinning").t, at(s0, me, "n_samples").t, E["n"].t, at(s0, me, "processes").t
        tr = _trace(s1, "pool_trace")
        if E.role != "goal":
            # at a call site: the number of samples generated (c = n_process, existentially: a fresh constant)
            c = fresh("n_process", z3.IntSort())
            total = z3.If(P > 1, c * P, n)
            return z3.And(z3.Implies(P > 1, z3.And(c * P >= n, (c - 1) * P < n)), at(s1, me, "n_samples").t == ns0 + total)
        cs, data = frame_columns(E, fluxes)
        if data is None:
            return z3.And(*cs)
        fwd, rev = at(s0, me, "fwd_idx").t, at(s0, me, "rev_idx").t
        if len(tr) == 0:
            # ---- serial: one chain of n samples, index 0, run on the sampler itself
            total = n
            chains = chain_array(n, at(s0, me, "center").t)
            calls = _trace(s1, "chain_calls")
            good = (len(calls) == 1 and len(calls[0]["pos"]) == 1 and not calls[0]["kw"] and isinstance(calls[0]["pos"][0], VTuple)
                    and len(calls[0]["pos"][0].items) == 2 and all(isinstance(y, VInt) for y in calls[0]["pos"][0].items))
            cs.append(z3.BoolVal(bool(good)))
            if good:
                cs.append(z3.And(calls[0]["pos"][0].items[0].t == n, calls[0]["pos"][0].items[1].t == 0))      # _sample_chain((n, 0))
            cs += [z3.Not(P > 1), z3.BoolVal(s1.ghost.get(("global", "sampler")) is me),
                   chain_rows_ok(s0, me, s1, T, n), only_rows(s1, n)]
        else:
            # ---- parallel: `processes` chains of ceil(n / processes) samples each, chain j with index j, results in index order
            if len(tr) != 4 or [t[0] for t in tr] != ["create", "enter", "map", "exit"] or len({t[1] for t in tr}) != 1:
                return z3.BoolVal(False)
            info, call = tr[0][2], tr[2][2]
            c = call["x"].t
            total = c * P
            args = info["initargs"]
            cs.append(z3.BoolVal(_is_fn(info["initializer"], "repo", "mp_init") and not info["extra_pos"] and not info["extra_kw"]
                                 and isinstance(args, VTuple) and len(args.items) == 1 and args.items[0] is me
                                 and _is_fn(call["f"], "abstract", "_sample_chain") and not call["extra"]
                                 and isinstance(call["chunksize"], VInt)))
            cs.append(info["processes"].t == P if isinstance(info["processes"], VInt) else z3.BoolVal(False))
            cs += [P > 1, call["P"] == P, c * P >= n, (c - 1) * P < n,           # n_process = ceil(n / processes), one task per process
                   total >= n, total < n + P]                                     # at least n, fewer than n + processes rows
            # the workers copy the sampler as it is at entry (nothing was written before the pool is created)
            w0 = call["w0"]
            cs.append(z3.BoolVal(all(at(w0, me, k) is at(s0, me, k) for k in INT_ATTRS + NP_ATTRS)))
            vs = s1.ghost.get("vstack")
            if vs is None or not isinstance(vs["list"], VObj) or "elem" not in vs["state"].objs[vs["list"].oid]:
                return z3.BoolVal(False)
            rec = vs["state"].objs[vs["list"].oid]
            if rec["elem"].sort().range() != N.NP:
                return z3.BoolVal(False)
            chains = vs["res"].t
            j = qv("vj")
            cs.append(z3.And(rec["len"] == P, FA([j], z3.Implies(z3.And(0 <= j, j < P), rec["elem"][j] == CH(j)), patterns=[rec["elem"][j]])))
            cs.append(tasks_ok(E.eng, me, w0, c, P))
            sm = s1.ghost.get("isum")
            if sm is None:
                return z3.BoolVal(False)
            k = qv("rk")
            cs.append(z3.And(at(s1, me, "retries").t == at(s0, me, "retries").t + ISUM(sm[0], sm[1]), sm[1] == P,
                             FA([k], sm[0][k] == RET(k), patterns=[sm[0][k]])))
        cs.append(data == (flux_columns(chains, fwd, rev) if fluxes else chains))
        cs.append(at(s1, me, "n_samples").t == ns0 + total)                      # the number of samples ACTUALLY generated
        c1 = at(s1, me, "center")
        cs.append(c1.t == global_mean(ns0, at(s0, me, "center").t, chains, total) if isinstance(c1, N.VNp) else z3.BoolVal(False))
        return z3.And(*cs)
    return post


def _osample_mod(E):
    me = E["self"]
    return [("attr", me, "n_samples", lambda st: (st, VInt(fresh("n_samples", z3.IntSort())))),
            ("attr", me, "retries", lambda st: (st, VInt(fresh("retries", z3.IntSort())))),
            ("attr", me, "center", lambda st: (st, N.VNp(fresh("np:center", N.NP)))),
            ("ghost", ("global", "sampler"), lambda st: me), ("ghost", "pool_trace", lambda st: ()), ("ghost", "vstack", lambda st: None),
            ("ghost", "isum", lambda st: None), ("ghost", "df_calls", lambda st: ()), ("ghost", "chain_calls", lambda st: ())] + _chain_mod(Env({"args": VTuple((E["n"], VInt(0))), "sampler": me}, E.s0))[1:]


def _osample_cases():
    out = _sample_cases(_osample_post)
    for c in out:
        c.modifies_on_raise = _osample_mod
        c.ensures_on_raise = lambda E: z3.BoolVal([t[1] for t in _trace(E.s1, "pool_trace") if t[0] == "enter"] ==
                                                  [t[1] for t in _trace(E.s1, "pool_trace") if t[0] == "exit"])
    return out


REG.add(Contract(MO, "OptGPSampler.sample", "C14", [("self", _optgp_self()), ("n", TInt()), ("fluxes", _fl)], _osample_cases(),
                 pre=_osample_pre, modifies=_osample_mod, axioms=lambda E: rp_axioms(), result=_res_np("DataFrame"), props=["C14", "C16"],
                 key="OptGPSampler.sample",
                 note="n >= 0, processes >= 1, thinning >= 1, nproj >= 1, n_samples >= 0; the pool by the assumed ordered-map contract Pool.map; "
                      "n / processes and np.ceil exact"))


# ================================================================ sampling.sample (dispatch)
REG.add(Contract(MH, "HRSampler.__init__", "C16", [("self", TNone())], [Case("any")], assumed=True, key="HRSampler.__init__@samplers",
                 note="OptGPSampler(model, processes=, thinning=, seed=) / ACHRSampler(model, thinning=, seed=): a new sampler whose `thinning` "
                      "(and `processes`) are the arguments, n_samples = 0, nproj >= 1, whose `model` is a private copy of the model with a "
                      "well-formed reaction DictList; ValueError / TypeError for models that cannot be sampled.  SINCE contracts/c16_hrinit.py: "
                      "HRSampler.__init__ itself is PROVED (key HRSampler.__init__) and these facts follow from its post-condition (lemma "
                      "C16/lemma/dispatch/..., nproj >= 1 given one solver variable); the SUBCLASS constructors ACHRSampler.__init__ / OptGPSampler.__init__ are proved there too "
                      "(super().__init__ by contract, arguments passed on unchanged, then warmup / n_warmup / center / prev / processes); this "
                      "contract remains as the INTERFACE the dispatch hook of sampling.sample creates the sampler object by"))


def d_global(eng, name):
    if name in ("OptGPSampler", "ACHRSampler"):
        return VFunc("abstract", "new:" + name)
    return None


def d_call_abstract(eng, st, f, pos, kw):
    if f.a.startswith("new:"):
        cls = f.a[4:]
        from pyvc.apply import ASSUMED_USED
        ASSUMED_USED["HRSampler.__init__@samplers"] = REG.get("HRSampler.__init__@samplers").note
        st, me = sampler_t(cls).make(st, fresh_name("new_sampler"))
        th = kw.get("thinning")
        if not isinstance(th, VInt):
            raise Unsupported("sampler constructor without an integer thinning")
        upd = {"attr:thinning": th, "attr:n_samples": VInt(0)}
        if cls == "OptGPSampler":
            pr = kw.get("processes")
            if not isinstance(pr, VInt):
                raise Unsupported("OptGPSampler without an integer processes")
            upd["attr:processes"] = pr
        st = st.updobj(me.oid, **upd)
        st = st.assume(at(st, me, "nproj").t >= 1, WF(Env({}, st, eng=eng), st, at(st, me_model(st, me), "reactions")))
        st = st.setghost("ctor_calls", _trace(st, "ctor_calls") + ({"cls": cls, "pos": tuple(pos), "kw": dict(kw), "res": me},))
        return [("ok", st, me), ("raise", st, VExc("ValueError")), ("raise", st, VExc("TypeError"))]
    return None


def d_call_method(eng, st, recv, name, pos, kw):
    if isinstance(recv, VObj) and recv.cls in ("ACHRSampler", "OptGPSampler") and name == "sample":
        out = []
        for k, s, v in eng.apply_contract(st, REG.get(recv.cls + ".sample"), [recv] + list(pos), kw):
            out.append((k, s.setghost("sample_calls", _trace(s, "sample_calls") + ({"recv": recv, "pos": tuple(pos), "kw": dict(kw), "res": v},)), v))
        return out
    return None


HOOKS_D = chain_hooks({"global": d_global, "call_abstract": d_call_abstract, "call_method": d_call_method}, HOOKS_O)


def _disp_post(which):
    def post(E):
        s0, s1 = E.s0, E.s1
        ctor, smp, dfs = _trace(s1, "ctor_calls"), _trace(s1, "sample_calls"), _trace(s1, "df_calls")
        if len(ctor) != 1 or len(smp) != 1 or len(dfs) != 1:
            return z3.BoolVal(False)
        c, sc, df = ctor[0], smp[0], dfs[0]
        want_kw = {"thinning": E["thinning"], "seed": E["seed"]}
        if which == "optgp":
            want_kw["processes"] = E["processes"]                      # processes passed on (OptGP only)
        ok = (c["cls"] == {"optgp": "OptGPSampler", "achr": "ACHRSampler"}[which] and len(c["pos"]) == 1 and c["pos"][0] is E["model"]
              and set(c["kw"]) == set(want_kw) and all(c["kw"][k] is v for k, v in want_kw.items())
              and sc["recv"] is c["res"] and len(sc["pos"]) == 1 and sc["pos"][0] is E["n"] and not sc["kw"]       # sampler.sample(n)
              and df["res"] is E.res and df["npos"] == 0 and df["data"] is sc["res"] and not df["extra"] and isinstance(df["columns"], VObj))
        cs = [z3.BoolVal(bool(ok))]
        if ok:
            rec = df["state"].objs[df["columns"].oid]
            n_r, e_r = L(s0, at(s0, E["model"], "reactions"))
            ids = E.eng.heap_arr(s0, "_id")
            j = qv("dj")
            cs.append(z3.And(rec["len"] == n_r, FA([j], z3.Implies(z3.And(0 <= j, j < n_r), rec["elem"][j] == ids[e_r[j]]),
                                                    patterns=[rec["elem"][j]])))
        return z3.And(*cs)
    return post


def _disp_cases():
    out = []
    for which in ("optgp", "achr"):
        c = Case(which, requires=lambda E, which=which: E["method"].t == id_lit(which), ensures=_disp_post(which))
        c.may_raise = "Exception"               # the constructor (ValueError / TypeError) or the walk (RuntimeError) gives up
        # ... and only they: an exception leaves only after the right constructor was called (never the dispatch's own ValueError)
        c.ensures_on_raise = lambda E, which=which: z3.BoolVal(
            E.exc in ("ValueError", "TypeError", "RuntimeError") and len(_trace(E.s1, "ctor_calls")) == 1
            and _trace(E.s1, "ctor_calls")[0]["cls"] == {"optgp": "OptGPSampler", "achr": "ACHRSampler"}[which])
        c.modifies_on_raise = lambda E: _disp_mod(E)
        out.append(c)
    out.append(Case("other", requires=lambda E: z3.And(E["method"].t != id_lit("optgp"), E["method"].t != id_lit("achr")),
                    ensures=lambda E: z3.BoolVal(not _trace(E.s1, "ctor_calls")), raises="ValueError"))
    return out


def _disp_mod(E):
    return [("ghost", k, lambda st: ()) for k in ("ctor_calls", "sample_calls", "df_calls", "pool_trace", "chain_calls", "step_calls",
                                                   "_reproject_calls", "_random_point_calls")] + \
        [("ghost", k, lambda st: None) for k in ("vstack", "isum", "rows_of", "rng_bad", "rng_drawn", ("global", "sampler"))] + \
        [("ghost", "pts", lambda st: fresh("pts", IntNP)), ("ghost", "rows", lambda st: fresh("rows", IntNP)),
         ("ghost", "row_it", lambda st: fresh("row_it", IntInt)), ("ghost", "written", lambda st: fresh("written", IntBool)),
         ("ghost", "chain_count", lambda st: fresh("chain_count", z3.IntSort())), ("ghost", "rng_seed", lambda st: fresh("rng_seed", z3.IntSort()))]


def _disp_pre(E):
    return z3.And(WF(E, E.s0, at(E.s0, E["model"], "reactions")), E["n"].t >= 0, E["thinning"].t >= 1, E["processes"].t >= 1)


from pyvc.values import id_lit  # noqa
_seed_t = TInt()
REG.add(Contract(MS, "sample", "C16", [("model", _model_t()), ("n", TInt()), ("method", TStr()), ("thinning", TInt()), ("processes", TInt()),
                                       ("seed", _seed_t)], _disp_cases(), pre=_disp_pre, modifies=_disp_mod, result=_res_np("DataFrame"),
                 key="sampling.sample", note="n >= 0, thinning >= 1, processes >= 1; the sampler constructors by the assumed contract "
                                             "HRSampler.__init__@samplers"))


# ================================================================ HRSampler.validate (the decision table, row by row)
# ASSUMED row-wise semantics of the numpy operations validate() ends with (everything before is data flow through the opaque algebra):
# for an arbitrary row i, RV(t) is the number in row i of the one-dimensional array t (a scalar is broadcast: RV(t) is the scalar);
# `a < b`, `a <= b`, `a > b`, `-a`, `a & b` act row by row; `codes[mask] = "v"` replaces exactly the rows where the mask holds;
# `codes[mask] = np.char.add(codes[mask], "l")` appends the letter to exactly those rows.  The ghost `code_row` is the string in row i.
RV = z3.Function("row:value", N.NP, z3.RealSort())
_CMP = {"np:lt/2": lambda a, b: a < b, "np:le/2": lambda a, b: a <= b, "np:gt/2": lambda a, b: a > b, "np:ge/2": lambda a, b: a >= b}


def row_real(t):
    if z3.is_app(t) and t.decl().name() == "np:neg/1":
        return -row_real(t.arg(0))
    return RV(t)


def row_bool(t):
    nm = t.decl().name() if z3.is_app(t) else ""
    if nm == "np:and/2":
        a, b = row_bool(t.arg(0)), row_bool(t.arg(1))
        return None if a is None or b is None else z3.And(a, b)
    if nm in _CMP:
        return _CMP[nm](row_real(t.arg(0)), row_real(t.arg(1)))
    return None


def v_setitem(eng, st, obj, idx, val):
    if not (isinstance(obj, N.VNp) and isinstance(idx, N.VNp)):
        return None
    mask = row_bool(idx.t)
    if mask is None:
        raise Unsupported("assignment through an index that is not a row-wise comparison mask")
    arr = st.ghost.get("codes_arr")
    if arr is not None and not arr.eq(obj.t):
        raise Unsupported("mask assignment into a second array")
    cur = st.ghost.get("code_row", z3.StringVal(""))          # np.repeat("", k): every row starts empty
    from pyvc.apply import ASSUMED_USED
    ASSUMED_USED["numpy.rowwise"] = REG.get("numpy.rowwise").note
    if isinstance(val, VConc) and isinstance(val.py, str):
        new = z3.If(mask, z3.StringVal(val.py), cur)
        st = st.setghost("flux_terms", _parse_valid(idx.t))
    elif isinstance(val, N.VNp) and z3.is_app(val.t) and val.t.decl().name() == "np:numpy.char.add/2" \
            and val.t.arg(0).eq(N.term("getitem", obj.t, idx.t)) and val.t.arg(1).decl().name() == "np:of_id":
        letter = [k for k, v in _LIT_NAMES.items() if v.eq(val.t.arg(1).arg(0))]
        if len(letter) != 1:
            raise Unsupported("np.char.add with an unknown letter")
        new = z3.If(mask, z3.Concat(cur, z3.StringVal(letter[0])), cur)
    else:
        raise Unsupported("mask assignment of something else than a letter / np.char.add(codes[mask], letter)")
    return [("ok", st.setghost("codes_arr", obj.t).setghost("code_row", new), NONE)]


_LIT_NAMES = {k: id_lit(k) for k in ("v", "l", "u", "e")}


def _parse_valid(mask):
    """the right-hand side `b` and the `bounds` matrix the code used, read off the term of the `valid` mask (flux space: they are
    np.array(<list built by a comprehension over the model>) resp. its transpose - the CONTENT of those python lists is not tracked)"""
    try:
        nm = lambda t: t.decl().name()
        feas = mask.arg(0).arg(0).arg(0)                       # and(and(lt(feas, tol), gt(lb, -btol)), gt(ub, -btol))
        b = feas.arg(0).arg(0).arg(0).arg(1)                   # call(axis)(attr.max(numpy.abs(sub(., b))), 1)
        lb = mask.arg(0).arg(1).arg(0)
        if nm(lb) == "np:numpy.minimum/2":
            lb = lb.arg(0)
        bounds = lb.arg(0).arg(0).arg(1).arg(0)                # call(axis)(attr.min(sub(samples, getitem(bounds, (0,)))), 1)
        ok = (nm(b) == "np:numpy.array/1" and z3.is_const(b.arg(0)) and nm(b.arg(0)).startswith("np:pylist")
              and nm(bounds) == "np:attr.T/1" and nm(bounds.arg(0)) == "np:numpy.array/1" and nm(bounds.arg(0).arg(0)).startswith("np:pylist"))
        return (b, bounds) if ok or nm(b) == "np:attr.b/1" else None
    except Exception:  # noqa
        return None
REG.add(Contract("numpy", "rowwise", "C16", [("self", TNone())], [Case("any")], assumed=True, key="numpy.rowwise",
                 note="row-wise semantics of <, <=, >, unary -, &, boolean-mask assignment `a[mask] = s` and `a[mask] = np.char.add(a[mask], s)` "
                      "on one-dimensional arrays (scalars broadcast); np.repeat('', k) is k empty strings"))


def v_global(eng, name):
    if name == "create_stoichiometric_matrix":
        return VFunc("abstract", "create_stoichiometric_matrix")
    return None


def v_call_abstract(eng, st, f, pos, kw):
    if f.a == "create_stoichiometric_matrix":
        return [("ok", st, N.VNp(z3.Const("np:create_stoichiometric_matrix(self.model)", N.NP)))]
    return None


HOOKS_V = chain_hooks({"setitem": v_setitem, "global": v_global, "call_abstract": v_call_abstract}, HOOKS)


def _vmodel_t():
    return TObj("Model", {"reactions": TList("np"), "variables": TList("np"), "metabolites": TList("np"), "constraints": N.TNp()})


def _vsampler_t():
    attrs = {k: TInt() for k in INT_ATTRS}
    attrs.update({k: N.TNp() for k in NP_ATTRS})
    attrs["model"] = _vmodel_t()
    return TObj("HRSampler", attrs)


def _vshape(E):
    s2 = N.term("numpy.atleast_2d", E["samples"].t)
    cols = N.term("getitem", N.term("attr.shape", s2), N.of_int(1))
    model = at(E.s0, E["self"], "model")
    n_r = E.s0.objs[at(E.s0, model, "reactions").oid]["len"]
    n_v = E.s0.objs[at(E.s0, model, "variables").oid]["len"]
    return s2, N.truthy(N.term("eq", cols, N.of_int(n_r))), N.truthy(N.term("eq", cols, N.of_int(n_v)))


def code_table(f, lb, ub, tol, btol):
    """the documented letters: v = feasible in bounds and equalities; l / u = a lower / upper bound violated; e = an equality violated"""
    S = z3.StringVal
    return z3.Concat(z3.If(z3.And(f < tol, lb > -btol, ub > -btol), S("v"), S("")), z3.If(lb <= -btol, S("l"), S("")),
                     z3.If(ub <= -btol, S("u"), S("")), z3.If(f > tol, S("e"), S("")))


def _v_terms(E, s2, Smat, b, bounds, with_ineq):
    prob = at(E.s0, E["self"], "problem").t
    row = lambda a, i: N.term("getitem", a, N.term("tuple", N.of_int(i)))
    ax1 = lambda name, x: N.term("call(axis)", N.term("attr." + name, x), N.of_int(1))
    T_ = lambda x: N.term("attr.T", x)
    feas = ax1("max", N.term("numpy.abs", N.term("sub", T_(N.term("call", N.term("attr.dot", Smat), T_(s2))), b)))
    lb = ax1("min", N.term("sub", s2, row(bounds, 0)))
    ub = ax1("min", N.term("sub", row(bounds, 1), s2))
    if with_ineq:
        consts = T_(N.term("call", N.term("attr.dot", N.term("attr.inequalities", prob)), T_(s2)))
        pb = N.term("attr.bounds", prob)
        lb = N.term("numpy.minimum", lb, ax1("min", N.term("sub", consts, row(pb, 0))))
        ub = N.term("numpy.minimum", ub, ax1("min", N.term("sub", row(pb, 1), consts)))
    return feas, lb, ub


def _v_post(space):
    def post(E):
        me, s0, s1 = E["self"], E.s0, E.s1
        s2, is_flux, is_var = _vshape(E)
        prob = at(s0, me, "problem").t
        tol, btol = RV(at(s0, me, "feasibility_tol").t), RV(at(s0, me, "bounds_tol").t)
        code = s1.ghost.get("code_row")
        arr = s1.ghost.get("codes_arr")
        if code is None or arr is None or not isinstance(E.res, N.VNp):
            return z3.BoolVal(False)
        if space == "flux":
            Smat = z3.Const("np:create_stoichiometric_matrix(self.model)", N.NP)
            b = bounds = None                      # built from comprehensions over the model (opaque lists): taken from the code's terms
        else:
            Smat, b, bounds = N.term("attr.equalities", prob), N.term("attr.b", prob), N.term("attr.variable_bounds", prob)
        ineq = z3.And(is_var, N.truthy(N.term("getitem", N.term("attr.shape", N.term("attr.inequalities", prob)), N.of_int(0))))
        cs = [E.res.t == arr]                      # the array of codes is what is returned
        if space == "var":
            tabs = []
            for w in (True, False):
                f, lb, ub = _v_terms(E, s2, Smat, b, bounds, w)
                tabs.append(code_table(RV(f), RV(lb), RV(ub), tol, btol))
            cs.append(code == z3.If(ineq, tabs[0], tabs[1]))
        else:
            fl = s1.ghost.get("flux_terms")
            if fl is None or fl[0].decl().name() != "np:numpy.array/1":
                return z3.BoolVal(False)
            tabs = []
            for w in (True, False):
                f, lb, ub = _v_terms(E, s2, Smat, fl[0], fl[1], w)
                tabs.append(code_table(RV(f), RV(lb), RV(ub), tol, btol))
            cs.append(code == z3.If(ineq, tabs[0], tabs[1]))
        # consequences of the table (documented: "a code of 1 to 3 letters", 'v' = feasible): stated for a residual that is not EXACTLY
        # the tolerance (at feasibility == feasibility_tol, and for NaN, the code is the EMPTY string - see the finding in the docstring)
        f, lb, ub = _v_terms(E, s2, Smat, b if space == "var" else s1.ghost.get("flux_terms")[0],
                             bounds if space == "var" else s1.ghost.get("flux_terms")[1], False)
        fr = RV(f)
        cs.append(z3.Implies(z3.And(z3.Not(ineq), fr != tol), z3.And(z3.Length(code) >= 1, z3.Length(code) <= 3)))
        cs.append(z3.Implies(z3.Not(ineq), z3.And((code == z3.StringVal("v")) == z3.And(fr < tol, RV(lb) > -btol, RV(ub) > -btol),
                                                  z3.Contains(code, z3.StringVal("l")) == (RV(lb) <= -btol),
                                                  z3.Contains(code, z3.StringVal("u")) == (RV(ub) <= -btol),
                                                  z3.Contains(code, z3.StringVal("e")) == (fr > tol))))
        return z3.And(*cs)
    return post


def _v_cases():
    flux = Case("flux_space", requires=lambda E: _vshape(E)[1], ensures=_v_post("flux"))
    var = Case("variable_space", requires=lambda E: z3.And(z3.Not(_vshape(E)[1]), _vshape(E)[2]), ensures=_v_post("var"))
    other = Case("wrong_columns", requires=lambda E: z3.And(z3.Not(_vshape(E)[1]), z3.Not(_vshape(E)[2])), raises="ValueError")
    return [flux, var, other]


REG.add(Contract(MH, "HRSampler.validate", "C16", [("self", _vsampler_t()), ("samples", N.TNp())], _v_cases(),
                 modifies=lambda E: [("ghost", "code_row", lambda st: None), ("ghost", "codes_arr", lambda st: None),
                                     ("ghost", "flux_terms", lambda st: None)],
                 result=_res_np("codes"), key="HRSampler.validate",
                 note="row-wise semantics of the final numpy operations assumed (contract numpy.rowwise)"))


# ================================================================ HRSampler.batch (a generator, executed eagerly)
def b_yield(eng, st, v):
    return [("ok", st.setghost("yields", _trace(st, "yields") + (v,)).setghost("n_yields", st.ghost.get("n_yields", z3.IntVal(0)) + 1), NONE)]


HOOKS_B = chain_hooks({"yield": b_yield, "call_method": d_call_method}, HOOKS_S)


def _batch_inv(E, Lc):
    me, st = E["self"], Lc.st
    T, ns0, bs = at(E.s0, me, "thinning").t, at(E.s0, me, "n_samples").t, E["batch_size"].t
    calls, ys = _trace(st, "sample_calls"), _trace(st, "yields")
    # in the iteration just executed (the traces are emptied when the loop is cut): ONE sample(batch_size, fluxes=fluxes) on self,
    # and its result is the ONE value yielded
    one = (len(calls) == 0 and len(ys) == 0) or (
        len(calls) == 1 and len(ys) == 1 and calls[0]["recv"] is me and len(calls[0]["pos"]) == 1 and calls[0]["pos"][0] is E["batch_size"]
        and set(calls[0]["kw"]) == {"fluxes"} and calls[0]["kw"]["fluxes"] is E["fluxes"] and ys[0] is calls[0]["res"])
    return z3.And(z3.BoolVal(bool(one)), st.ghost.get("n_yields", z3.IntVal(0)) == Lc.i,
                  at(st, me, "n_samples").t == ns0 + Lc.i * (T * bs))


def _batch_loop_mod(E, Lc):
    base = _si_mod(E) + [("ghost", "pts", lambda st: fresh("pts", IntNP)), ("ghost", "rows", lambda st: fresh("rows", IntNP)),
                         ("ghost", "row_it", lambda st: fresh("row_it", IntInt)), ("ghost", "written", lambda st: fresh("written", IntBool)),
                         ("ghost", "rows_of", lambda st: None), ("ghost", "df_calls", lambda st: ())]
    return base + [("ghost", "sample_calls", lambda st: ()), ("ghost", "yields", lambda st: ()),
                             ("ghost", "n_yields", lambda st: fresh("n_yields", z3.IntSort()))]


def _batch_post(E):
    me = E["self"]
    T, ns0, bs, bn = at(E.s0, me, "thinning").t, at(E.s0, me, "n_samples").t, E["batch_size"].t, E["batch_num"].t
    k = z3.If(bn > 0, bn, 0)
    return z3.And(E.s1.ghost.get("n_yields", z3.IntVal(0)) == k,                       # batch_num frames are yielded ...
                  at(E.s1, me, "n_samples").t == ns0 + k * (T * bs))                   # ... of batch_size samples each


def _batch_cases():
    out = []
    for fl in (True, False):
        c = Case("fluxes" if fl else "variables", ensures=_batch_post)
        c.params_override = {"fluxes": TConc(fl)}
        c.may_raise = "RuntimeError"
        c.ensures_on_raise = lambda E: z3.BoolVal(True)
        c.modifies_on_raise = lambda E: _batch_loop_mod(E, None)
        out.append(c)
    return out


REG.add(Contract(MH, "HRSampler.batch", "C16", [("self", _achr_self()), ("batch_size", TInt()), ("batch_num", TInt()), ("fluxes", _fl)],
                 _batch_cases(), pre=lambda E: z3.And(_si_pre(E), E["batch_size"].t >= 0,
                                                      WF(E, E.s0, at(E.s0, me_model(E.s0, E["self"]), "reactions"))),
                 modifies=lambda E: _batch_loop_mod(E, None), axioms=lambda E: rp_axioms(),
                 loops={0: LoopSpec(_batch_inv, _batch_loop_mod)}, key="HRSampler.batch",
                 note="verified for an ACHRSampler receiver (self.sample = ACHRSampler.sample by its contract); the generator is executed "
                      "eagerly (laziness is not modelled); batch_size >= 0 and the preconditions of sample"))
