"""C16 / C14 — the guards, bookkeeping and index arithmetic AROUND the random walk of the hit-and-run samplers
(cobra/sampling/hr_sampler.py, achr.py, optgp.py, sampling.py), in exact integer arithmetic and the opaque array algebra.

As in contracts/c16_sampling.py every numpy / pandas operation is an uninterpreted function named after the operation and
`np.random.*` is a fresh value: what is proved is control flow, data flow and the integer bookkeeping, NOT numerics.  The sampler
object is MATERIALISED (its integer fields n_samples / thinning / nproj / retries / _seed / processes are z3 Ints, its arrays opaque
terms held in attributes), so attribute writes are tracked exactly; the pseudo-attribute `np` is the opaque identity of the sampler
that the proved contract of `sampling.core.step` (contracts/c16_sampling.py) talks about: `guard_ok(S, p)` = `not any(S._bounds_dist(p)
< -S.bounds_tol)` was evaluated on p and found true.

Spec vocabulary
  okpt(p)     := guard_ok(S, p)  or  RP(warmup, p)
  RP(w, r)    := r is `w[idx, :].mean(axis=0)` for some index array idx  (a value `_random_point` returned; only the direction
                 `RP(w, w[idx,:].mean(axis=0))` is used, given as a definitional axiom)
  pts[m]      := (ghost) the value of `prev` when the sampler's iteration counter reached m
  rows[r]     := (ghost) the value stored into row r of the array created by `np.zeros((n, ...))`, row_it[r] the counter at that moment

(see the individual contracts below for what is proved; the list of mutants is at the end of this docstring)
"""
import z3
import cobra  # noqa
from .common import *  # noqa
from . import c15_dictlist  # noqa
from . import c16_sampling as CS
from pyvc import npalg as N
from pyvc import builtins as B
from pyvc.values import VSlice, VSeq

MH = "cobra/sampling/hr_sampler.py"
MA = "cobra/sampling/achr.py"
MO = "cobra/sampling/optgp.py"
MS = "cobra/sampling/sampling.py"

REG.classes.setdefault("ACHRSampler", ["HRSampler"])
REG.classes.setdefault("OptGPSampler", ["HRSampler"])
REG.classes.setdefault("HRSampler", [])

IntNP = z3.ArraySort(z3.IntSort(), N.NP)
IntInt = z3.ArraySort(z3.IntSort(), z3.IntSort())
IntBool = z3.ArraySort(z3.IntSort(), z3.BoolSort())
RP = z3.Function("sampler:RP", N.NP, N.NP, z3.BoolSort())
NONE_T = z3.Const("np:None", N.NP)
FULL = N.term("slice", NONE_T, NONE_T, NONE_T)          # the slice `:`


# ---------------------------------------------------------------- the sampler object
def _model_t():
    return TObj("Model", {"reactions": TDictList("Reaction"), "variables": TList("np"), "metabolites": N.TNp(), "constraints": N.TNp()})


INT_ATTRS = ("n_samples", "thinning", "nproj", "n_warmup", "retries", "_seed", "processes")
NP_ATTRS = ("warmup", "center", "prev", "problem", "fwd_idx", "rev_idx", "feasibility_tol", "bounds_tol", "np")


def sampler_t(cls):
    attrs = {k: TInt() for k in INT_ATTRS}
    attrs.update({k: N.TNp() for k in NP_ATTRS})
    attrs["model"] = _model_t()
    return TObj(cls, attrs)


def at(st, me, name):
    return st.objs[me.oid]["attr:" + name]


def S_of(st, me):
    return at(st, me, "np").t


def mean_rows(w, idx):
    """w[idx, :].mean(axis=0)"""
    return N.term("call(axis)", N.term("attr.mean", N.term("getitem", w, N.term("tuple", idx, FULL))), N.of_int(0))


def rp_axioms():
    w, i = z3.Const("rp_w", N.NP), z3.Const("rp_i", N.NP)
    return [z3.ForAll([w, i], RP(w, mean_rows(w, i)), patterns=[mean_rows(w, i)])]


def ext_axioms():
    """ASSUMED (numpy semantics, NaN-free arrays): two arrays that differ in no element are the same point"""
    a, b = z3.Const("ext_a", N.NP), z3.Const("ext_b", N.NP)
    t = N.term("builtins.any", N.term("ne", a, b))
    return [z3.ForAll([a, b], z3.Implies(z3.Not(N.truthy(t)), a == b), patterns=[t])]


def okpt(st0, me, p):
    return z3.Or(CS.guard_ok(S_of(st0, me), p), RP(at(st0, me, "warmup").t, p))


def pymod(x, y):
    """Python's x % y for y > 0 as the engine builds it"""
    return x - y * (x / y)


# ---------------------------------------------------------------- hooks
_NP_BUILTINS = ("any", "all", "min", "max", "sum")


def global_hook(eng, name):
    if name == "step":
        return VFunc("abstract", "step")
    if name in _NP_BUILTINS:
        return VFunc("abstract", "py:" + name)
    return None


def _trace(st, key):
    return st.ghost.get(key, ())


def call_abstract(eng, st, f, pos, kw):
    if f.a.startswith("py:"):
        nm = f.a[3:]
        if any(isinstance(x, N.VNp) for x in pos) and not kw:
            return [("ok", st, N.app("builtins." + nm, *pos))]
        return B.BUILTINS[nm](eng, st, pos, kw)
    if f.a == "step":
        # sampling.core.step by its PROVED contract (contracts/c16_sampling.py); the materialised sampler is passed as its opaque
        # identity; step may bump sampler.retries (not in its contract): the field becomes unknown
        me = pos[0]
        if not isinstance(me, VObj):
            return None
        S = N.VNp(S_of(st, me))
        out = []
        for k, s, v in eng.apply_contract(st, REG.get("step"), [S] + list(pos[1:]), kw):
            s = s.updobj(me.oid, **{"attr:retries": VInt(fresh("retries", z3.IntSort()))})
            if k == "ok":
                s = s.setghost("step_calls", _trace(s, "step_calls") + ({"sampler": me, "pos": tuple(pos[1:]), "kw": dict(kw), "res": v},))
            out.append((k, s, v))
        return out
    return None


def call_method_hook(eng, st, recv, name, pos, kw):
    if isinstance(recv, VObj) and recv.cls in ("ACHRSampler", "OptGPSampler", "HRSampler") and name in ("_reproject", "_random_point"):
        con = REG.get("HRSampler." + name)
        out = []
        for k, s, v in eng.apply_contract(st, con, [recv] + list(pos), kw):
            if k == "ok":
                s = s.setghost(name + "_calls", _trace(s, name + "_calls") + ({"pos": tuple(pos), "res": v},))
            out.append((k, s, v))
        return out
    return None


HOOKS = chain_hooks({"global": global_hook, "call_abstract": call_abstract, "call_method": call_method_hook}, N.HOOKS)


def _res_np(base):
    def r(eng, st, E):
        return st, N.VNp(fresh("np:" + base, N.NP))
    return r


# ================================================================ HRSampler._random_point
def _rpt_post(E):
    if not isinstance(E.res, N.VNp):
        return z3.BoolVal(False)
    return RP(at(E.s0, E["self"], "warmup").t, E.res.t)


REG.add(Contract(MH, "HRSampler._random_point", "C16", [("self", sampler_t("HRSampler"))], [Case("any", ensures=_rpt_post)],
                 result=_res_np("random_point"), axioms=lambda E: rp_axioms(), key="HRSampler._random_point"))


# ================================================================ HRSampler._bounds_dist
def bounds_dist_term(prob, p, with_constraints):
    vb = N.term("attr.variable_bounds", prob)
    row = lambda a, i: N.term("getitem", a, N.term("tuple", N.of_int(i)))            # a[i,]
    mn = lambda x: N.term("call", N.term("attr.min", x))
    lb = mn(N.term("sub", p, row(vb, 0)))
    ub = mn(N.term("sub", row(vb, 1), p))
    if with_constraints:
        const = N.term("call", N.term("attr.dot", N.term("attr.inequalities", prob)), p)
        bd = N.term("attr.bounds", prob)
        lb = N.term("builtins.min", lb, mn(N.term("sub", const, row(bd, 0))))
        ub = N.term("builtins.min", ub, mn(N.term("sub", row(bd, 1), const)))
    return N.term("numpy.array", N.term("list", lb, ub))


def has_constraints(prob):
    return N.truthy(N.term("gt", N.term("getitem", N.term("attr.shape", N.term("attr.bounds", prob)), N.of_int(0)), N.of_int(0)))


def _bd_post(E):
    if not isinstance(E.res, N.VNp):
        return z3.BoolVal(False)
    prob, p = at(E.s0, E["self"], "problem").t, E["p"].t
    return z3.If(has_constraints(prob), E.res.t == bounds_dist_term(prob, p, True), E.res.t == bounds_dist_term(prob, p, False))


REG.add(Contract(MH, "HRSampler._bounds_dist", "C16", [("self", sampler_t("HRSampler")), ("p", N.TNp())], [Case("any", ensures=_bd_post)],
                 result=_res_np("bounds_dist"), key="HRSampler._bounds_dist"))


# ================================================================ HRSampler._reproject
def feasible_eq(prob, tol, p):
    """np.allclose(equalities.dot(p), b, rtol=0, atol=feasibility_tol)"""
    return N.truthy(N.term("numpy.allclose(atol,rtol)", N.term("call", N.term("attr.dot", N.term("attr.equalities", prob)), p),
                           N.term("attr.b", prob), tol, N.of_int(0)))


def projection(prob, p):
    nulls = N.term("attr.nullspace", prob)
    return N.term("call", N.term("attr.dot", nulls), N.term("call", N.term("attr.dot", N.term("attr.T", nulls)), p))


def differs(a, b):
    return N.truthy(N.term("builtins.any", N.term("ne", a, b)))


def _rj_post(E):
    if not isinstance(E.res, N.VNp):
        return z3.BoolVal(False)
    me, p, r = E["self"], E["p"].t, E.res.t
    prob, tol, w = at(E.s0, me, "problem").t, at(E.s0, me, "feasibility_tol").t, at(E.s0, me, "warmup").t
    feas = feasible_eq(prob, tol, p)
    cs = [z3.Implies(z3.And(feas, z3.Not(differs(p, p))), r == p),             # "If `p` is feasible, it will return `p`"
          z3.Or(r == p, RP(w, r))]                                             # else a point `_random_point` returned
    if E.role == "goal":
        # the projection is computed exactly when the equalities are violated, and it is RETURNED only if it is p itself
        rp_calls = _trace(E.s1, "_random_point_calls")
        cs.append(z3.BoolVal(len(rp_calls) <= 1))
        cs.append(z3.Implies(z3.And(z3.Not(feas), z3.Not(differs(projection(prob, p), p))), r == projection(prob, p)))
        cs.append(z3.Implies(z3.And(z3.Not(feas), differs(projection(prob, p), p)),
                             z3.BoolVal(len(rp_calls) == 1 and rp_calls[0]["res"] is E.res)))
    return z3.And(*cs)


REG.add(Contract(MH, "HRSampler._reproject", "C16", [("self", sampler_t("HRSampler")), ("p", N.TNp())], [Case("any", ensures=_rj_post)],
                 result=_res_np("reprojected"), axioms=lambda E: rp_axioms() + ext_axioms(),
                 modifies=lambda E: [("ghost", "_random_point_calls", lambda st: ())], key="HRSampler._reproject"))


# ================================================================ ACHRSampler.__single_iteration
def _si_pre(E):
    me = E["self"]
    return z3.And(at(E.s0, me, "thinning").t >= 1, at(E.s0, me, "nproj").t >= 1, at(E.s0, me, "n_samples").t >= 0)


def reproject_due(st, me):
    """`self.problem.homogeneous and (self.n_samples * self.thinning % self.nproj == 0)` (nproj > 0)"""
    ns, T, nproj = at(st, me, "n_samples").t, at(st, me, "thinning").t, at(st, me, "nproj").t
    return z3.And(N.truthy(N.term("attr.homogeneous", at(st, me, "problem").t)), pymod(ns * T, nproj) == 0)


def running_mean(ns, center, prev):
    """(n*center)/(n+1) + prev/(n+1): the mean of n+1 points from the mean of n and the new one"""
    return N.term("add", N.term("div", N.term("mul", N.of_int(ns), center), N.of_int(ns + 1)), N.term("div", prev, N.of_int(ns + 1)))


def _is_random(t):
    return z3.is_const(t) and t.decl().name().startswith("np:random")


def _si_post(E):
    me, s0, s1 = E["self"], E.s0, E.s1
    ns0 = at(s0, me, "n_samples").t
    prev1, center1 = at(s1, me, "prev"), at(s1, me, "center")
    if not (isinstance(prev1, N.VNp) and isinstance(center1, N.VNp) and isinstance(at(s1, me, "n_samples"), VInt)):
        return z3.BoolVal(False)
    cs = [at(s1, me, "n_samples").t == ns0 + 1,                      # incremented exactly once
          okpt(s0, me, prev1.t)]                                     # the new point passed the guard of step / is a _random_point
    if E.role != "goal":
        return z3.And(*cs)
    prev0, center0, w = at(s0, me, "prev").t, at(s0, me, "center").t, at(s0, me, "warmup").t
    steps, rj = _trace(s1, "step_calls"), _trace(s1, "_reproject_calls")
    # exactly ONE step, from the previous point, in the direction (a random warmup point) - centre, random step length
    good = (len(steps) == 1 and steps[0]["sampler"] is me and len(steps[0]["pos"]) == 2 and not steps[0]["kw"]
            and all(isinstance(x, N.VNp) for x in steps[0]["pos"]))
    cs.append(z3.BoolVal(bool(good)))
    if not good:
        return z3.And(*cs)
    x, delta, p1 = steps[0]["pos"][0].t, steps[0]["pos"][1].t, steps[0]["res"].t
    cs.append(x == prev0)
    shape = (z3.is_app(delta) and delta.decl().name() == "np:sub/2" and delta.arg(0).decl().name() == "np:getitem/2"
             and delta.arg(0).arg(1).decl().name() == "np:tuple/2" and _is_random(delta.arg(0).arg(1).arg(0)))
    cs.append(z3.BoolVal(bool(shape)))
    if shape:
        pi = delta.arg(0).arg(1).arg(0)
        cs.append(delta == N.term("sub", N.term("getitem", w, N.term("tuple", pi, FULL)), center0))
    due = reproject_due(s0, me)
    if len(rj) == 0:
        cs += [z3.Not(due), prev1.t == p1]
        cmid = center0
    elif len(rj) == 2 and all(len(c["pos"]) == 1 and isinstance(c["pos"][0], N.VNp) for c in rj):
        # both the point and the centre are re-projected, exactly when due
        cs += [due, rj[0]["pos"][0].t == p1, prev1.t == rj[0]["res"].t, rj[1]["pos"][0].t == center0]
        cmid = rj[1]["res"].t
        cs.append(z3.Or(cmid == center0, RP(w, cmid)))
    else:
        return z3.BoolVal(False)
    cs.append(center1.t == running_mean(ns0, cmid, prev1.t))          # the documented running mean, with the OLD count
    return z3.And(*cs)


def _si_mod(E):
    me = E["self"]
    return [("attr", me, "n_samples", lambda st: (st, VInt(fresh("n_samples", z3.IntSort())))),
            ("attr", me, "retries", lambda st: (st, VInt(fresh("retries", z3.IntSort())))),
            ("attr", me, "prev", lambda st: (st, N.VNp(fresh("np:prev", N.NP)))),
            ("attr", me, "center", lambda st: (st, N.VNp(fresh("np:center", N.NP)))),
            ("ghost", "step_calls", lambda st: ()), ("ghost", "_reproject_calls", lambda st: ()),
            ("ghost", "_random_point_calls", lambda st: ())]


def _si_case():
    c = Case("any", ensures=_si_post)
    c.may_raise = "RuntimeError"            # step gives up after MAX_TRIES
    c.ensures_on_raise = lambda E: z3.BoolVal(True)
    c.modifies_on_raise = _si_mod
    return c


REG.add(Contract(MA, "ACHRSampler.__single_iteration", "C16", [("self", sampler_t("ACHRSampler"))], [_si_case()], pre=_si_pre,
                 modifies=_si_mod, axioms=lambda E: rp_axioms(), key="ACHRSampler.__single_iteration"))
