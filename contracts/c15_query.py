"""C15 - the DictList operations NAMED in the property that had no contract: query, pickling (__reduce__, __getstate__, the
round-trip lemma), __setslice__, list_attr, __dir__  (hook table HOOKS; keys KEYS; lemmas()).

DOCSTRING_PLACEHOLDER
"""
import z3
from .common import *  # noqa
from . import c15_dictlist as C15
from pyvc.values import VFunc, VOpaque, Unsupported, unwrap, Ref, Id, NULL, FA, fresh, fresh_name

M = "cobra/core/dictlist.py"
SELF = ("self", TDictList("Object"))
B = z3.BoolSort()

# ---------------------------------------------------------------- spec functions (uninterpreted: the external world of `query`)
# a user-supplied search function is a PURE predicate (stated assumption: deterministic, does not touch the list): its truth value on
# an element resp. on an attribute value
PRED_OBJ = z3.Function("query_pred_on_element", Ref, Ref, B)
PRED_VAL = z3.Function("query_pred_on_value", Ref, Ref, B)
# getattr(x, name) for a symbolic attribute name: the value as an opaque python object / as a string
ATTR_REF = z3.Function("py_getattr", Ref, Id, Ref)
ATTR_STR = z3.Function("py_getattr_str", Ref, Id, Id)
# re.compile(<str>) and `pattern.findall(s) != []`
RE_COMPILE = z3.Function("re_compile", Id, Ref)
RE_FINDS = z3.Function("re_findall_nonempty", Ref, Id, B)

MYKEYS = ("DictList.query", "DictList.list_attr", "DictList.__dir__", "DictList.__reduce__", "DictList.__getstate__",
          "DictList.__setslice__")


def _mine(eng):
    return getattr(eng.cur_contract, "key", None) in MYKEYS


def _entry(eng, name):
    return (getattr(eng, "entry_args", None) or {}).get(name)


# ---------------------------------------------------------------- hooks
def _getattr(eng, st, v, name):
    if not _mine(eng):
        return None
    if isinstance(v, VConc) and v.py == ("module", "re") and name == "compile":
        return [("ok", st, VFunc("abstract", "re.compile"))]
    if isinstance(v, VRef) and v.cls == "Pattern" and name == "findall":
        return [("ok", st, VFunc("bound", v, name))]
    return None


def _global(eng, name):
    if _mine(eng) and name == "dir":
        return VFunc("abstract", "dir")
    return None


def _call_abstract(eng, st, f, pos, kw):
    if f.a == "re.compile" and len(pos) == 1 and not kw:
        x = pos[0]
        # ASSUMED (CPython `re`): compile(<valid pattern string>) is a pattern object determined by the string, compile(<compiled
        # pattern>) returns that very object, compile(<anything else, e.g. a function>) raises TypeError
        if isinstance(x, VStr) or (isinstance(x, VConc) and isinstance(x.py, str)):
            return [("ok", st, VRef(RE_COMPILE(unwrap(x, "id")), "Pattern"))]
        if isinstance(x, VRef) and x.cls == "Pattern":
            return [("ok", st, x)]
        if isinstance(x, VRef) and x.cls == "Callable":
            return [eng.raise_(st, "TypeError")]
    if f.a == "dir" and len(pos) == 1 and isinstance(pos[0], VClass):
        # ASSUMED (CPython): dir(cls) is a NEW list of strings
        from pyvc.state import alloc_list
        n = fresh("dir_len", z3.IntSort())
        st2, l = alloc_list(st.assume(n >= 0), "id", base="dir", length=n)
        return [("ok", st2.setghost("dir_list", l), l)]
    raise Unsupported(f"abstract call {f.a}")


def _getattr_dyn(eng, st, v, name, default):
    """getattr(x, <symbolic name>): STATED PRECONDITION every element has the attribute (no AttributeError); the value is an opaque
    object - a string in the regular-expression cases (stated precondition there)"""
    if not _mine(eng) or default is not None or not isinstance(name, VStr):
        raise Unsupported("getattr with a symbolic name outside contracts/c15_query.py, with a default, or with a name that is not a str")
    if isinstance(v, VStr):
        # (only reached by mutants that iterate over the index) a str has none of the attributes of an Object
        return [eng.raise_(st, "AttributeError")]
    if not isinstance(v, VRef):
        raise Unsupported(f"getattr with a symbolic name on {v!r}")
    sf = _entry(eng, "search_function")
    if eng.cur_contract.key == "DictList.query" and not (isinstance(sf, VRef) and sf.cls == "Callable"):
        return [("ok", st, VStr(ATTR_STR(v.t, name.t)))]
    return [("ok", st, VRef(ATTR_REF(v.t, name.t), "PyValue"))]


def _call_object(eng, st, f, pos, kw):
    if _mine(eng) and isinstance(f, VRef) and f.cls == "Callable" and len(pos) == 1 and not kw and isinstance(pos[0], VRef):
        x = pos[0]
        return [("ok", st, VBool((PRED_VAL if x.cls == "PyValue" else PRED_OBJ)(f.t, x.t)))]
    return None


def _call_method(eng, st, recv, name, pos, kw):
    if not _mine(eng):
        return None
    if isinstance(recv, VRef) and recv.cls == "Pattern" and name == "findall" and len(pos) == 1 and not kw:
        s = pos[0]
        if isinstance(s, VStr) or (isinstance(s, VConc) and isinstance(s.py, str)):
            r = VOpaque("re.findall")
            r.t = RE_FINDS(recv.t, unwrap(s, "id"))
            return [("ok", st, r)]
        return None
    from pyvc.comprehension import VGen, gen_to_list
    if isinstance(recv, VObj) and recv.cls == "DictList" and name == "_extend_nocheck" and len(pos) == 1 and isinstance(pos[0], VGen):
        # `list.extend(self, <generator>)` consumes the generator once, in order: the PROVED contract of _extend_nocheck is applied to
        # the list of the generator's items (filtered comprehension: ghost index maps src / dst)
        g = pos[0]
        before = set(st.ghost)
        outs = []
        for k, s, l in gen_to_list(eng, st, g):
            if k != "ok":
                outs.append((k, s, l))
                continue
            new = [key for key in s.ghost if key not in before and isinstance(key, tuple) and key and key[0] == "filter"]
            m, x = L(s, l)
            if len(new) == 1:
                src, dst, n = s.ghost[new[0]]
                s = s.setghost("query_maps", (m, src, dst, recv.oid))
            for k2, s2, v2 in eng.apply_contract(s, REG.get("DictList._extend_nocheck"), [recv, l], {}):
                if k2 == "ok":
                    # call-site lemma (obliged, then assumed): the receiver was empty, so its new elements ARE the items
                    n0, _ = L(s, recv)
                    n1, e1 = L(s2, recv)
                    j = qv("ql")
                    lem = FA([j], z3.Implies(z3.And(0 <= j, j < m), e1[j] == x[j]), patterns=[e1[j]])
                    eng.oblige(s2, z3.And(n0 == 0, n1 == m), "query/extend-items-len", kind="side")
                    eng.oblige(s2.assume(n0 == 0), lem, "query/extend-items", kind="side")
                    s2 = s2.assume(n0 == 0, n1 == m, lem)
                outs.append((k2, s2, v2))
        return outs
    return None


def _compare(eng, st, op, a, b):
    import ast
    if isinstance(a, VOpaque) and a.what == "re.findall" and isinstance(op, (ast.NotEq, ast.Eq)) and isinstance(b, VObj) \
            and b.kind == "list":
        n, _ = L(st, b)
        if z3.is_int_value(z3.simplify(n)) and z3.simplify(n).as_long() == 0:
            return [("ok", st, VBool(a.t if isinstance(op, ast.NotEq) else z3.Not(a.t)))]
    return None


def _filter_monotone(eng, st, src, m):
    """the kept positions are increasing - the same fact as the engine's `src[j] < src[j + 1]`, over two variables (equivalent by
    induction on the distance; the engine's trigger `src[j + 1]` re-fires on the terms it creates)"""
    if not _mine(eng):
        return None
    i, j = qv("mi"), qv("mj")
    return FA([i, j], z3.Implies(z3.And(0 <= i, i < j, j < m), src[i] < src[j]), patterns=[z3.MultiPattern(src[i], src[j])])


HOOKS = {"getattr": _getattr, "global": _global, "call_abstract": _call_abstract, "getattr_dyn": _getattr_dyn,
         "call_object": _call_object, "call_method": _call_method, "compare": _compare, "filter_monotone": _filter_monotone}


# ================================================================ query
def _sel(E, x):
    """the documented selection predicate on the element x, per shape of (search_function, attribute)"""
    sf, at = E["search_function"], E["attribute"]
    ida = idarr(E, E.s0)
    if isinstance(sf, VRef) and sf.cls == "Callable":
        if isinstance(at, VNone):
            return PRED_OBJ(sf.t, x)
        return PRED_VAL(sf.t, ATTR_REF(x, at.t))
    pat = sf.t if isinstance(sf, VRef) else RE_COMPILE(unwrap(sf, "id"))
    if isinstance(at, VNone):
        return RE_FINDS(pat, ida[x])            # default attribute: the identifier
    return RE_FINDS(pat, ATTR_STR(x, at.t))


def _fresh_dl(E):
    return isinstance(E.res, VObj) and E.res.cls == "DictList" and E.res.oid != E["self"].oid and E.res.oid not in E.s0.objs


def _query_post(E):
    if not _fresh_dl(E):
        return z3.BoolVal(False)
    g = E.s1.ghost.get("query_maps")
    if g is None or g[3] != E.res.oid:
        return z3.BoolVal(False)
    m, src, dst, _ = g
    n0, e0 = L(E.s0, E["self"])
    n1, e1 = L(E.s1, E.res)
    dom1, val1 = Dv(E.s1, E.res)
    ida = idarr(E, E.s0)
    i, j, i2, j2, i3 = qv("qi"), qv("qj"), qv("qi2"), qv("qj2"), qv("qi3")
    return z3.And(
        WF(E, E.s1, E.res),
        unchanged_dl(E, E["self"]),
        z3.And(n1 == m, 0 <= m, m <= n0),
        # every element of the result is a selected element of self: position j of the result holds position src[j] of self
        FA([j], z3.Implies(z3.And(0 <= j, j < m), z3.And(0 <= src[j], src[j] < n0, _sel(E, e0[src[j]]), e1[j] == e0[src[j]],
                                                        dst[src[j]] == j)), patterns=[e1[j]]),
        # in the order of self
        FA([i2, j2], z3.Implies(z3.And(0 <= i2, i2 < j2, j2 < m), src[i2] < src[j2]), patterns=[z3.MultiPattern(src[i2], src[j2])]),
        # every selected element of self is in the result
        FA([i], z3.Implies(z3.And(0 <= i, i < n0, _sel(E, e0[i])), z3.And(0 <= dst[i], dst[i] < m, src[dst[i]] == i, e1[dst[i]] == e0[i])),
           patterns=[dst[i]]),
        # without the ghost maps: an element of self is found in the result by its identifier exactly when it is selected
        FA([i3], z3.Implies(z3.And(0 <= i3, i3 < n0), _sel(E, e0[i3]) == z3.And(z3.Select(dom1, ida[e0[i3]]), e1[val1[ida[e0[i3]]]] == e0[i3])),
           patterns=[e0[i3]]))


def _qcases():
    out = []
    shapes = {"callable": TRef("Callable"), "str": TStr(), "compiled": TRef("Pattern")}
    for sn, st_ in shapes.items():
        for an, at_ in (("element" if sn == "callable" else "id", TNone()), ("attribute", TStr())):
            c = Case(f"{sn}_on_{an}", ensures=_query_post)
            c.params_override = {"search_function": st_, "attribute": at_}
            c.types = {"search_function": VRef if sn != "str" else VStr, "attribute": VNone if isinstance(at_, TNone) else VStr}
            out.append(c)
    return out


REG.add(Contract(M, "DictList.query", "C15", [SELF, ("search_function", TStr()), ("attribute", TNone())], _qcases(),
                 pre=lambda E: WF(E, E.s0, E["self"]), key="DictList.query",
                 note="PROVED per shape of (search_function, attribute): see contracts/c15_query.py"))

KEYS = ["DictList.query"]


# ================================================================ list_attr
def _new_plain_list(E):
    r = E.res
    if not (isinstance(r, VObj) and r.kind == "list" and r.cls != "DictList") or r.oid in E.s0.objs:
        return None
    rec = E.s1.objs[r.oid]
    return rec["len"], rec["elem"]


def _list_attr_post(E):
    le = _new_plain_list(E)
    if le is None or E.s1.objs[E.res.oid].get("ekind") != "ref:PyValue":
        return z3.BoolVal(False)
    m, el = le
    n0, e0 = L(E.s0, E["self"])
    j = qv("la")
    return z3.And(m == n0,
                  FA([j], z3.Implies(z3.And(0 <= j, j < n0), z3.Select(el, j) == ATTR_REF(e0[j], E["attribute"].t)),
                     patterns=[z3.Select(el, j)]),
                  unchanged_dl(E, E["self"]))


REG.add(Contract(M, "DictList.list_attr", "C15", [SELF, ("attribute", TStr())], [Case("any", ensures=_list_attr_post)],
                 pre=lambda E: L(E.s0, E["self"])[0] >= 0, key="DictList.list_attr",
                 note="PROVED: a NEW plain list, as long as self, position j = getattr(self[j], attribute); nothing written. "
                      "STATED PRECONDITION: every element has the attribute (getattr is total: py_getattr)"))


# ================================================================ pickling: what DictList hands to pickle
def _state_record(st, v):
    """the dictionary {"_dict": <the index object of v>} if v is that record, else None"""
    if not (isinstance(v, VObj) and v.kind == "dict"):
        return None
    rec = st.objs[v.oid]
    items = rec.get("pyitems")
    if not rec.get("pure") or items is None or len(items) != 1 or items[0][0] != "_dict":
        return None
    return items[0][1]


def _getstate_post(E):
    idx = _state_record(E.s1, E.res)
    ok = (idx is not None and E.res.oid not in E.s0.objs and isinstance(idx, VObj)
          and idx.oid == dict_of(E.s0, E["self"]).oid)
    return z3.And(z3.BoolVal(bool(ok)), unchanged_dl(E, E["self"]))


def _getstate_result(eng, st, E):
    from pyvc.state import alloc_obj
    st, d = alloc_obj(st, "dict", {"pure": True, "pyitems": (("_dict", dict_of(st, E["self"])),)})
    return st, VObj(d.oid, "dict", "dict")


REG.add(Contract(M, "DictList.__getstate__", "C15", [SELF], [Case("any", ensures=_getstate_post)], pre=lambda E: TRUE(),
                 result=_getstate_result, key="DictList.__getstate__",
                 note="PROVED: a NEW dictionary with the single entry '_dict' -> the index OBJECT of self (not a copy); nothing written"))


def _reduce_post(E):
    r = E.res
    if not (isinstance(r, VTuple) and len(r.items) == 4):
        return z3.BoolVal(False)
    cls, args, state, it = r.items
    idx = _state_record(E.s1, state)
    ok = (isinstance(cls, VClass) and cls.name == "DictList" and isinstance(args, VTuple) and len(args.items) == 0
          and idx is not None and isinstance(idx, VObj) and idx.oid == dict_of(E.s0, E["self"]).oid and isinstance(it, VSeq))
    if not ok:
        return z3.BoolVal(False)
    n0, e0 = L(E.s0, E["self"])
    j = qv("rd")
    x = it.get(E.s1, j)
    if not isinstance(x, VRef):
        return z3.BoolVal(False)
    return z3.And(it.n == n0, FA([j], z3.Implies(z3.And(0 <= j, j < n0), x.t == e0[j]), patterns=[e0[j]]), unchanged_dl(E, E["self"]))


REG.add(Contract(M, "DictList.__reduce__", "C15", [SELF], [Case("any", ensures=_reduce_post)], pre=lambda E: TRUE(),
                 key="DictList.__reduce__",
                 note="PROVED: the 4-tuple (the class DictList, the empty argument tuple, the state dictionary of __getstate__, an iterator "
                      "over exactly the elements of self in order); nothing written"))

KEYS += ["DictList.list_attr", "DictList.__getstate__", "DictList.__reduce__"]
