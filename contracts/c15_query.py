"""C15 - the DictList operations NAMED in the property that had no contract: query, pickling (__reduce__, __getstate__, the
round-trip lemma), slice assignment (__setitem__ with a simple slice, __setslice__), selection by a boolean mask, list_attr, __dir__  (hook table HOOKS; keys KEYS; lemmas()).

All for a DictList of ANY length over the real source of /repo/src/cobra/core/dictlist.py.

DictList.query(search_function, attribute=None) - six cases = three predicate shapes x (attribute None / a string):
    callable            the selection predicate is  f(element)  resp.  f(getattr(element, attribute))
    str (a pattern)     re.compile(s).findall(element.id) != []   resp.  ...findall(getattr(element, attribute)) != []
    compiled pattern    the same with the pattern itself (re.compile(p) is p)
  PROVED (post-condition from the docstring "a new list of objects which match the query" and the property): the result is a NEW
  DictList (allocated during the call, not self, also when everything matches), well formed (WF), and an order-preserving sub-list of
  self holding EXACTLY the selected elements: ghost index maps src / dst of the filtered comprehension (result[j] = self[src[j]], src
  strictly increasing, every selected position i has dst[i] with src[dst[i]] = i) and, without ghosts, `an element of self is found in
  the result under its identifier <=> it is selected`; self (list and index) unchanged; no exception.
  The generator `matches` is consumed by `results._extend_nocheck(matches)`: the hook materialises it (list.extend consumes a generator
  once, in order) and applies the PROVED contract DictList._extend_nocheck, whose precondition (pairwise different new identifiers,
  none present in the - empty - receiver) is OBLIGED at the call site from WF(self) and the ghost maps; a call-site lemma (obliged)
  states that the elements of the receiver afterwards are the items.  `self.__class__()` by the proved contract of DictList.__init__.
  STATED PRECONDITIONS / ASSUMPTIONS: self is well formed; the search function is a PURE predicate (uninterpreted query_pred_*: same
  answer for the same argument, does not touch the list); every element HAS the attribute (else AttributeError) and, in the four
  regular-expression cases, its value is a str (natively a None value - e.g. `name = None` - makes query raise TypeError from
  findall, lazily inside _extend_nocheck, with self untouched; elements with a None attribute are NOT skipped); a pattern string is a
  valid regular expression (else re.error); CPython `re`: compile(str) a pattern determined by the string, compile(pattern) that very
  pattern, compile(function) TypeError (checked natively); `findall(s) != []` as the uninterpreted predicate re_findall_nonempty.
  Natively: a callable str subclass is taken as a PATTERN (re.compile succeeds), not called - outside the three documented shapes.
DictList.list_attr(attribute): a NEW plain list as long as self whose j-th entry is getattr(self[j], attribute) (py_getattr), self
  unchanged; stated precondition: every element has the attribute.
DictList.__getstate__: a NEW dictionary with the single entry "_dict" -> the index object itself; __reduce__: the 4-tuple (class
  DictList, (), that state dictionary, an iterator over exactly the elements of self in order); nothing written.
  lemmas(): the pickle ROUND TRIP from the very post-conditions of the proved contracts __init__ / extend / append / __setstate__ (see
  its docstring): unpickling copies that carry the identifiers of their originals yields a WELL-FORMED list of the same length with
  the same identifiers in the same order and an index equal to the original's; the non-raising `requires` of every step is a goal
  (no ValueError on the way).  ASSUMED: pickle's protocol for a reduce value with list items (cls(*args); extend per batch / append
  for a batch of one; then __setstate__(state)) and that an unpickled Object keeps its identifier (hypothesis COPY; without it the
  lemmas fail: `lemmas(_drop_copy=True)`).
DictList.__dir__: the new list dir(DictList) (ASSUMED: a new list of strings) + "_dict" + every identifier of the index, each at a
  definite position (ghost enumeration of the dictionary); nothing written.
DictList.__setitem__(i, y) for a SIMPLE SLICE i (step None) and a list y that is not self - second contract, key
  "DictList.__setitem__@slice" (the int cases are in c15_dictlist) - any bounds (negative, beyond the end, stop below start):
    slice_new_unique_ids   the items carry pairwise different identifiers none of which is in the index: WF again and the new sequence
                           is self[:lo] + y + self[max(hi, lo):]  (lo, hi the clipped bounds)
    slice_duplicate_id     otherwise (an identifier twice in y, or present in self - ALSO that of an element the slice would have
                           replaced: `dl[0:1] = [Object(dl[0].id)]` raises, unlike the int form): ValueError, list and index unchanged
                           (the index object is rebuilt by the `finally`, with equal content)
  loop invariant over the placeholder loop (index = old keys + ids of the first t items, those pairwise different and new); `_check`
  and `_generate_index` by their proved contracts; `self._dict[id] = None` as `key present, value unspecified` (setitem hook);
  ASSUMED: `list.__setitem__(self, slice, y)` = the splice axiom `_splice` (cross-checked against CPython on 6144 (list, bounds,
  items) combinations: no mismatch); a call-site lemma (obliged) states that the new list's identifiers are pairwise different.
DictList.__getitem__(i) for a LIST OF BOOLEANS i (mask) - third contract, key "DictList.__getitem__@mask", same technique as query:
    mask_full_length           len(i) == len(self) > 0: a NEW well-formed DictList holding exactly the elements whose mask entry is
                               True, in the order of self (ghost maps + `found by identifier <=> mask entry True`), self unchanged
    mask_empty_on_empty_list   len(i) == len(self) == 0: IndexError (`i[0]`; natively DictList()[[]] raises IndexError), nothing changed
    list_of_other_length       TypeError (ASSUMED CPython: list.__getitem__(self, <list>) raises TypeError), nothing changed
  (a mask of ints such as [1, 0, 1] is NOT a mask for the code - `isinstance(i[0], bool)` - and raises TypeError natively: outside the
  stated parameter type list-of-bool.)
DictList.__setslice__(i, j, y): the same two cases for slice(i, j), by the slice contract above.  With __getslice__ / __delslice__
  (proved in c15_dictlist) a Python 2 relic: natively under Python 3.12 slicing syntax never calls any of the three - DEAD CODE unless
  called explicitly.

INHERITED list methods DictList does NOT override (set(dir(list)) - set(DictList.__dict__), CPython 3.12) - OUTSIDE the claim:
  mutators that DESYNCHRONISE the index (native reproduction, dl = DictList(Object(i) for i in "abc")):
    dl.clear()            list empty, index still {'a': 0, 'b': 1, 'c': 2}: "a" in dl is True, dl.get_by_id("a") IndexError, dl.append(Object("a"))
                          ValueError "already present"
    dl *= 2 / dl *= 0     (__imul__) ['a','b','c','a','b','c'] resp. [] with the old index; dl *= 1 harmless
    list.__init__(dl, xs) (re-initialisation through the base class) replaces the elements, index stale
  non-mutating, return a PLAIN list (no index at all): dl.copy() (the METHOD; copy.copy(dl) uses the proved __copy__ and gives a
    coherent DictList), dl * 2, 2 * dl, reversed(dl) / iter(dl) (iterators)
  harmless (read-only): __len__, __iter__, __reversed__, count, __eq__ / __ne__ / __lt__ / __le__ / __gt__ / __ge__, __repr__, __str__,
    __format__, __sizeof__, __hash__ (None), __class_getitem__, __reduce_ex__ (calls the proved __reduce__), object machinery
    (__class__, __new__, __getattribute__, __setattr__, __delattr__, __init_subclass__, __subclasshook__)
  (list.__iadd__ IS overridden: DictList.__iadd__ is proved.)

Mutation trials (tools/mutate_and_run.sh cobra/core/dictlist.py ... contracts.c15_query --hooks HOOKS <key>), each NOT verified:
  query `return results` -> `return self if len(results) == len(self) else results`      post (sat) in every case
  query `results = self.__class__()` -> `results = self`                                  call:_extend_nocheck/pre (sat), extend-items-len, post
  query callable branch `if search_function(...)` -> `if not search_function(...)`        post.9 / post.10 (sat), post.7 unknown
  query attribute branch `findall(select_attribute(i))` -> `findall(i.id)`                *_on_attribute post.9 / post.10 (sat)
  query select_attribute `if attribute is None` -> `if attribute is not None`             callable_on_attribute post.9 / post.10 (sat)
  __getstate__ `return {"_dict": self._dict}` -> `return self._dict`                      __getstate__ post (sat)
  __reduce__ `()` -> `(self,)`;  state and iterator swapped                               __reduce__ post (sat), both
  list_attr `for i in self` -> `for i in self._dict`                                      unexpected AttributeError + post (sat)
  list_attr `getattr(i, attribute)` -> `getattr(i, "id")`;  `... for i in self if i.id != attribute`     post (sat), both
  __dir__ without `attributes.append("_dict")`;  append and extend swapped                post.1-3 resp. post.2 / post.3 (sat)
  __setitem__@slice without `self._dict[obj.id] = None`                                   loop#0/inv-preserve.2 (sat), both cases
  __setitem__@slice without `self._check(obj.id)`                                         slice_duplicate_id: no feasible path, inv-preserve.4/.5 (sat)
  __setitem__@slice `finally: pass` (no _generate_index)                                  duplicate: post (sat); unique: post.2 / post.3 unknown
  __setitem__@slice `list.__setitem__(self, i, y)` moved before the loop                  setslice/new-ids-distinct (sat), inv-init
  __getitem__@mask `if i[j]` -> `if not i[j]`;  -> `if i[0]`                              mask_full_length post.9 / post.10 (sat), post.7 unknown
  __getitem__@mask mask branch `return selection` -> `return self`                        mask_full_length post (sat)
  __getitem__@mask without the `len(i) == len(self)` test                                 list_of_other_length undecided (filter may raise)
  __setslice__ `slice(i, j)` -> `slice(j, i)`;  -> `slice(i, j + 1)`                      new_unique_ids post.4-.7 (unknown), both
"""
import z3
from .common import *  # noqa
from . import c15_dictlist as C15
from pyvc.values import VFunc, VOpaque, Unsupported, unwrap, Ref, Id, NULL, FA, fresh, fresh_name

M = "cobra/core/dictlist.py"
SELF = ("self", TDictList("Object"))
B = z3.BoolSort()

# ---------------------------------------------------------------- spec functions (uninterpreted: the external world of `query`)
# a user-supplied search function is a PURE predicate (stated assumption: deterministic, does not touch the list): its truth value on
# an element resp. on an attribute value
PRED_OBJ = z3.Function("query_pred_on_element", Ref, Ref, B)
PRED_VAL = z3.Function("query_pred_on_value", Ref, Ref, B)
# getattr(x, name) for a symbolic attribute name: the value as an opaque python object / as a string
ATTR_REF = z3.Function("py_getattr", Ref, Id, Ref)
ATTR_STR = z3.Function("py_getattr_str", Ref, Id, Id)
# re.compile(<str>) and `pattern.findall(s) != []`
RE_COMPILE = z3.Function("re_compile", Id, Ref)
RE_FINDS = z3.Function("re_findall_nonempty", Ref, Id, B)

MYKEYS = ("DictList.query", "DictList.list_attr", "DictList.__dir__", "DictList.__reduce__", "DictList.__getstate__",
          "DictList.__setslice__", "DictList.__setitem__@slice", "DictList.__getitem__@mask")


def _mine(eng):
    return getattr(eng.cur_contract, "key", None) in MYKEYS


def _entry(eng, name):
    return (getattr(eng, "entry_args", None) or {}).get(name)


# ---------------------------------------------------------------- hooks
def _getattr(eng, st, v, name):
    if not _mine(eng):
        return None
    if isinstance(v, VConc) and v.py == ("module", "re") and name == "compile":
        return [("ok", st, VFunc("abstract", "re.compile"))]
    if isinstance(v, VClass) and v.name == "list" and name == "__setitem__" and eng.cur_contract.key == "DictList.__setitem__@slice":
        return [("ok", st, VFunc("abstract", "list.__setitem__"))]
    if isinstance(v, VClass) and v.name == "list" and name == "__getitem__" and eng.cur_contract.key == "DictList.__getitem__@mask":
        return [("ok", st, VFunc("abstract", "list.__getitem__"))]
    if isinstance(v, VRef) and v.cls == "Pattern" and name == "findall":
        return [("ok", st, VFunc("bound", v, name))]
    return None


def _global(eng, name):
    if _mine(eng) and name == "dir":
        return VFunc("abstract", "dir")
    return None


def _call_abstract(eng, st, f, pos, kw):
    if f.a == "re.compile" and len(pos) == 1 and not kw:
        x = pos[0]
        # ASSUMED (CPython `re`): compile(<valid pattern string>) is a pattern object determined by the string, compile(<compiled
        # pattern>) returns that very object, compile(<anything else, e.g. a function>) raises TypeError
        if isinstance(x, VStr) or (isinstance(x, VConc) and isinstance(x.py, str)):
            return [("ok", st, VRef(RE_COMPILE(unwrap(x, "id")), "Pattern"))]
        if isinstance(x, VRef) and x.cls == "Pattern":
            return [("ok", st, x)]
        if isinstance(x, VRef) and x.cls == "Callable":
            return [eng.raise_(st, "TypeError")]
    if f.a == "dir" and len(pos) == 1 and isinstance(pos[0], VClass):
        # ASSUMED (CPython): dir(cls) is a NEW list of strings
        from pyvc.state import alloc_list
        n = fresh("dir_len", z3.IntSort())
        st2, l = alloc_list(st.assume(n >= 0), "id", base="dir", length=n)
        return [("ok", st2.setghost("dir_list", l).setghost("dir_len0", n), l)]
    if f.a == "list.__getitem__" and len(pos) == 2 and not kw:
        if isinstance(pos[1], VObj) and pos[1].kind == "list":
            # ASSUMED (CPython): a list is not an index - "list indices must be integers or slices, not list"
            return [eng.raise_(st, "TypeError")]
        from pyvc import builtins as Bi
        return Bi.list_getitem(eng, st, pos[0], pos[1])
    if f.a == "list.__setitem__" and len(pos) == 3 and not kw:
        return _list_slice_assign(eng, st, *pos)
    raise Unsupported(f"abstract call {f.a}")


def _splice(n, e, lo, hi, m, x, n2, e2, tag="sp"):
    """ASSUMED (CPython, cross-checked natively): `l[lo:hi] = xs` for a simple slice (bounds already clipped to [0, n], a stop below
    the start counts as the start): the elements before lo, then xs, then the elements from max(hi, lo) on"""
    hi2 = z3.If(hi > lo, hi, lo)
    j = qv(tag)
    return [n2 == n - (hi2 - lo) + m,
            FA([j], z3.Implies(z3.And(0 <= j, j < lo), e2[j] == e[j]), patterns=[e2[j]]),
            FA([j], z3.Implies(z3.And(lo <= j, j < lo + m), e2[j] == x[j - lo]), patterns=[e2[j]]),
            FA([j], z3.Implies(z3.And(lo + m <= j, j < n2), e2[j] == e[j - m + (hi2 - lo)]), patterns=[e2[j]])]


def _list_slice_assign(eng, st, recv, idx, val):
    from pyvc import builtins as Bi
    if not isinstance(idx, VSlice):
        return Bi.list_setitem(eng, st, recv, idx, val)
    if not (isinstance(recv, VObj) and isinstance(val, VObj) and val.kind == "list" and val.oid != recv.oid):
        raise Unsupported("list slice assignment from something else than another list")
    n, e = L(st, recv)
    m, x = L(st, val)
    lo, hi = Bi.slice_bounds(eng, st, idx, n)
    n2, e2 = fresh("spl_len", z3.IntSort()), fresh("spl_elem", e.sort())
    st = st.assume(*_splice(n, e, lo, hi, m, x, n2, e2)).updobj(recv.oid, len=n2, elem=e2)
    # call-site lemma (obliged, then assumed): the identifiers of the new list are pairwise different - what _generate_index needs
    ida = eng.heap_arr(st, "_id")
    i, j = qv("sdi"), qv("sdj")
    D = FA([i, j], z3.Implies(z3.And(0 <= i, i < j, j < n2), ida[e2[i]] != ida[e2[j]]), patterns=[z3.MultiPattern(e2[i], e2[j])])
    eng.oblige(st, D, "setslice/new-ids-distinct", kind="side")
    return [("ok", st.assume(D), NONE)]


def _setitem(eng, st, obj, idx, val):
    """`self._dict[obj.id] = None`: the placeholder entry of the slice branch of __setitem__ - the key is present afterwards, its value
    is unspecified (nothing reads it before _generate_index replaces the index)"""
    if not _mine(eng) or eng.cur_contract.key != "DictList.__setitem__@slice":
        return None
    if isinstance(obj, VObj) and obj.kind == "dict" and isinstance(val, VNone) and isinstance(idx, VStr):
        rec = st.objs[obj.oid]
        if rec.get("lazy") or rec.get("kkind") != "id":
            return None
        return [("ok", st.updobj(obj.oid, dom=z3.Store(rec["dom"], idx.t, z3.BoolVal(True)),
                                 val=z3.Store(rec["val"], idx.t, fresh("placeholder", z3.IntSort()))), NONE)]
    return None


def _getattr_dyn(eng, st, v, name, default):
    """getattr(x, <symbolic name>): STATED PRECONDITION every element has the attribute (no AttributeError); the value is an opaque
    object - a string in the regular-expression cases (stated precondition there)"""
    if not _mine(eng) or default is not None or not isinstance(name, VStr):
        raise Unsupported("getattr with a symbolic name outside contracts/c15_query.py, with a default, or with a name that is not a str")
    if isinstance(v, VStr):
        # (only reached by mutants that iterate over the index) a str has none of the attributes of an Object
        return [eng.raise_(st, "AttributeError")]
    if not isinstance(v, VRef):
        raise Unsupported(f"getattr with a symbolic name on {v!r}")
    sf = _entry(eng, "search_function")
    if eng.cur_contract.key == "DictList.query" and not (isinstance(sf, VRef) and sf.cls == "Callable"):
        return [("ok", st, VStr(ATTR_STR(v.t, name.t)))]
    return [("ok", st, VRef(ATTR_REF(v.t, name.t), "PyValue"))]


def _call_object(eng, st, f, pos, kw):
    if _mine(eng) and isinstance(f, VRef) and f.cls == "Callable" and len(pos) == 1 and not kw and isinstance(pos[0], VRef):
        x = pos[0]
        return [("ok", st, VBool((PRED_VAL if x.cls == "PyValue" else PRED_OBJ)(f.t, x.t)))]
    return None


def _call_method(eng, st, recv, name, pos, kw):
    if not _mine(eng):
        return None
    if isinstance(recv, VRef) and recv.cls == "Pattern" and name == "findall" and len(pos) == 1 and not kw:
        s = pos[0]
        if isinstance(s, VStr) or (isinstance(s, VConc) and isinstance(s.py, str)):
            r = VOpaque("re.findall")
            r.t = RE_FINDS(recv.t, unwrap(s, "id"))
            return [("ok", st, r)]
        return None
    if isinstance(recv, VObj) and recv.cls == "DictList" and name == "__setitem__" and len(pos) == 2 and isinstance(pos[0], VSlice) \
            and eng.cur_contract.key == "DictList.__setslice__":
        return eng.apply_contract(st, REG.get("DictList.__setitem__@slice"), [recv] + list(pos), kw)
    from pyvc.comprehension import VGen, gen_to_list
    if isinstance(recv, VObj) and recv.cls == "DictList" and name == "_extend_nocheck" and len(pos) == 1 and isinstance(pos[0], VGen):
        # `list.extend(self, <generator>)` consumes the generator once, in order: the PROVED contract of _extend_nocheck is applied to
        # the list of the generator's items (filtered comprehension: ghost index maps src / dst)
        g = pos[0]
        before = set(st.ghost)
        outs = []
        for k, s, l in gen_to_list(eng, st, g):
            if k != "ok":
                outs.append((k, s, l))
                continue
            new = [key for key in s.ghost if key not in before and isinstance(key, tuple) and key and key[0] == "filter"]
            m, x = L(s, l)
            if len(new) == 1:
                src, dst, n = s.ghost[new[0]]
                s = s.setghost("query_maps", (m, src, dst, recv.oid))
            for k2, s2, v2 in eng.apply_contract(s, REG.get("DictList._extend_nocheck"), [recv, l], {}):
                if k2 == "ok":
                    # call-site lemma (obliged, then assumed): the receiver was empty, so its new elements ARE the items
                    n0, _ = L(s, recv)
                    n1, e1 = L(s2, recv)
                    j = qv("ql")
                    lem = FA([j], z3.Implies(z3.And(0 <= j, j < m), e1[j] == x[j]), patterns=[e1[j]])
                    eng.oblige(s2, z3.And(n0 == 0, n1 == m), "query/extend-items-len", kind="side")
                    eng.oblige(s2.assume(n0 == 0), lem, "query/extend-items", kind="side")
                    s2 = s2.assume(n0 == 0, n1 == m, lem)
                outs.append((k2, s2, v2))
        return outs
    return None


def _compare(eng, st, op, a, b):
    import ast
    if isinstance(a, VOpaque) and a.what == "re.findall" and isinstance(op, (ast.NotEq, ast.Eq)) and isinstance(b, VObj) \
            and b.kind == "list":
        n, _ = L(st, b)
        if z3.is_int_value(z3.simplify(n)) and z3.simplify(n).as_long() == 0:
            return [("ok", st, VBool(a.t if isinstance(op, ast.NotEq) else z3.Not(a.t)))]
    return None


def _filter_monotone(eng, st, src, m):
    """the kept positions are increasing - the same fact as the engine's `src[j] < src[j + 1]`, over two variables (equivalent by
    induction on the distance; the engine's trigger `src[j + 1]` re-fires on the terms it creates)"""
    if not _mine(eng):
        return None
    i, j = qv("mi"), qv("mj")
    return FA([i, j], z3.Implies(z3.And(0 <= i, i < j, j < m), src[i] < src[j]), patterns=[z3.MultiPattern(src[i], src[j])])


HOOKS = {"getattr": _getattr, "global": _global, "call_abstract": _call_abstract, "getattr_dyn": _getattr_dyn,
         "call_object": _call_object, "call_method": _call_method, "compare": _compare, "filter_monotone": _filter_monotone,
         "setitem": _setitem}


# ================================================================ query
def _sel(E, x):
    """the documented selection predicate on the element x, per shape of (search_function, attribute)"""
    sf, at = E["search_function"], E["attribute"]
    ida = idarr(E, E.s0)
    if isinstance(sf, VRef) and sf.cls == "Callable":
        if isinstance(at, VNone):
            return PRED_OBJ(sf.t, x)
        return PRED_VAL(sf.t, ATTR_REF(x, at.t))
    pat = sf.t if isinstance(sf, VRef) else RE_COMPILE(unwrap(sf, "id"))
    if isinstance(at, VNone):
        return RE_FINDS(pat, ida[x])            # default attribute: the identifier
    return RE_FINDS(pat, ATTR_STR(x, at.t))


def _fresh_dl(E):
    return isinstance(E.res, VObj) and E.res.cls == "DictList" and E.res.oid != E["self"].oid and E.res.oid not in E.s0.objs


def _query_post(E):
    if not _fresh_dl(E):
        return z3.BoolVal(False)
    g = E.s1.ghost.get("query_maps")
    if g is None or g[3] != E.res.oid:
        return z3.BoolVal(False)
    m, src, dst, _ = g
    n0, e0 = L(E.s0, E["self"])
    n1, e1 = L(E.s1, E.res)
    dom1, val1 = Dv(E.s1, E.res)
    ida = idarr(E, E.s0)
    i, j, i2, j2, i3 = qv("qi"), qv("qj"), qv("qi2"), qv("qj2"), qv("qi3")
    return z3.And(
        WF(E, E.s1, E.res),
        unchanged_dl(E, E["self"]),
        z3.And(n1 == m, 0 <= m, m <= n0),
        # every element of the result is a selected element of self: position j of the result holds position src[j] of self
        FA([j], z3.Implies(z3.And(0 <= j, j < m), z3.And(0 <= src[j], src[j] < n0, _sel(E, e0[src[j]]), e1[j] == e0[src[j]],
                                                        dst[src[j]] == j)), patterns=[e1[j]]),
        # in the order of self
        FA([i2, j2], z3.Implies(z3.And(0 <= i2, i2 < j2, j2 < m), src[i2] < src[j2]), patterns=[z3.MultiPattern(src[i2], src[j2])]),
        # every selected element of self is in the result
        FA([i], z3.Implies(z3.And(0 <= i, i < n0, _sel(E, e0[i])), z3.And(0 <= dst[i], dst[i] < m, src[dst[i]] == i, e1[dst[i]] == e0[i])),
           patterns=[dst[i]]),
        # without the ghost maps: an element of self is found in the result by its identifier exactly when it is selected
        FA([i3], z3.Implies(z3.And(0 <= i3, i3 < n0), _sel(E, e0[i3]) == z3.And(z3.Select(dom1, ida[e0[i3]]), e1[val1[ida[e0[i3]]]] == e0[i3])),
           patterns=[e0[i3]]))


def _qcases():
    out = []
    shapes = {"callable": TRef("Callable"), "str": TStr(), "compiled": TRef("Pattern")}
    for sn, st_ in shapes.items():
        for an, at_ in (("element" if sn == "callable" else "id", TNone()), ("attribute", TStr())):
            c = Case(f"{sn}_on_{an}", ensures=_query_post)
            c.params_override = {"search_function": st_, "attribute": at_}
            c.types = {"search_function": VRef if sn != "str" else VStr, "attribute": VNone if isinstance(at_, TNone) else VStr}
            out.append(c)
    return out


REG.add(Contract(M, "DictList.query", "C15", [SELF, ("search_function", TStr()), ("attribute", TNone())], _qcases(),
                 pre=lambda E: WF(E, E.s0, E["self"]), key="DictList.query",
                 note="PROVED per shape of (search_function, attribute): see contracts/c15_query.py"))

KEYS = ["DictList.query"]


# ================================================================ list_attr
def _new_plain_list(E):
    r = E.res
    if not (isinstance(r, VObj) and r.kind == "list" and r.cls != "DictList") or r.oid in E.s0.objs:
        return None
    rec = E.s1.objs[r.oid]
    return rec["len"], rec["elem"]


def _list_attr_post(E):
    le = _new_plain_list(E)
    if le is None or E.s1.objs[E.res.oid].get("ekind") != "ref:PyValue":
        return z3.BoolVal(False)
    m, el = le
    n0, e0 = L(E.s0, E["self"])
    j = qv("la")
    return z3.And(m == n0,
                  FA([j], z3.Implies(z3.And(0 <= j, j < n0), z3.Select(el, j) == ATTR_REF(e0[j], E["attribute"].t)),
                     patterns=[z3.Select(el, j)]),
                  unchanged_dl(E, E["self"]))


REG.add(Contract(M, "DictList.list_attr", "C15", [SELF, ("attribute", TStr())], [Case("any", ensures=_list_attr_post)],
                 pre=lambda E: L(E.s0, E["self"])[0] >= 0, key="DictList.list_attr",
                 note="PROVED: a NEW plain list, as long as self, position j = getattr(self[j], attribute); nothing written. "
                      "STATED PRECONDITION: every element has the attribute (getattr is total: py_getattr)"))


# ================================================================ pickling: what DictList hands to pickle
def _state_record(st, v):
    """the dictionary {"_dict": <the index object of v>} if v is that record, else None"""
    if not (isinstance(v, VObj) and v.kind == "dict"):
        return None
    rec = st.objs[v.oid]
    items = rec.get("pyitems")
    if not rec.get("pure") or items is None or len(items) != 1 or items[0][0] != "_dict":
        return None
    return items[0][1]


def _getstate_post(E):
    idx = _state_record(E.s1, E.res)
    ok = (idx is not None and E.res.oid not in E.s0.objs and isinstance(idx, VObj)
          and idx.oid == dict_of(E.s0, E["self"]).oid)
    return z3.And(z3.BoolVal(bool(ok)), unchanged_dl(E, E["self"]))


def _getstate_result(eng, st, E):
    from pyvc.state import alloc_obj
    st, d = alloc_obj(st, "dict", {"pure": True, "pyitems": (("_dict", dict_of(st, E["self"])),)})
    return st, VObj(d.oid, "dict", "dict")


REG.add(Contract(M, "DictList.__getstate__", "C15", [SELF], [Case("any", ensures=_getstate_post)], pre=lambda E: TRUE(),
                 result=_getstate_result, key="DictList.__getstate__",
                 note="PROVED: a NEW dictionary with the single entry '_dict' -> the index OBJECT of self (not a copy); nothing written"))


def _reduce_post(E):
    r = E.res
    if not (isinstance(r, VTuple) and len(r.items) == 4):
        return z3.BoolVal(False)
    cls, args, state, it = r.items
    idx = _state_record(E.s1, state)
    ok = (isinstance(cls, VClass) and cls.name == "DictList" and isinstance(args, VTuple) and len(args.items) == 0
          and idx is not None and isinstance(idx, VObj) and idx.oid == dict_of(E.s0, E["self"]).oid and isinstance(it, VSeq))
    if not ok:
        return z3.BoolVal(False)
    n0, e0 = L(E.s0, E["self"])
    j = qv("rd")
    x = it.get(E.s1, j)
    if not isinstance(x, VRef):
        return z3.BoolVal(False)
    return z3.And(it.n == n0, FA([j], z3.Implies(z3.And(0 <= j, j < n0), x.t == e0[j]), patterns=[e0[j]]), unchanged_dl(E, E["self"]))


REG.add(Contract(M, "DictList.__reduce__", "C15", [SELF], [Case("any", ensures=_reduce_post)], pre=lambda E: TRUE(),
                 key="DictList.__reduce__",
                 note="PROVED: the 4-tuple (the class DictList, the empty argument tuple, the state dictionary of __getstate__, an iterator "
                      "over exactly the elements of self in order); nothing written"))

KEYS += ["DictList.list_attr", "DictList.__getstate__", "DictList.__reduce__"]


# ================================================================ slice assignment (simple slices) and the legacy __setslice__
YS = ("y", TList(C15.OBJ))


def _ss_bounds(E):
    from pyvc.builtins import slice_bounds
    return slice_bounds(E.eng, E.s0, E["i"], L(E.s0, E["self"])[0])


def _ss_ok(E):
    """the new items carry pairwise different identifiers, none of which is in the index (NOT even that of a replaced element)"""
    return C15._xs_ok(E, "y")


def _ss_post(E):
    lo, hi = _ss_bounds(E)
    n0, e0 = L(E.s0, E["self"])
    n1, e1 = L(E.s1, E["self"])
    m, x = L(E.s0, E["y"])
    return z3.And(WF(E, E.s1, E["self"]), *_splice(n0, e0, lo, hi, m, x, n1, e1, tag="pp"))


def _ss_inv(E, Lc):
    """placeholder loop: list untouched; index = old keys + the identifiers of the first t items, which are pairwise different and new"""
    n0, e0 = L(E.s0, E["self"])
    m, x = L(E.s0, E["y"])
    dom0, _ = Dv(E.s0, E["self"])
    dom, _ = Dv(Lc.st, E["self"])
    idA = idarr(E, E.s0)
    t = Lc.i
    k, k2, j, j2, a, b, w = qv("sk", Id), qv("sk2", Id), qv("sj"), qv("sj2"), qv("sa"), qv("sb"), qv("sw")
    return z3.And(
        same_list(E, E.s0, Lc.st, E["self"]),
        FA([k], z3.Implies(z3.Select(dom0, k), z3.Select(dom, k)), patterns=[z3.Select(dom0, k)]),
        FA([j], z3.Implies(z3.And(0 <= j, j < t), z3.Select(dom, idA[x[j]])), patterns=[x[j]]),
        FA([k2], z3.Implies(z3.And(z3.Select(dom, k2), z3.Not(z3.Select(dom0, k2))),
                            z3.Exists([w], z3.And(0 <= w, w < t, idA[x[w]] == k2))), patterns=[z3.Select(dom, k2)]),
        FA([j2], z3.Implies(z3.And(0 <= j2, j2 < t), z3.Not(z3.Select(dom0, idA[x[j2]]))), patterns=[x[j2]]),
        FA([a, b], z3.Implies(z3.And(0 <= a, a < b, b < t), idA[x[a]] != idA[x[b]]), patterns=[z3.MultiPattern(x[a], x[b])]))


def _ss_mod(E):
    return dl_locs(E) + [havoc_index_attr(E)]


def _ss_cases():
    ok = Case("slice_new_unique_ids", requires=_ss_ok, ensures=_ss_post)
    dup = Case("slice_duplicate_id", requires=lambda E: z3.Not(_ss_ok(E)), raises="ValueError", ensures=lambda E: unchanged_dl(E, E["self"]))
    dup.modifies_on_raise = _ss_mod
    for c in (ok, dup):
        c.types = {"i": VSlice}
    return [ok, dup]


REG.add(Contract(M, "DictList.__setitem__", "C15", [SELF, ("i", TCustom(C15._slice_type)), YS], _ss_cases(),
                 pre=lambda E: z3.And(WF(E, E.s0, E["self"]), L(E.s0, E["y"])[0] >= 0), modifies=_ss_mod,
                 loops={0: LoopSpec(_ss_inv, lambda E, Lc: [("dict", dict_of(Lc.st, E["self"]))])}, key="DictList.__setitem__@slice",
                 note="PROVED (second contract of __setitem__, for a simple slice i and a list y that is not self): see contracts/c15_query.py"))


def _lss_env(E):
    return Env(dict(E.a, i=VSlice(E["i"], E["j"], NONE)), E.s0, E.s1, res=E.res, eng=E.eng)


REG.add(Contract(M, "DictList.__setslice__", "C15", [SELF, ("i", TInt()), ("j", TInt()), YS], [
    Case("new_unique_ids", requires=lambda E: _ss_ok(E), ensures=lambda E: _ss_post(_lss_env(E))),
    Case("duplicate_id", requires=lambda E: z3.Not(_ss_ok(E)), raises="ValueError", ensures=lambda E: unchanged_dl(E, E["self"])),
], pre=lambda E: z3.And(WF(E, E.s0, E["self"]), L(E.s0, E["y"])[0] >= 0), modifies=_ss_mod, key="DictList.__setslice__",
    note="PROVED over the proved slice contract of __setitem__ (dead code under Python 3: slicing syntax never calls it)"))

KEYS += ["DictList.__setitem__@slice", "DictList.__setslice__"]


# ================================================================ selection by a boolean mask:  dl[[True, False, ...]]
def _mask(E):
    rec = E.s0.objs[E["i"].oid]
    return rec["len"], rec["elem"]


def _mask_post(E):
    if not _fresh_dl(E):
        return z3.BoolVal(False)
    g = E.s1.ghost.get("query_maps")
    if g is None or g[3] != E.res.oid:
        return z3.BoolVal(False)
    m, src, dst, _ = g
    n0, e0 = L(E.s0, E["self"])
    n1, e1 = L(E.s1, E.res)
    dom1, val1 = Dv(E.s1, E.res)
    _, mk = _mask(E)
    ida = idarr(E, E.s0)
    i, j, i2, j2, i3 = qv("mi"), qv("mj"), qv("mi2"), qv("mj2"), qv("mi3")
    return z3.And(
        WF(E, E.s1, E.res), unchanged_dl(E, E["self"]), z3.And(n1 == m, 0 <= m, m <= n0),
        FA([j], z3.Implies(z3.And(0 <= j, j < m), z3.And(0 <= src[j], src[j] < n0, mk[src[j]], e1[j] == e0[src[j]], dst[src[j]] == j)),
           patterns=[e1[j]]),
        FA([i2, j2], z3.Implies(z3.And(0 <= i2, i2 < j2, j2 < m), src[i2] < src[j2]), patterns=[z3.MultiPattern(src[i2], src[j2])]),
        FA([i], z3.Implies(z3.And(0 <= i, i < n0, mk[i]), z3.And(0 <= dst[i], dst[i] < m, src[dst[i]] == i, e1[dst[i]] == e0[i])),
           patterns=[dst[i]]),
        FA([i3], z3.Implies(z3.And(0 <= i3, i3 < n0), mk[i3] == z3.And(z3.Select(dom1, ida[e0[i3]]), e1[val1[ida[e0[i3]]]] == e0[i3])),
           patterns=[e0[i3]]))


def _mask_cases():
    same = lambda E: _mask(E)[0] == L(E.s0, E["self"])[0]  # noqa
    nonempty = lambda E: L(E.s0, E["self"])[0] > 0  # noqa
    out = [Case("mask_full_length", requires=lambda E: z3.And(same(E), nonempty(E)), ensures=_mask_post),
           Case("mask_empty_on_empty_list", requires=lambda E: z3.And(same(E), z3.Not(nonempty(E))), raises="IndexError",
                ensures=lambda E: unchanged_dl(E, E["self"])),
           Case("list_of_other_length", requires=lambda E: z3.Not(same(E)), raises="TypeError", ensures=lambda E: unchanged_dl(E, E["self"]))]
    for c in out:
        c.types = {"i": VObj}
    return out


REG.add(Contract(M, "DictList.__getitem__", "C15", [SELF, ("i", TList("bool"))], _mask_cases(),
                 pre=lambda E: z3.And(WF(E, E.s0, E["self"]), _mask(E)[0] >= 0), key="DictList.__getitem__@mask",
                 note="PROVED (third contract of __getitem__, for a list of booleans): see contracts/c15_query.py"))

KEYS += ["DictList.__getitem__@mask"]


# ================================================================ the pickle round trip, from the very contracts
def lemmas(_drop_copy=False, prefix="C15"):
    """What unpickling does with the reduce value (cls, (), state, iterator) is CPython's (trusted): new = cls(); the items - COPIES of
    the elements, each carrying the identifier of its original (hypothesis COPY) - are added in batches, `new.extend(batch)` for a
    batch of several, `new.append(x)` for a batch of one; then `new.__setstate__(state)`.  With the invariant
        INV(p): new is well formed, has p elements, element j is copy j
    the obligations are closed formulas over synthetic states whose hypotheses are the POST-CONDITIONS of the proved contracts
    (DictList.__init__ / extend / append / __setstate__) and whose goals are the next contract's non-raising `requires` and INV:
      base, step-extend (requires + INV(q)), step-append (requires + INV(p + 1)), final (requires + conclusion).
    `_drop_copy=True` leaves the hypothesis COPY out (a check that the lemmas are NOT provable without it: the three `requires`
    obligations and the conclusion must then fail)."""
    from pyvc.engine import Engine, Obl
    from pyvc.state import State
    from pyvc.loops import havoc_locations
    eng = Engine(REG)
    st, orig = TDictList("Object").make(State(), "rt_orig")
    st, nw = TDictList("Object").make(st, "rt_new")
    st, xs = TList(C15.OBJ).make(st, "rt_copies")
    st, bt = TList(C15.OBJ).make(st, "rt_batch")
    ida = eng.heap_arr(st, "_id")
    n, eo = L(st, orig)
    do, vo = Dv(st, orig)
    nx, ex = L(st, xs)
    nb, eb = L(st, bt)
    p, q = z3.Int("rt_p"), z3.Int("rt_q")
    j = qv("rt")
    E_ = Env({"self": orig}, st, st, eng=eng)
    COPY = [WF(E_, st, orig), nx == n,
            FA([j], z3.Implies(z3.And(0 <= j, j < n), ida[ex[j]] == ida[eo[j]]), patterns=[ex[j], eo[j]])]
    if _drop_copy:
        COPY = COPY[:2]

    def inv(s, t):
        m, e = L(s, nw)
        jj = qv("iv")
        return [WF(E_, s, nw), m == t, 0 <= t, t <= n, FA([jj], z3.Implies(z3.And(0 <= jj, jj < t), e[jj] == ex[jj]), patterns=[e[jj]])]

    def hav(s, locs):
        return havoc_locations(eng, s, locs)
    out = []
    P = prefix + "/lemma/dictlist-pickle-round-trip/"
    # base: DictList()
    c_init = REG.get("DictList.__init__").cases[0]
    E0 = Env({"self": nw, "args": VTuple(())}, st, eng=eng)
    s1 = hav(st, C15._init_mod(E0))
    E01 = Env({"self": nw, "args": VTuple(())}, st, s1, res=nw, eng=eng)
    hb = COPY + list(s1.pc) + [c_init.ensures(E01)]
    out.append(Obl(P + "base", hb, z3.And(*inv(s1, z3.IntVal(0))), "lemma"))
    # step: extend(batch), batch = copies p .. q-1
    c_ext = REG.get("DictList.extend")
    Ee = Env({"self": nw, "iterable": bt}, st, eng=eng)
    BATCH = [p <= q, q <= n, nb == q - p, FA([j], z3.Implies(z3.And(0 <= j, j < q - p), eb[j] == ex[p + j]), patterns=[eb[j]])]
    hs = COPY + inv(st, p) + BATCH
    out.append(Obl(P + "step-extend:requires", hs, c_ext.cases[0].requires(Ee), "lemma"))
    s1 = hav(st, c_ext.modifies(Ee))
    Ee1 = Env({"self": nw, "iterable": bt}, st, s1, eng=eng)
    out.append(Obl(P + "step-extend:invariant", hs + list(s1.pc) + [c_ext.cases[0].ensures(Ee1)], z3.And(*inv(s1, q)), "lemma"))
    # step: append(copy p)
    c_app = REG.get("DictList.append")
    Ea = Env({"self": nw, "entity": VRef(ex[p], "Object")}, st, eng=eng)
    ha = COPY + inv(st, p) + [p < n]
    out.append(Obl(P + "step-append:requires", ha, c_app.cases[0].requires(Ea), "lemma"))
    s1 = hav(st, c_app.modifies(Ea))
    Ea1 = Env({"self": nw, "entity": VRef(ex[p], "Object")}, st, s1, eng=eng)
    out.append(Obl(P + "step-append:invariant", ha + list(s1.pc) + [c_app.cases[0].ensures(Ea1)], z3.And(*inv(s1, p + 1)), "lemma"))
    # final: __setstate__(state)
    c_ss = REG.get("DictList.__setstate__")
    Es = Env({"self": nw, "state": NONE}, st, eng=eng)
    hf = COPY + inv(st, n)
    out.append(Obl(P + "final:requires", hf, c_ss.cases[0].requires(Es), "lemma"))
    s1 = hav(st, c_ss.modifies(Es))
    Es1 = Env({"self": nw, "state": NONE}, st, s1, eng=eng)
    m1, e1 = L(s1, nw)
    d1, v1 = Dv(s1, nw)
    k = qv("rk", Id)
    concl = z3.And(WF(E_, s1, nw), m1 == n,
                   FA([j], z3.Implies(z3.And(0 <= j, j < n), z3.And(e1[j] == ex[j], ida[e1[j]] == ida[eo[j]])), patterns=[e1[j], eo[j]]),
                   FA([k], z3.And(z3.Select(d1, k) == z3.Select(do, k), z3.Implies(z3.Select(do, k), v1[k] == vo[k])),
                      patterns=[z3.Select(d1, k), z3.Select(do, k)]))
    hfin = hf + list(s1.pc) + [c_ss.cases[0].ensures(Es1)]
    out.append(Obl(P + "final:same-identifiers-same-order-same-index", hfin, concl, "lemma"))
    # vacuity guards: no hypothesis set is (cheaply) contradictory
    for nm, hy in (("base", hb), ("step", hs), ("append", ha), ("final", hfin)):
        probe = z3.Solver()
        probe.set("timeout", 5000)
        probe.add(*hy)
        if probe.check() == z3.unsat:
            raise RuntimeError(f"c15_query.lemmas: contradictory hypotheses in {nm} (vacuous lemma)")
    return out


# ================================================================ __dir__
def _dir_post(E):
    le = _new_plain_list(E)
    dl = E.s1.ghost.get("dir_list")
    if le is None or dl is None or dl.oid != E.res.oid:
        return z3.BoolVal(False)
    m, el = le
    d0 = E.s1.ghost.get("dir_len0")
    dom, _ = Dv(E.s0, E["self"])
    drec = E.s0.objs[dict_of(E.s0, E["self"]).oid]
    g = E.s1.ghost.get(("order", dict_of(E.s0, E["self"]).oid, drec["dom"].get_id()))
    if g is None or d0 is None:
        return z3.BoolVal(False)
    order, pos, card = g
    k = qv("dk", Id)
    return z3.And(m == d0 + 1 + card, z3.Select(el, d0) == unwrap(VConc("_dict"), "id"),
                  # every identifier in the index is listed (at a position after the class attributes)
                  FA([k], z3.Implies(z3.Select(dom, k), z3.And(0 <= pos[k], pos[k] < card, z3.Select(el, d0 + 1 + pos[k]) == k)),
                     patterns=[z3.Select(dom, k)]),
                  unchanged_dl(E, E["self"]))


REG.add(Contract(M, "DictList.__dir__", "C15", [SELF], [Case("any", ensures=_dir_post)], pre=lambda E: TRUE(), key="DictList.__dir__",
                 note="PROVED: the NEW list dir(DictList) (assumed: a new list of strings) + ['_dict'] + every identifier of the index "
                      "(each at a definite position, ghost enumeration of the dictionary); nothing written"))

KEYS += ["DictList.__dir__"]
