"""C09 — the DRIVER functions around the proved formulation builders: parsimonious.pfba / optimize_minimal_flux, moma.moma, room.room.

Post-conditions from the property statement ("pFBA returns a ... distribution ... whose total absolute flux is the smallest possible
...; its reported objective value is that total. Linear MOMA returns a feasible distribution of the given model whose summed
absolute distance ... is minimal, and ROOM one that minimises ...") and the docstrings ("The solution object to the optimized model
with pFBA constraints added"), as DATA FLOW: which problem is in the solver when the one solve is made, which solve the returned
Solution is read from, and that the model's context is closed on every exit.  What the solver's optimum IS is C04 (monitored).

pfba(model, fraction_of_optimum, objective, reactions)   [key `pfba`; proved for objective = None, any number of reactions]
  * ADD.  add_pfba(model, objective=<the objective given>, fraction_of_optimum=<the fraction given>) is called exactly once, first,
    on the untouched model, while the function's own context is the innermost one.  Its PROVED contract (c09_pfba) is applied.
  * SOLVE.  then exactly ONE solve, model.slim_optimize(error_value=None), in that context, in a state in which the effect of add_pfba
    still holds: objective named _pfba_objective, direction min, coefficient 1 on the forward AND the reverse variable of every
    reaction and 0 elsewhere (the total absolute flux, by the three pFBA lemmas).  With error_value=None a status other than optimal
    RAISES (proved contract of Model.slim_optimize, C04): on that exit no Solution is returned, get_solution was never called, the
    solver's status is not optimal and the context is closed.
  * READ.  get_solution(model, reactions=R) is called once, AFTER that solve, with nothing changed in between (solver status / value,
    objective, coefficients as the solve left them) and INSIDE the context (stack = entry stack + 1: before the pFBA objective is
    rolled back); R is model.reactions when reactions is None, else model.reactions.get_by_any(reactions) (opaque, ASSUMED as in C19).
  * RETURN.  the value returned is THAT Solution, unchanged: its status is optimal and its objective_value is the solver's objective
    value of THAT solve (finite), i.e. of the total-flux objective.
  * CONTEXT.  the context stack is as at entry on return, when the solve raises (OptimizationError) and when add_pfba refuses a model
    that already has a pFBA objective (ValueError: nothing solved, nothing read).
  Stated precondition: objective is None (add_pfba is proved for that case only), reactions DictList well formed, every reaction
  attached to the model (add_pfba's precondition).  A Solution is an opaque term S with spec functions solution.status(S),
  solution.objective_value(S): get_solution sets them to the solver's status / objective value at the time of the call (proved on
  get_solution:body under C04 for the default reaction list; the same two fields for an explicit list are ASSUMED - they do not
  depend on the list) and raises exactly when check_solver_status does (C04's assumed `get_solution`).
  Callers see: a Solution with status optimal and a finite objective value, or OptimizationError / ValueError; the stack as at entry;
  objective attributes / coefficients as MODIFIED (their rollback at context exit is C03 / C13 and is not replayed in this heap
  model; `apply_restoring` below is the call-site form that adds that rollback as a trusted step).
optimize_minimal_flux(*args, **kwargs)   [key `optimize_minimal_flux`]
  exactly one call pfba(*args, **kwargs) - the same positional values in the same order, the same keywords - whose result is returned
  (its exceptions propagate); the deprecation warning is an abstract call.
moma(model, solution, linear) / room(model, solution, linear, delta, epsilon)   [keys `moma`, `room`]
  * exactly one add_moma(model=model, solution=solution, linear=linear) / add_room(model=model, solution=solution, linear=linear,
    delta=delta, epsilon=epsilon) - every argument the driver's own, unchanged - first, on the untouched model, in the function's own
    context; the PROVED contract of the builder is applied (add_moma: linear = True, and linear = False through `add_moma@quadratic`
    below; add_room: any linear / delta / epsilon) in its call-site form: the list handed to add_cons_vars is a ghost (len 2 + 3n
    resp. 2 + 2n, the documented entries), the objective installed is the documented one (lemmas `call-form-follows`);
  * then exactly ONE model.optimize() (own direction, default error handling), in that context, in a state in which that effect still
    holds; the Solution returned is the one of THAT solve (Model.optimize = solve + get_solution: status / objective_value are the
    solver's after it); the local name `solution` is rebound only then;
  * the context is closed on return, when the solve raises, when the builder's reference pfba(model) raises (solution None: nothing
    built) and when the builder raises ValueError (already adjusted).
  Model.optimize() is called with its default raise_error=False: a status that still has primal values (e.g. "infeasible") does NOT
  raise; the Solution then carries that status (proved: its status IS the solver's after the solve) - unlike pfba, which raises.
Further down: add_moma with linear=False (key `add_moma@quadratic`), the upgrade of add_room / add_moma (linear) from the ASSUMED pfba
to the proved contract `pfba` (new proved exit: OptimizationError with nothing built), and the lemmas.

Hook tables: HOOKS (pfba, optimize_minimal_flux, moma, room), HOOKS_Q (add_moma@quadratic, add_room, add_moma); Q_HOOKS is what a
property chains BEFORE c09_room.OWN_HOOKS.

Mutation trials (tools/mutate_and_run.sh; every one NOT verified, obligation named):
  pfba   get_solution moved out of the `with` block ....................... exit=return/post (sat)
         slim_optimize(error_value=None) -> slim_optimize() ................ exit=return/post, exit=raise:OptimizationError/post (sat)
         fraction_of_optimum=fraction_of_optimum -> =1.0 .................... exit=return/post (sat)
         the solve deleted .................................................... exit=return/post (sat)
         Solution read BEFORE the solve ....................................... exit=return/post (sat)
         add_pfba called before the context is entered ...................... exit=return/post.1 (sat)
         get_solution(m) without reactions= ................................... exit=return/post (sat)
         a second slim_optimize() after the block ............................ exit=return/post (sat)
  optimize_minimal_flux   pfba(*args) without **kwargs ....................... exit=return/post.1 (sat)
  moma   optimize() moved out of the `with` block ........................... exit=return/post.10 (sat)
         model.optimize() result dropped (the reference returned) ........... exit=return/post (sat)
         solution=None instead of solution=solution .......................... case reference_given exit=return/post (sat)
  room   delta / epsilon swapped .............................................. exit=return/post (sat)
         optimize(objective_sense="maximize") ................................. exit=return/post (sat)
         solved twice .......................................................... exit=return/post, exit=raise/post (sat)
  add_moma@quadratic   reference paired by POSITION (fluxes.iloc[k]) ........ loop#0/inv-preserve.4 (unknown)
         flux_expression + dist ................................................ loop#0/inv-preserve.4 (unknown)
         dist instead of dist**2 ............................................... loop#0/inv-preserve.6 (unknown)
         ub=flux dropped (inequality instead of equality) ..................... loop#0/inv-preserve.4 (unknown)
         const not appended .................................................... loop#0/inv-preserve.1 (sat)
         final objective direction="max" ....................................... exit=return/post.8 (sat)
         pfba(model) called after the objective was replaced .................. exit=return/post (sat)
         old-objective constraint built on the already replaced objective ..... loop#0/inv-init.3 (sat)
         "already adjusted" check removed ...................................... already_moma: expected-ValueError (sat)
         add_cons_vars call removed ............................................ exit=return/post (sat)
  add_room (upgraded)   failure of the reference pfba swallowed (try/except: return None) ... reference_from_pfba exit=return#2/post.1 (sat)
         pfba(model, 0.5) ........................................................ reference_from_pfba exit=return/post.1 (sat)
  add_moma (upgraded)   pfba(model) called twice ................................ reference_from_pfba exit=return/post.1 (sat)
"""
import copy
import z3
import cobra  # noqa
from .common import *  # noqa
from . import c15_dictlist  # noqa
from . import c01_lp as C1
from . import c03_context as C3
from . import c04_status as C4
from . import c05_fva as C5
from . import c09_pfba as CP
from . import c09_room as CR
from . import c09_moma as CM
from pyvc import npalg as N
from pyvc.state import alloc_list
from pyvc.values import VReal, id_lit

MP = CP.MP
MINE = {"pfba", "optimize_minimal_flux", "moma", "room"}
sol_status = z3.Function("solution.status", N.NP, Id)
sol_value_k = z3.Function("solution.objective_value.kind", N.NP, z3.IntSort())
sol_value_v = z3.Function("solution.objective_value", N.NP, z3.RealSort())
MODEL_REACTIONS = z3.Const("np:model.reactions", N.NP)


def _model_t():
    obj = TObj("Objective", {"name": TStr(), "direction": TStr(), "value": TReal(), "expression": N.TNp()})
    sol = TObj("Solver", {"status": TStr(), "objective": obj, "variables": N.TNp()})
    return TObj("Model", {"_contexts": TList("ref:HistoryManager"), "_solver": sol, "reactions": TDictList("Reaction"),
                          "problem": N.TNp()})


def _dl(st, m):
    return st.objs[m.oid]["attr:reactions"]


# ---------------------------------------------------------------- ghost trace
def _verifying(eng):
    return getattr(getattr(eng, "cur_contract", None), "key", None) in MINE


def _tr(st):
    return st.ghost.get("trace", ())


def _log(st, tr0, *event):
    """the callee contracts reset the ghost trace (it is THEIR trace while they are proved): the driver's trace is re-installed"""
    return st.setghost("trace", tr0 + (tuple(event),))


def _kws(kw):
    return tuple(sorted(kw.items(), key=lambda x: x[0]))


def _new_solution(st, model, base):
    """a Solution assembled from the solver's CURRENT state: status and objective_value are the solver's (get_solution:body, C04)"""
    S = fresh("np:" + base, N.NP)
    val = C4.value_of(st, model)
    st = st.assume(sol_status(S) == C4.status_of(st, model).t, sol_value_k(S) == val.k, sol_value_v(S) == val.v)
    return st, N.VNp(S)


# ---------------------------------------------------------------- Model.optimize at a call site (as in c17_loopless)
_base_opt = REG.get("Model.optimize")


def _pick(case, pred):
    c = copy.copy(case)
    c.applies = pred
    return c


OPT = copy.copy(_base_opt)
OPT.call_cases = [_pick(_base_opt.cases[0], lambda a, st: isinstance(a.get("objective_sense"), VNone)),
                  _pick(_base_opt.cases[1], lambda a, st: not isinstance(a.get("objective_sense"), VNone))]


# ---------------------------------------------------------------- hooks (only while one of the drivers is executed)
ABSTRACT = ("add_pfba", "get_solution", "add_moma", "add_room", "pfba", "warn", "DeprecationWarning")


def global_hook(eng, name):
    if _verifying(eng) and name in ABSTRACT:
        return VFunc("abstract", name)
    return None


def _apply_logged(eng, st, con, name, pos, kw):
    tr0 = _tr(st)
    outs = eng.apply_contract(st, con, list(pos), kw)
    return [(k, _log(s, tr0, name, tuple(pos), _kws(kw), st, s, v) if k == "ok" else s.setghost("trace", tr0), v) for k, s, v in outs]


def call_abstract(eng, st, f, pos, kw):
    if not _verifying(eng):
        return None
    if f.a == "add_pfba":
        return _apply_logged(eng, st, REG.get("add_pfba"), "add_pfba", pos, kw)
    if f.a == "add_moma":
        return _apply_logged(eng, st, add_moma_contract_for(kw.get("linear")), "add_moma", pos, kw)
    if f.a == "add_room":
        return _apply_logged(eng, st, REG.get("add_room"), "add_room", pos, kw)
    if f.a == "pfba":
        return _apply_logged(eng, st, REG.get("pfba"), "pfba", pos, kw)
    if f.a == "get_solution":
        # raises exactly when check_solver_status does (C04's assumed contract); the Solution's status / value are the solver's NOW
        tr0 = _tr(st)
        res = []
        for k, s, v in eng.apply_contract(st, REG.get("get_solution"), list(pos[:1]), {}):
            if k == "ok":
                s, v = _new_solution(s, pos[0], "solution")
                s = _log(s, tr0, "get_solution", tuple(pos), _kws(kw), st, v)
            res.append((k, s, v))
        return res
    if f.a == "warn":
        return [("ok", st, NONE)]
    return None


def call_method_hook(eng, st, recv, name, pos, kw):
    if not _verifying(eng) or not isinstance(recv, VObj):
        return None
    if recv.cls == "Model" and name == "slim_optimize":
        tr0 = _tr(st)
        res = []
        for k, s, v in eng.apply_contract(st, REG.get("Model.slim_optimize"), [recv] + list(pos), kw):
            res.append((k, _log(s, tr0, "slim_optimize" if k == "ok" else "slim_optimize:raised", recv, tuple(pos), _kws(kw), st, s, v), v))
        return res
    if recv.cls == "Model" and name == "optimize":
        a = dict(kw)
        if len(pos) < 2:
            a.setdefault("raise_error", VBool(False))
        if not pos:
            a.setdefault("objective_sense", NONE)
        tr0 = _tr(st)
        res = []
        for k, s, v in eng.apply_contract(st, OPT, [recv] + list(pos), a):
            if k == "ok":
                s, v = _new_solution(s, recv, "solution")
                s = _log(s, tr0, "optimize", recv, tuple(pos), _kws(kw), st, s, v)
            else:
                s = _log(s, tr0, "optimize:raised", recv, tuple(pos), _kws(kw), st, s, v)
            res.append((k, s, v))
        return res
    if recv.cls == "DictList" and name == "get_by_any":
        # model.reactions.get_by_any(reactions): the resolved list is opaque (ASSUMED, as in C19: the reactions named by the argument)
        return [("ok", st, N.app("DictList.get_by_any", N.VNp(MODEL_REACTIONS), *pos))]
    return None


HOOKS = chain_hooks({"global": global_hook, "call_abstract": call_abstract, "call_method": call_method_hook}, N.HOOKS)
REG.external_classes = getattr(REG, "external_classes", set()) | {"Solver", "Objective"}


# ---------------------------------------------------------------- specification helpers
def _stack_as_at_entry(E, st):
    n0, e0 = C3._ctxs(E.s0, E["model"])
    n1, e1 = C3._ctxs(st, E["model"])
    j = qv("cj")
    return z3.And(n1 == n0, FA([j], z3.Implies(z3.And(0 <= j, j < n0), e1[j] == e0[j])))


def _in_own_context(E, st):
    """the context stack is the entry stack plus ONE context on top (the function's own `with model`)"""
    n0, e0 = C3._ctxs(E.s0, E["model"])
    n1, e1 = C3._ctxs(st, E["model"])
    j = qv("oj")
    return z3.And(n1 == n0 + 1, FA([j], z3.Implies(z3.And(0 <= j, j < n0), e1[j] == e0[j])))


def _is_model(E, v):
    return isinstance(v, VObj) and v.oid == E["model"].oid


def _solver_objs(st, m):
    sol = C4.solver_of(st, m)
    return [m.oid, sol.oid, C4.objective_of(st, m).oid, _dl(st, m).oid]


GHOSTS = ("objc", "objc_np", "objective_installed", "installed_objective")


def _same_problem(sa, sb, m, heap=("_lower_bound", "_upper_bound", "_id"), eng=None):
    """nothing the solver sees differs between the two states: the model / solver / objective records and the ghost coefficient maps
    are the SAME python objects / z3 terms (identity: no write happened in between)"""
    same = all(sa.objs[o] is sb.objs[o] for o in _solver_objs(sa, m)) and _solver_objs(sa, m) == _solver_objs(sb, m)
    for g in GHOSTS:
        x, y = sa.ghost.get(g), sb.ghost.get(g)
        same = same and (x is y or (x is not None and y is not None and z3.is_expr(x) and z3.is_expr(y) and x.eq(y)))
    for k in set(sa.ghost) | set(sb.ghost):
        if isinstance(k, tuple) and k and k[0] == "added":
            same = same and sa.ghost.get(k) is sb.ghost.get(k)
    return bool(same)


def _own_direction(kws):
    d = dict(kws)
    return set(d) <= {"objective_sense"} and all(isinstance(x, VNone) for x in d.values())


def _is_solution_of(E, S, st):
    """S carries the solver's status and objective value of state st"""
    val = C4.value_of(st, E["model"])
    return z3.And(sol_status(S) == C4.status_of(st, E["model"]).t, sol_value_k(S) == val.k, sol_value_v(S) == val.v)


def _ctx_mod(E):
    m = E["model"]
    return [("heap", "hm_len"), ("attr", m, "_contexts", lambda st: alloc_list(st, "ref:HistoryManager")),
            ("ghost", "world", lambda st: fresh("world", C3.World)), ("ghost", "trace", lambda st: ())]


def _new_result(eng, st, E):
    return st, N.VNp(fresh("np:solution", N.NP))


def _visible_result(E):
    """what a caller may rely on: a Solution of an OPTIMAL solve with a finite objective value; the context stack as at entry"""
    if not isinstance(E.res, N.VNp):
        return z3.BoolVal(False)
    return z3.And(sol_status(E.res.t) == id_lit("optimal"), sol_value_k(E.res.t) == 0, _stack_as_at_entry(E, E.s1))


# ================================================================ pfba
def _pfba_pre(E):
    return CP._pre(E)


def _pfba_mod(E):
    m = E["model"]
    return _ctx_mod(E) + CP._mod(Env({"model": m}, E.s0, eng=E.eng)) + C4._slim_mod(Env({"self": m}, E.s0, eng=E.eng))


def _resolved(E):
    """the reaction list get_solution must be given"""
    if isinstance(E["reactions"], VNone):
        return lambda v: isinstance(v, VObj) and v.oid == _dl(E.s0, E["model"]).oid
    want = N.term("DictList.get_by_any", MODEL_REACTIONS, E["reactions"].t)
    return lambda v: isinstance(v, N.VNp) and v.t.eq(want)


def _pfba_post(E):
    if E.role != "goal":
        return _visible_result(E)
    m = E["model"]
    tr = _tr(E.s1)
    if [ev[0] for ev in tr] != ["add_pfba", "slim_optimize", "get_solution"]:
        return z3.BoolVal(False)
    cs = []
    # ADD: add_pfba(model, objective=objective, fraction_of_optimum=fraction_of_optimum), first, on the untouched model, in the own context
    _, pos, kws, st_add, st_added, _none = tr[0]
    kwd = dict(kws)
    if not (len(pos) == 1 and _is_model(E, pos[0]) and set(kwd) == {"objective", "fraction_of_optimum"}
            and kwd["objective"] is E["objective"] and kwd["fraction_of_optimum"] is E["fraction_of_optimum"]
            and len(_tr(st_add)) == 0 and _same_problem(E.s0, st_add, m)):
        return z3.BoolVal(False)
    cs.append(_in_own_context(E, st_add))
    # SOLVE: one slim_optimize(error_value=None) on the model, the effect of add_pfba in force, in the own context
    _, recv, spos, skws, st_solve, st_solved, _val = tr[1]
    if not (_is_model(E, recv) and not spos and len(skws) == 1 and skws[0][0] == "error_value" and isinstance(skws[0][1], VNone)):
        return z3.BoolVal(False)
    Eadd = Env({"model": m, "objective": E["objective"], "fraction_of_optimum": E["fraction_of_optimum"]}, st_add, st_solve, eng=E.eng)
    cs += [CP._post_call(Eadd), _in_own_context(E, st_solve)]
    # READ: get_solution(model, reactions=R) right after that solve, inside the context
    _, gpos, gkws, st_read, sol = tr[2]
    gk = dict(gkws)
    if not (len(gpos) == 1 and _is_model(E, gpos[0]) and set(gk) == {"reactions"} and _resolved(E)(gk["reactions"])
            and _same_problem(st_solved, st_read, m)):
        return z3.BoolVal(False)
    cs.append(_in_own_context(E, st_read))
    cs.append(CP._obj(Eadd, st_read)["attr:name"].t == id_lit("_pfba_objective"))      # not yet rolled back
    # RETURN: that Solution; status optimal, objective value = the solver's value of THAT solve (finite)
    if not (isinstance(E.res, N.VNp) and E.res.t.eq(sol.t)):
        return z3.BoolVal(False)
    cs += [_is_solution_of(E, sol.t, st_solved), sol_status(sol.t) == id_lit("optimal"), sol_value_k(sol.t) == 0]
    # CONTEXT
    cs.append(_stack_as_at_entry(E, E.s1))
    return z3.And(*cs)


def _pfba_solve_failed(E):
    """OptimizationError: raised by the ONE solve (not by get_solution), whose status is not optimal; no Solution was assembled"""
    if E.role != "goal":
        return _stack_as_at_entry(E, E.s1)
    tr = _tr(E.s1)
    if [ev[0] for ev in tr] != ["add_pfba", "slim_optimize:raised"]:
        return z3.BoolVal(False)
    st_failed = tr[1][5]
    return z3.And(z3.Not(C4._is_status(C4.status_of(st_failed, E["model"]), "optimal")), _stack_as_at_entry(E, E.s1))


def _pfba_refused(E):
    if E.role != "goal":
        return _stack_as_at_entry(E, E.s1)
    return z3.And(z3.BoolVal(len(_tr(E.s1)) == 0), _stack_as_at_entry(E, E.s1))


def _pfba_cases():
    out = []
    for tag, t in (("all_reactions", TNone()), ("reactions_given", N.TNp())):
        pred = (lambda a, st: isinstance(a["reactions"], VNone)) if tag == "all_reactions" else (lambda a, st: not isinstance(a["reactions"], VNone))
        c = Case(tag, requires=lambda E: z3.Not(CP._already(E)), ensures=_pfba_post)
        c.may_raise = "OptimizationError"
        c.ensures_on_raise = _pfba_solve_failed
        c.modifies_on_raise = _pfba_mod
        bad = Case("already_pfba/" + tag, requires=CP._already, raises="ValueError", ensures=_pfba_refused)
        bad.modifies_on_raise = _ctx_mod
        c.params_override = bad.params_override = {"reactions": t}
        c.applies = bad.applies = pred
        out += [c, bad]
    return out


_fr = N.TNp()
_fr.default = VReal(0, z3.RealVal(1))
_ob = TNone()
_ob.default = NONE
_rx = TNone()
_rx.default = NONE
REG.add(Contract(MP, "pfba", "C09", [("model", _model_t()), ("fraction_of_optimum", _fr), ("objective", _ob), ("reactions", _rx)],
                 _pfba_cases(), pre=_pfba_pre, modifies=_pfba_mod, key="pfba", result=_new_result,
                 note="objective = None (add_pfba is proved for that case); reactions DictList well formed, every reaction attached to the "
                      "model; the rollback of the pFBA objective / constraint at context exit is C03 / C13 and is not replayed here: "
                      "callers see the objective attributes as modified"))


# ================================================================ optimize_minimal_flux(*args, **kwargs): one pfba call, passed through
def _omf_shapes():
    """(tag, how the arguments are split between *args and **kwargs)"""
    def mk(pos_names, kw_names, types):
        def args(st, name):
            vals = []
            for n in pos_names:
                st, v = types[n].make(st, "omf_" + n)
                vals.append(v)
            return st, VTuple(vals)

        def kwargs(st, name):
            d = {"__kwargs__": True}
            for n in kw_names:
                st, v = types[n].make(st, "omf_" + n)
                d[n] = v
            return st, VConc(d)
        return {"args": TCustom(args), "kwargs": TCustom(kwargs)}
    T = {"model": _model_t(), "fraction_of_optimum": N.TNp(), "reactions": N.TNp(), "objective": TNone()}
    return [("model_only", mk(["model"], [], T)),
            ("positional_fraction/keyword_reactions", mk(["model", "fraction_of_optimum"], ["reactions"], T)),
            ("all_keywords", mk([], ["model", "fraction_of_optimum", "objective"], T))]


def _omf_model(E):
    kw = E["kwargs"].py
    return kw["model"] if "model" in kw else E["args"].items[0]


def _omf_env(E):
    return Env({"model": _omf_model(E)}, E.s0, E.s1, res=E.res, exc=E.exc, eng=E.eng, role=E.role)


def _omf_passed_through(E, raised=False):
    """the trace is ONE pfba call whose positional values are *args (same values, same order) and whose keywords are **kwargs"""
    tr = _tr(E.s1)
    if raised:
        return len(tr) == 0          # (a raising call leaves no event: nothing else was called either)
    if len(tr) != 1 or tr[0][0] != "pfba":
        return False
    _, pos, kws, st_call, _after, v = tr[0]
    want_kw = {k: x for k, x in E["kwargs"].py.items() if k != "__kwargs__"}
    return (len(pos) == len(E["args"].items) and all(x is y for x, y in zip(pos, E["args"].items))
            and set(dict(kws)) == set(want_kw) and all(dict(kws)[k] is want_kw[k] for k in want_kw)
            and len(_tr(st_call)) == 0 and _same_problem(E.s0, st_call, _omf_model(E))
            and st_call.objs[_omf_model(E).oid] is E.s0.objs[_omf_model(E).oid] and v is E.res)


def _omf_post(E):
    if E.role != "goal":
        return _visible_result(_omf_env(E))
    return z3.And(z3.BoolVal(bool(_omf_passed_through(E))), _visible_result(_omf_env(E)))


def _omf_raise(E):
    if E.role != "goal":
        return _stack_as_at_entry(_omf_env(E), E.s1)
    return z3.And(z3.BoolVal(bool(_omf_passed_through(E, raised=True))), _stack_as_at_entry(_omf_env(E), E.s1))


def _omf_cases():
    out = []
    for tag, over in _omf_shapes():
        c = Case(tag, requires=lambda E: z3.Not(CP._already(_omf_env(E))), ensures=_omf_post)
        c.may_raise = "OptimizationError"
        c.ensures_on_raise = _omf_raise
        bad = Case("already_pfba/" + tag, requires=lambda E: CP._already(_omf_env(E)), raises="ValueError", ensures=_omf_raise)
        bad.modifies_on_raise = lambda E: _ctx_mod(_omf_env(E))
        c.params_override = bad.params_override = over
        out += [c, bad]
    return out


REG.add(Contract(MP, "optimize_minimal_flux", "C09", [("*args", TTuple([_model_t()])), ("**kwargs", TConc({"__kwargs__": True}))],
                 _omf_cases(), pre=lambda E: _pfba_pre(_omf_env(E)), modifies=lambda E: _pfba_mod(_omf_env(E)),
                 key="optimize_minimal_flux", result=_new_result,
                 note="three ways of splitting the arguments between *args and **kwargs; preconditions of pfba"))


# ================================================================ the builders as seen by a caller (call-site forms)
# add_room / add_moma are PROVED against post-conditions that read the ghost trace of the calls they make (the snapshot of the list handed
# to add_cons_vars).  A caller sees the same conjuncts with that list as a ghost ("added", key) = (len, elem, reference): existential
# introduction over the proved post-condition (lemmas `call-form-follows` below, from the very formulas).
def _added_result(key):
    def result(eng, st, E):
        given = E["solution"]
        S = given.t if isinstance(given, N.VNp) else fresh("np:reference_solution", N.NP)
        ln, elem = fresh("added_len", z3.IntSort()), fresh("added_elem", z3.ArraySort(z3.IntSort(), N.NP))
        return st.setghost(("added", key), (ln, elem, S)), NONE
    return result


def _room_visible(E, S, ln, elem):
    n, rx = CR._rxns(E)
    obj1 = E.s1.objs[CR._objective_of(E.s1, E["model"]).oid]
    x, xr, w = qv("px", N.NP), qv("pr", Ref), qv("pw")
    is_y = z3.Exists([w], z3.And(0 <= w, w < n, x == CR.y_var(E, rx[w])))
    o1 = CR.objc_np(E.s1)
    return z3.And(ln == 2 + 3 * n, elem[0] == CR.old_variable(E), elem[1] == CR.old_constraint(E), CR._blocks(E, S, elem, n, rx),
                  obj1["attr:direction"].t == id_lit("min"),
                  FA([x], o1[x] == z3.If(is_y, z3.RealVal(1), z3.RealVal(0)), patterns=[o1[x]]),
                  FA([xr], C5.objc(E.s1)[xr] == 0, patterns=[C5.objc(E.s1)[xr]]))


def _moma_visible(E, S, ln, elem):
    n, rx = CR._rxns(E)
    obj1 = E.s1.objs[CR._objective_of(E.s1, E["model"]).oid]
    x, xr, w = qv("px", N.NP), qv("pr", Ref), qv("pw")
    is_dist = z3.Exists([w], z3.And(0 <= w, w < n, x == CM.components(E, S, rx[w])[0]))
    o1 = CR.objc_np(E.s1)
    return z3.And(ln == 2 + 3 * n, elem[0] == CR.old_variable(E, CM.OLD_VAR), elem[1] == CR.old_constraint(E, CM.OLD_VAR, CM.OLD_CONS),
                  CM._blocks(E, S, elem, n, rx), obj1["attr:direction"].t == id_lit("min"),
                  FA([x], o1[x] == z3.If(is_dist, z3.RealVal(1), z3.RealVal(0)), patterns=[o1[x]]),
                  FA([xr], C5.objc(E.s1)[xr] == 0, patterns=[C5.objc(E.s1)[xr]]))


VISIBLE = {"add_room": _room_visible, "add_moma": _moma_visible}
VISIBLE_CALL = {}


def _builder_post_call(key):
    def post(E):
        if key in VISIBLE_CALL:
            return VISIBLE_CALL[key](E)
        g = E.s1.ghost.get(("added", key))
        if g is None:
            return z3.BoolVal(False)
        ln, elem, S = g
        return VISIBLE[key](E, S, ln, elem)
    return post


def _builder_call_cases(key, already, tagp=""):
    out = []
    for tag, given in (("reference_given", True), ("reference_from_pfba", False)):
        pred = (lambda given: lambda a, st: isinstance(a["solution"], VNone) != given)(given)
        c = Case(tagp + tag, requires=lambda E: z3.Not(already(E)), ensures=_builder_post_call(key))
        c.result = _added_result(key)
        bad = Case(tagp + "already/" + tag, requires=already, raises="ValueError")
        c.applies = bad.applies = pred
        out += [c, bad]
    return out


REG.get("add_room").call_cases = _builder_call_cases("add_room", CR._already)
REG.get("add_moma").call_cases = _builder_call_cases("add_moma", CM._already, "linear/")


def _is_false(v):
    return isinstance(v, VBool) and z3.is_false(z3.simplify(v.t))


def add_moma_contract_for(linear):
    return REG.get(QKEY) if _is_false(linear) else REG.get("add_moma")


# ================================================================ moma / room
BUILDER = {"moma": ("add_moma", ("model", "solution", "linear")), "room": ("add_room", ("model", "solution", "linear", "delta", "epsilon"))}


def _driver_mod(key):
    def mod(E):
        m = E["model"]
        return _ctx_mod(E) + CR._mod(Env({"model": m}, E.s0, eng=E.eng)) + C4._slim_mod(Env({"self": m}, E.s0, eng=E.eng)) + \
            [("ghost", "installed_objective", lambda st: None)]
    return mod


def _builder_key(key, E):
    return QKEY if key == "moma" and _is_false(E["linear"]) else BUILDER[key][0]


def _driver_post(key):
    bname, names = BUILDER[key]

    def post(E):
        bkey = _builder_key(key, E)
        if E.role != "goal":
            return _visible_driver_result(E)
        m = E["model"]
        tr = _tr(E.s1)
        if [ev[0] for ev in tr] != [bname, "optimize"]:
            return z3.BoolVal(False)
        # BUILD: the builder, every argument the driver's own, first, on the untouched model, in the own context
        _, pos, kws, st_b, st_built, _none = tr[0]
        kwd = dict(kws)
        if not (not pos and set(kwd) == set(names) and all(kwd[k] is E[k] for k in names) and len(_tr(st_b)) == 0
                and _same_problem(E.s0, st_b, m)):
            return z3.BoolVal(False)
        cs = [_in_own_context(E, st_b)]
        # SOLVE: one optimize() in the model's own direction, the builder's effect in force, in the own context
        _, recv, opos, okws, st_solve, st_solved, sol = tr[1]
        if not (_is_model(E, recv) and not opos and _own_direction(okws)):
            return z3.BoolVal(False)
        Eb = Env({k: E[k] for k in names}, st_b, st_solve, eng=E.eng)
        cs += [_builder_post_call(bkey)(Eb), _in_own_context(E, st_solve)]
        # RETURN: the Solution of THAT solve
        if not (isinstance(E.res, N.VNp) and E.res.t.eq(sol.t)):
            return z3.BoolVal(False)
        cs += [_is_solution_of(E, sol.t, st_solved), _stack_as_at_entry(E, E.s1)]
        return z3.And(*cs)
    return post


def _visible_driver_result(E):
    if not isinstance(E.res, N.VNp):
        return z3.BoolVal(False)
    return z3.And(_is_solution_of(E, E.res.t, E.s1), _stack_as_at_entry(E, E.s1))


def _driver_solve_failed(key):
    """OptimizationError: from the ONE solve after the builder - or from the builder's own reference pfba(model) (solution None),
    in which case nothing was built; the context is closed either way"""
    bname, _ = BUILDER[key]

    def post(E):
        if E.role != "goal":
            return _stack_as_at_entry(E, E.s1)
        names = [ev[0] for ev in _tr(E.s1)]
        if names != [bname, "optimize:raised"] and not (names == [] and isinstance(E["solution"], VNone)):
            return z3.BoolVal(False)
        return _stack_as_at_entry(E, E.s1)
    return post


def _driver_refused(E):
    if E.role != "goal":
        return _stack_as_at_entry(E, E.s1)
    return z3.And(z3.BoolVal(len(_tr(E.s1)) == 0), _stack_as_at_entry(E, E.s1))


def _driver_cases(key, already, variants):
    out = []
    for vtag, vover in variants:
        for tag, t in (("reference_given", N.TNp()), ("reference_from_pfba", TNone())):
            pred = (lambda tag, vover: lambda a, st: isinstance(a["solution"], VNone) == (tag != "reference_given") and (
                "linear" not in vover or _is_false(a["linear"]) == (vover["linear"].py is False)))(tag, vover)
            c = Case(vtag + tag, requires=lambda E: z3.Not(already(E)), ensures=_driver_post(key))
            c.may_raise = "OptimizationError"
            c.ensures_on_raise = _driver_solve_failed(key)
            bad = Case(vtag + "already/" + tag, requires=already, raises="ValueError", ensures=_driver_refused)
            bad.modifies_on_raise = _ctx_mod
            c.params_override = bad.params_override = dict(vover, solution=t)
            c.applies = bad.applies = pred
            out += [c, bad]
    return out


_sol = N.TNp()
_sol.default = NONE
_lin_m = TConc(True)
_lin_m.default = VBool(True)
REG.add(Contract(CM.MM, "moma", "C09", [("model", _model_t()), ("solution", _sol), ("linear", _lin_m)],
                 _driver_cases("moma", CM._already, [("linear/", {"linear": TConc(True)}), ("quadratic/", {"linear": TConc(False)})]),
                 pre=lambda E: REG.get(_builder_key("moma", E)).pre(E), modifies=_driver_mod("moma"), key="moma", result=_new_result,
                 note="preconditions of add_moma (with solution None: no pFBA objective installed; linear False: QP-capable solver "
                      "interface); the rollback of the MOMA problem at context exit is C03 / C13 (not replayed here)"))
_sol2 = N.TNp()
_sol2.default = NONE
_lin_r, _dl_r, _ep_r = TBool(), TReal(), TReal()
_lin_r.default, _dl_r.default, _ep_r.default = VBool(False), VReal(0, z3.RealVal("0.03")), VReal(0, z3.RealVal("0.001"))
REG.add(Contract(CR.MR, "room", "C09", [("model", _model_t()), ("solution", _sol2), ("linear", _lin_r), ("delta", _dl_r), ("epsilon", _ep_r)],
                 _driver_cases("room", CR._already, [("", {})]),
                 pre=lambda E: REG.get("add_room").pre(E), modifies=_driver_mod("room"), key="room", result=_new_result,
                 note="preconditions of add_room (with solution None: no pFBA objective installed); the rollback of the ROOM problem at context exit is C03 / C13 (not replayed here)"))


# ================================================================ add_moma, QUADRATIC formulation (linear=False)   [key add_moma@quadratic]
# Documented (docstring of add_moma): minimise sum_i (v^t_i)^2  s.t.  S v^d = 0,  v^t = v^d_i - v_i,  lb_i <= v^d_i <= ub_i, the former
# objective kept as the variable "moma_old_objective"; "If no solution is given, one will be computed using pFBA".  Proved for models
# with any number of reactions, in the opaque algebra (like the linear branch).  With S the reference (the solution given, else the
# result of ONE pfba(model) - by the PROVED contract `pfba` above, made before anything is built or added, its exceptions propagate with
# nothing added) and for EVERY reaction r of the model, in model order, w = S.fluxes[r.id] looked up BY THE REACTION'S ID:
#     dist_r  = Variable("moma_dist_" + r.id)                                   (free: no bounds)
#     const_r = Constraint(flux_expression(r) - dist_r, lb=w, ub=w, name="moma_constraint_" + r.id)       i.e. v^t_r = v_r - w
# the function (a) replaces the objective by Objective(Zero, direction="min", sloppy=True), (b) makes exactly ONE call
# model.add_cons_vars(L),  L = [Variable("moma_old_objective"), Constraint(<objective expression AT ENTRY> - it, lb=0.0, ub=0.0,
# name="moma_old_objective_constraint"), dist_r1, const_r1, dist_r2, const_r2, ...]  (len 2 + 2n), and (c) LAST sets the objective to
# Objective(add([dist_r1**2, dist_r2**2, ...]), direction="min", sloppy=True) - the list given to optlang.symbolics.add has exactly n
# entries, the j-th the square of the j-th reaction's distance variable.  ValueError, nothing done, when "moma_old_objective" exists.
# Stated precondition: the model's solver interface is QP-capable (interface_to_str(model.problem) in qp_solvers), so that the
# solver-switch branch (model.solver = choose_solver(model, qp=True): a different interface, a rebuilt objective) is not taken - in
# this image no QP solver is installed at all; with solution None additionally: no pFBA objective installed (pfba would refuse).
# Trusted at the pfba call site: the context exit inside pfba rolls the objective back (C03 / C13; `apply_restoring`).
QKEY = "add_moma@quadratic"
CR.MINE.add(QKEY)
SUTIL = ("module", "cobra.util.solver")
QP_SOLVERS = z3.Const("np:sutil.qp_solvers", N.NP)


def _quad(eng):
    return getattr(getattr(eng, "cur_contract", None), "key", None) == QKEY


def apply_restoring(eng, st, pos, kw):
    """pfba(model) at a call site: the PROVED contract, then the rollback its context exit performs (trusted: C03 / C13) - the
    objective (name, direction, expression, coefficient ghosts) is again the one the call found; status / value are the solve's"""
    m = pos[0] if pos else kw["model"]
    obj0 = C4.objective_of(st, m)
    rec0 = st.objs[obj0.oid]
    res = []
    for k, s, v in eng.apply_contract(st, REG.get("pfba"), list(pos), kw):
        keep = {a: rec0[a] for a in ("attr:name", "attr:direction", "attr:expression") if a in rec0}
        s = s.updobj(C4.objective_of(s, m).oid, **keep)
        for g in GHOSTS + ("trace",):
            s = s.setghost(g, st.ghost[g]) if g in st.ghost else s.setghost(g, None) if g in s.ghost else s
        if s.ghost.get("trace") is None:
            s = s.setghost("trace", ())
        res.append((k, s, v))
    return res


def q_global(eng, name):
    if _quad(eng) and name == "add":
        return VFunc("abstract", "symbolics.add")
    return None


def q_getattr(eng, st, v, name):
    if _quad(eng) and isinstance(v, VConc) and v.py == SUTIL:
        if name == "interface_to_str":
            return [("ok", st, VFunc("abstract", "interface_to_str"))]
        if name == "qp_solvers":
            return [("ok", st, N.VNp(QP_SOLVERS))]
    return None


def q_call_abstract(eng, st, f, pos, kw):
    if not _quad(eng):
        return None
    if f.a == "interface_to_str":
        return [("ok", st, N.app("interface_to_str", *pos))]
    if f.a == "symbolics.add":
        # optlang.symbolics.add(list): the sum of the list's entries - recorded with the list as it is NOW; the sum itself is opaque
        what = pos[0] if len(pos) == 1 and not kw else None
        snap = None
        if isinstance(what, VObj) and what.kind == "list":
            rec = st.objs[what.oid]
            snap = (rec["len"], rec["elem"], rec["ekind"])
        total = N.VNp(fresh("np:sum_of_squares", N.NP))
        return [("ok", _log(st, _tr(st), "symbolics.add", snap, total), total)]
    return None


def b_call_abstract(eng, st, f, pos, kw):
    """pfba(model) inside add_room / add_moma (both formulations): by the PROVED contract `pfba` (+ the trusted rollback), recorded in
    the builders' trace in the format c09_room reads: ("pfba", positional, keyword names, result, made on the untouched model)"""
    if getattr(getattr(eng, "cur_contract", None), "key", None) in CR.MINE and f.a == "pfba":
        untouched = st.ghost.get("objective_installed") is None and not any(ev[0] != "pfba" for ev in _tr(st))
        res = []
        for k, s, v in apply_restoring(eng, st, pos, kw):
            if k == "ok":
                s = _log(s, _tr(st), "pfba", tuple(pos), tuple(sorted(kw)), v, untouched)
            res.append((k, s, v))
        return res
    return None


def q_setattr(eng, st, v, name, val):
    """model.objective = <optlang Objective>: recorded (which objective, when); the objective object's fields become the new one's"""
    if _quad(eng) and isinstance(v, VObj) and v.cls == "Model" and name == "objective" and isinstance(val, N.VNp):
        obj = CR._objective_of(st, v)
        st2 = st.updobj(obj.oid, **{"attr:name": VStr(fresh("objname", Id)), "attr:expression": N.VNp(fresh("np:objexpr", N.NP)),
                                    "attr:direction": VStr(N_direction(val.t))})
        return [("ok", _log(st2.setghost("installed_objective", val.t), _tr(st), "set_objective", val.t), NONE)]
    return None


objective_direction = z3.Function("np:objective.direction", N.NP, Id)


def N_direction(t):
    """the direction of an optlang Objective built by the opaque constructor call (uninterpreted; pinned for the documented terms)"""
    return objective_direction(t)


Q_HOOKS = chain_hooks({"call_abstract": b_call_abstract},
                      {"global": q_global, "getattr": q_getattr, "call_abstract": q_call_abstract, "setattr": q_setattr})


def q_dist(E, r):
    return N.term("call", N.term("attr.Variable", CR._prob(E)), CR._name(E, "moma_dist_", r))


def q_const(E, S, r):
    w = CR.reference(E, S, r)
    return N.term("call(lb,name,ub)", N.term("attr.Constraint", CR._prob(E)), N.term("sub", CR.flux_expression(r), q_dist(E, r)),
                  w, CR._name(E, "moma_constraint_", r), w)


def q_square(E, r):
    return N.term("pow", q_dist(E, r), N.lift(VInt(2)))


def _q_blocks(E, S, elem, upto, rx):
    j = qv("bj")
    return FA([j], z3.Implies(z3.And(0 <= j, j < upto), z3.And(elem[2 + 2 * j] == q_dist(E, rx[j]), elem[3 + 2 * j] == q_const(E, S, rx[j]))),
              patterns=[rx[j]])


def _q_squares(E, elem, upto, rx):
    j = qv("sj")
    return FA([j], z3.Implies(z3.And(0 <= j, j < upto), elem[j] == q_square(E, rx[j])), patterns=[rx[j], elem[j]])


def q_objective(E, expr):
    return N.term("call(direction,sloppy)", N.term("attr.Objective", CR._prob(E)), expr, N.lift(VConc("min")), N.lift(VBool(True)))


def _q_reference(E, tr):
    """-> (reference term or None, rest of the trace)"""
    if isinstance(E["solution"], VNone):
        if not (tr and tr[0][0] == "pfba"):
            return None, tr
        _, pos, kwn, res, untouched = tr[0]
        ok = len(pos) == 1 and isinstance(pos[0], VObj) and pos[0].oid == E["model"].oid and not kwn and untouched is True
        return (res.t if ok and isinstance(res, N.VNp) else None), tr[1:]
    return (E["solution"].t if isinstance(E["solution"], N.VNp) else None), tr


def _q_visible(E, S, ln, elem, sn, se, sk, total, final):
    """the documented quadratic problem: the list handed to add_cons_vars, the list summed by symbolics.add, the objective installed last"""
    n, rx = CR._rxns(E)
    cs = [ln == 2 + 2 * n, elem[0] == CR.old_variable(E, CM.OLD_VAR), elem[1] == CR.old_constraint(E, CM.OLD_VAR, CM.OLD_CONS),
          _q_blocks(E, S, elem, n, rx), sn == n]
    if sk == "np":
        cs.append(_q_squares(E, se, n, rx))
    else:
        cs.append(n == 0)             # (a list that never received an entry has no element kind)
    cs.append(final == q_objective(E, total))
    return cs


def _q_post(E):
    S, tr = _q_reference(E, _tr(E.s1))
    if S is None or [ev[0] for ev in tr] != ["set_objective", "add_cons_vars", "symbolics.add", "set_objective"]:
        return z3.BoolVal(False)
    _, recv, snap, kws, npos = tr[1]
    _, sq, total = tr[2]
    if not (isinstance(recv, VObj) and recv.oid == E["model"].oid and snap is not None and snap[2] == "np" and not kws and npos == 1
            and sq is not None):
        return z3.BoolVal(False)
    ln, elem, _ = snap
    sn, se, sk = sq
    inst = E.s1.ghost.get("installed_objective")
    if inst is None:
        return z3.BoolVal(False)
    cs = [tr[0][1] == q_objective(E, CR.ZERO)] + _q_visible(E, S, ln, elem, sn, se, sk, total.t, tr[3][1]) + [inst == tr[3][1]]
    if isinstance(E["solution"], VNone):
        cs.append(_stack_as_at_entry(E, E.s1))          # pfba closed its context
    return z3.And(*cs)


def _q_added_result(eng, st, E):
    given = E["solution"]
    S = given.t if isinstance(given, N.VNp) else fresh("np:reference_solution", N.NP)
    A = z3.ArraySort(z3.IntSort(), N.NP)
    g = (fresh("added_len", z3.IntSort()), fresh("added_elem", A), S, fresh("squares_len", z3.IntSort()), fresh("squares_elem", A),
         fresh("np:sum_of_squares", N.NP))
    return st.setghost(("added", QKEY), g).setghost("installed_objective", fresh("np:installed_objective", N.NP)), NONE


def _q_post_call(E):
    g, inst = E.s1.ghost.get(("added", QKEY)), E.s1.ghost.get("installed_objective")
    if g is None or inst is None:
        return z3.BoolVal(False)
    ln, elem, S, sn, se, total = g
    cs = _q_visible(E, S, ln, elem, sn, se, "np", total, inst)
    if isinstance(E["solution"], VNone):
        cs.append(_stack_as_at_entry(E, E.s1))
    return z3.And(*cs)


def _q_call_cases():
    out = []
    for tag, given in (("reference_given", True), ("reference_from_pfba", False)):
        pred = (lambda given: lambda a, st: isinstance(a["solution"], VNone) != given)(given)
        c = Case("quadratic/" + tag, requires=lambda E: z3.Not(CM._already(E)), ensures=_q_post_call)
        c.result = _q_added_result
        bad = Case("quadratic/already_moma/" + tag, requires=CM._already, raises="ValueError")
        if not given:
            c.may_raise = "OptimizationError"
            c.ensures_on_raise = lambda E: _stack_as_at_entry(E, E.s1)
        c.applies = bad.applies = pred
        out += [c, bad]
    return out


def _q_loop_inv(E, Lc):
    S = CR._ref_in_loop(E, Lc)
    ta, ov = Lc.var("to_add"), Lc.var("obj_vars")
    if S is None or not (isinstance(ta, VObj) and isinstance(ov, VObj)):
        return z3.BoolVal(False)
    rta, rov = Lc.st.objs[ta.oid], Lc.st.objs[ov.oid]
    if rta["ekind"] != "np" or (rov["ekind"] != "np" and not z3.is_int_value(z3.simplify(rov["len"]))):
        return z3.BoolVal(False)
    n, rx = CR._rxns(E)
    i = Lc.i
    out = [rta["len"] == 2 + 2 * i, rta["elem"][0] == CR.old_variable(E, CM.OLD_VAR),
           rta["elem"][1] == CR.old_constraint(E, CM.OLD_VAR, CM.OLD_CONS), _q_blocks(E, S, rta["elem"], i, rx), rov["len"] == i]
    if rov["ekind"] == "np":
        out.append(_q_squares(E, rov["elem"], i, rx))
    return z3.And(*out)


def _qp_capable(E):
    return N.truthy(N.term("contains", QP_SOLVERS, N.term("interface_to_str", CR._prob(E))))


def _q_pre(E):
    out = [CR._pre(E), _qp_capable(E)]
    if isinstance(E["solution"], VNone):
        out.append(z3.Not(CP._already(E)))
    return z3.And(*out)


def _q_mod(E):
    m = E["model"]
    out = CR._mod(E) + [("ghost", "installed_objective", lambda st: None)]
    if isinstance(E["solution"], VNone):
        out = out + _ctx_mod(E) + C4._slim_mod(Env({"self": m}, E.s0, eng=E.eng)) + \
            [("attr", C4.objective_of(E.s0, m), "value", lambda st: C4._fresh_real(st))]
    return out


def _q_nothing_done(E):
    return z3.BoolVal(len(_tr(E.s1)) == 0)


def _q_reference_failed(E):
    """pfba raised: nothing was built, added or installed (the objective is the entry objective), the stack is as at entry"""
    if E.role != "goal":
        return _stack_as_at_entry(E, E.s1)
    m = E["model"]
    o0, o1 = E.s0.objs[C4.objective_of(E.s0, m).oid], E.s1.objs[C4.objective_of(E.s1, m).oid]
    same = all(o0[a] is o1[a] for a in ("attr:name", "attr:direction", "attr:expression"))
    untouched = E.s1.ghost.get("objective_installed") is None and E.s1.ghost.get("installed_objective") is None
    return z3.And(z3.BoolVal(len(_tr(E.s1)) == 0 and same and untouched), _stack_as_at_entry(E, E.s1))


def _q_cases():
    out = []
    for tag, t in (("reference_given", N.TNp()), ("reference_from_pfba", TNone())):
        c = Case("quadratic/" + tag, requires=lambda E: z3.Not(CM._already(E)), ensures=_q_post)
        bad = Case("quadratic/already_moma/" + tag, requires=CM._already, raises="ValueError", ensures=_q_nothing_done)
        if tag == "reference_from_pfba":
            c.may_raise = "OptimizationError"
            c.ensures_on_raise = _q_reference_failed
        c.params_override = bad.params_override = {"solution": t}
        out += [c, bad]
    return out


REG.add(Contract(CM.MM, "add_moma", "C09", [("model", _model_t()), ("solution", N.TNp()), ("linear", TConc(False))],
                 _q_cases(), pre=_q_pre, modifies=_q_mod, loops={0: LoopSpec(_q_loop_inv, CM._loop_mod)}, key=QKEY,
                 note="linear=False; QP-capable solver interface (no solver switch); with solution None: no pFBA objective installed"))
REG.get(QKEY).call_cases = _q_call_cases()


# ================================================================ add_room / add_moma (linear): the reference pfba(model) by its PROVED contract
# c09_room / c09_moma were proved against an ASSUMED pfba ("returns a solution, leaves the model as found").  Importing this module
# upgrades the two contracts in place: the model parameter carries what pfba needs (context stack, solver status / objective value),
# the call is discharged by the proved contract `pfba` (hook b_call_abstract, chained BEFORE c09_room's), whose failure is a NEW exit of
# the `reference_from_pfba` cases: OptimizationError with nothing built, added or installed and the stack as at entry.  Added
# precondition for solution None: no pFBA objective installed (pfba refuses such a model with ValueError).  What remains trusted is
# only the rollback of pfba's own context (C03 / C13).
def _upgrade(key):
    con = REG.get(key)
    con.params = [("model", _model_t())] + list(con.params[1:])
    old_pre, old_mod = con.pre, con.modifies
    con.pre = lambda E: z3.And(old_pre(E), z3.Not(CP._already(E))) if isinstance(E["solution"], VNone) else old_pre(E)

    def mod(E):
        out = old_mod(E)
        if isinstance(E["solution"], VNone):
            m = E["model"]
            out = out + _ctx_mod(E) + C4._slim_mod(Env({"self": m}, E.s0, eng=E.eng)) + \
                [("attr", C4.objective_of(E.s0, m), "value", lambda st: C4._fresh_real(st))]
        return out
    con.modifies = mod
    for c in list(con.cases) + list(con.call_cases or []):
        if c.raises is None and c.name.endswith("reference_from_pfba"):
            c.may_raise = "OptimizationError"
            c.ensures_on_raise = _q_reference_failed
            c.ensures = (lambda old: lambda E: z3.And(old(E), _stack_as_at_entry(E, E.s1)))(c.ensures)


for _k in ("add_room", "add_moma"):
    _upgrade(_k)
VISIBLE_CALL[QKEY] = _q_post_call
HOOKS_Q = chain_hooks(Q_HOOKS, CR.OWN_HOOKS, N.HOOKS)


# ================================================================ lemmas: the call-site forms follow from the proved post-conditions
def lemmas():
    """For add_room, add_moma and add_moma@quadratic, each way of giving the reference: on a synthetic exit state (everything the contract
    may modify havocked, the trace shaped as the PROVED post-condition demands, the ghost ("added", key) holding the very list the trace
    snapshot holds) the proved post-condition (the case's own `ensures`, role goal) implies the call-site form (the call case's
    `ensures`, role assume).  Vacuity guard: the proved post-condition is not literally False on that state."""
    from pyvc.engine import Engine, Obl
    from pyvc.state import State
    from pyvc.loops import havoc_locations
    from pyvc.verify import case_params
    out = []
    A = z3.ArraySort(z3.IntSort(), N.NP)
    for key in ("add_room", "add_moma", QKEY):
        con = REG.get(key)
        for case in con.cases:
            if case.raises is not None:
                continue
            call = [c for c in con.call_cases if c.raises is None and c.name.endswith(case.name.split("/")[-1])][0]
            eng = Engine(REG)
            eng.cur_contract = con
            st, a = State(), {}
            for name, t in case_params(con, case):
                st, v = t.make(st, "g_" + name)
                a[name] = v
            s0 = st.assume(*eng.kind_axioms(st))
            E0 = Env(a, s0, eng=eng)
            s0 = s0.assume(con.pre(E0), case.requires(E0))
            s1 = havoc_locations(eng, s0, con.modifies(Env(a, s0, eng=eng)))
            given = not isinstance(a["solution"], VNone)
            S = a["solution"].t if given else fresh("np:g_reference", N.NP)
            ln, elem = fresh("g_len", z3.IntSort()), fresh("g_elem", A)
            tr = () if given else (("pfba", (a["model"],), (), N.VNp(S), True),)
            add_ev = ("add_cons_vars", a["model"], (ln, elem, "np"), (), 1)
            if key == QKEY:
                sn, se, total = fresh("g_sqlen", z3.IntSort()), fresh("g_sqelem", A), fresh("np:g_total", N.NP)
                t0, t3 = fresh("np:g_first_objective", N.NP), fresh("np:g_last_objective", N.NP)
                tr += (("set_objective", t0), add_ev, ("symbolics.add", (sn, se, "np"), N.VNp(total)), ("set_objective", t3))
                s1 = s1.setghost(("added", key), (ln, elem, S, sn, se, total)).setghost("installed_objective", fresh("np:g_installed", N.NP))
            else:
                tr += (add_ev,)
                s1 = s1.setghost(("added", key), (ln, elem, S)).setghost("objective_installed", fresh("g_installed", z3.BoolSort()))
            s1 = s1.setghost("trace", tr)
            proved = case.ensures(Env(a, s0, s1, res=NONE, eng=eng, role="goal"))
            seen = call.ensures(Env(a, s0, s1, res=NONE, eng=eng, role="assume"))
            nm = f"C09/lemma/call-form-follows/{key}/{case.name}"
            if z3.is_false(proved) or z3.is_false(z3.simplify(proved)):
                out.append(Obl(nm + "/proved-post-is-stated", [], z3.BoolVal(False), "lemma"))
                continue
            out.append(Obl(nm, list(s1.pc) + [proved], seen, "lemma"))
    return out
