"""Trusted-base reduction (round 5): small Model methods that other proofs used through ASSUMED contracts or recorded calls.

Keys (hook table HOOKS for all of them):
  "Model.add_cons_vars", "Model.remove_cons_vars"     (were: recorded calls in the hook tables of ~12 contract modules, "passes its
                                                       argument on" in the trusted base)
  (the Model.tolerance setter, assumed in contracts/misc_small.py until round 5, is proved in contracts/w_tolerance.py)
  "Model.objective_direction@setter"                  (body under @resettable; the wrapper is proved in contracts/c03_context.py)

PROVED, from the documentation of each function:
  * Model.add_cons_vars(what, **kwargs) makes exactly ONE call add_cons_vars_to_problem(self, what, **kwargs) - the same model, the same
    `what` object (identity), the keyword arguments exactly as given (cases: none / sloppy=<flag>) - and nothing else (frame);
    Model.remove_cons_vars(what): exactly one call remove_cons_vars_from_problem(self, what).  What those two functions do (solver
    call + undo registration in a context) is proved under C03 (contracts/c03_context.py); here they are only RECORDED (ghost trace
    "w_trace"), i.e. the leaf assumption is nil: the callee is cobrapy's own, proved elsewhere.
  * Model.objective_direction = value (the function under @resettable): with v = value.lower(): v.startswith("max") -> the
    solver objective's direction is "max"; else v.startswith("min") -> "min"; else ValueError and NOTHING is changed; only the
    direction attribute of the solver's objective is written.  str.lower / str.startswith are uninterpreted (str_lower,
    str_startswith) with the CPython facts for the documented spellings ("max", "min", "maximize", "minimize", "MAX", "Min", ...)
    computed natively and given as axioms, so the four documented values are covered by name (case tags).
    NOTE (not a defect of the body, a property of the decorator, proved in c03_context): inside a context the wrapper registers the
    undo BEFORE the body validates the value, so an invalid value leaves one (harmless: it re-installs the current direction) undo
    function behind in the history.

Mutation trials (tools/mutate_and_run.sh, contracts.w_model_small --hooks HOOKS <key>), each NOT verified:
  model.py `add_cons_vars_to_problem(self, what, **kwargs)` -> `(self, what)`            Model.add_cons_vars: sloppy case post sat
  model.py `add_cons_vars_to_problem(self, what, **kwargs)` -> `remove_cons_vars_from_problem(self, what)`   post sat (both cases)
  model.py `remove_cons_vars_from_problem(self, what)` -> `remove_cons_vars_from_problem(self, [what])`      post sat
  model.py `self.solver.objective.direction = "min"` -> `= "max"`                                          objective_direction: post sat
  model.py `elif value.startswith("min"):` -> `elif value.startswith("mi"):`                                 post / expected-ValueError sat
  model.py `value = value.lower()` -> `value = value`                                                         post sat
"""
import z3
from .common import *  # noqa
from . import c01_lp as C1  # noqa  (heap field `_solver`, class LPSolver)
from . import c04_status as C4
from pyvc.values import id_lit, VReal, VFunc, Unsupported, unwrap, ident_of, xr_eq

MM = "cobra/core/model.py"

# ================================================================ add_cons_vars / remove_cons_vars: one recorded call
_FWD = {"add_cons_vars_to_problem", "remove_cons_vars_from_problem"}
REG.classes.setdefault("LPObjects", [])


def _global(eng, name):
    if name in _FWD:
        return VFunc("abstract", name)
    return None


def _call_abstract(eng, st, f, pos, kw):
    if f.a in _FWD:
        tr = st.ghost.get("w_trace", ())
        return [("ok", st.setghost("w_trace", tr + ((f.a, tuple(pos), dict(kw)),)), NONE)]
    return None


def _same(a, b):
    """python-level identity of two engine values (the very object / the very term)"""
    if a is b:
        return True
    if isinstance(a, VRef) and isinstance(b, VRef):
        return a.t.eq(b.t)
    if isinstance(a, VBool) and isinstance(b, VBool):
        return a.t.eq(b.t) if not isinstance(a.t, bool) else a.t == b.t
    if isinstance(a, VObj) and isinstance(b, VObj):
        return a.oid == b.oid
    return False


def _one_call(callee, with_kwargs):
    def post(E):
        tr = E.s1.ghost.get("w_trace", ())
        if len(tr) != 1 or tr[0][0] != callee:
            return z3.BoolVal(False)
        _, pos, kw = tr[0]
        ok = len(pos) == 2 and _same(pos[0], E["self"]) and _same(pos[1], E["what"])
        want = {k: v for k, v in E["kwargs"].py.items() if k != "__kwargs__"} if with_kwargs else {}
        ok = ok and set(kw) == set(want) and all(_same(kw[k], want[k]) for k in want)
        return z3.BoolVal(bool(ok))
    return post


def _kwargs(sloppy):
    def mk(st, name):
        d = {"__kwargs__": True}
        if sloppy:
            d["sloppy"] = VBool(z3.Bool("kw_sloppy"))
        return st, VConc(d)
    return TCustom(mk)


def _acv_cases():
    out = []
    for tag, sl in (("no_keywords", False), ("sloppy_given", True)):
        c = Case(tag, ensures=_one_call("add_cons_vars_to_problem", True))
        c.params_override = {"kwargs": _kwargs(sl)}
        c.applies = (lambda sl: lambda a, st: ("sloppy" in a["kwargs"].py) == sl)(sl)
        out.append(c)
    return out


_trace_loc = lambda E: [("ghost", "w_trace", lambda st: st.ghost.get("w_trace", ()))]  # noqa
REG.add(Contract(MM, "Model.add_cons_vars", "C03", [("self", TRef("Model")), ("what", TRef("LPObjects")), ("**kwargs", _kwargs(False))],
                 _acv_cases(), key="Model.add_cons_vars", frame_exempt=(), props=["C03", "C01"],
                 note="PROVED: exactly one call add_cons_vars_to_problem(self, what, **kwargs) (recorded; that function is proved under C03)"))
REG.add(Contract(MM, "Model.remove_cons_vars", "C03", [("self", TRef("Model")), ("what", TRef("LPObjects"))],
                 [Case("any", ensures=_one_call("remove_cons_vars_from_problem", False))], key="Model.remove_cons_vars",
                 props=["C03", "C02"],
                 note="PROVED: exactly one call remove_cons_vars_from_problem(self, what) (recorded; that function is proved under C03)"))

from . import w_tolerance as WT  # noqa  (the Model.tolerance setter lives in a module of its own)
from pyvc.contract import chain_hooks  # noqa

# ================================================================ Model.objective_direction setter (the function under @resettable)
str_lower = z3.Function("str_lower", Id, Id)
str_startswith = z3.Function("str_startswith", Id, Id, z3.BoolSort())
_DOC_VALUES = ["max", "min", "maximize", "minimize", "MAX", "MIN", "Max", "Min", "Maximize", "Minimize", "maximum", "minimum"]
_BAD_VALUES = ["", "m", "ma", "mi", "mix", "amax", "optimal", "largest", "none"]


def _str_axioms(E=None):
    """facts of CPython's str.lower / str.startswith for the listed literals, computed natively"""
    out = []
    for s in _DOC_VALUES + _BAD_VALUES:
        out.append(str_lower(id_lit(s)) == id_lit(s.lower()))
        for p in ("max", "min"):
            out.append(str_startswith(id_lit(s.lower()), id_lit(p)) == z3.BoolVal(s.lower().startswith(p)))
    return out


def _call_method(eng, st, recv, name, pos, kw):
    if isinstance(recv, (VStr, VConc)) and (isinstance(recv, VStr) or isinstance(recv.py, str)) and not kw:
        if name == "lower" and not pos:
            return [("ok", st, VStr(str_lower(unwrap(recv, "id"))))]
        if name == "startswith" and len(pos) == 1 and isinstance(pos[0], VConc) and isinstance(pos[0].py, str):
            return [("ok", st, VBool(str_startswith(unwrap(recv, "id"), id_lit(pos[0].py))))]
    return None


def _low(E):
    return str_lower(unwrap(E["value"], "id"))


def _is(E, p):
    return str_startswith(_low(E), id_lit(p))


def _dir_is(p):
    return lambda E: unwrap(C4.direction_of(E.s1, E["self"]), "id") == id_lit(p)


def _dir_loc(E):
    return [("attr", C4.objective_of(E.s0, E["self"]), "direction", lambda st: (st, VStr(fresh("dir", Id))))]


def _od_cases():
    out = [Case("starts_with_max", requires=lambda E: _is(E, "max"), ensures=_dir_is("max")),
           Case("starts_with_min", requires=lambda E: z3.And(z3.Not(_is(E, "max")), _is(E, "min")), ensures=_dir_is("min")),
           Case("anything_else", requires=lambda E: z3.And(z3.Not(_is(E, "max")), z3.Not(_is(E, "min"))), raises="ValueError")]
    # the documented spellings, by name (their classification follows from the natively computed string facts)
    for s in ("max", "min", "maximize", "minimize", "MAX", "Minimize"):
        c = Case(f"documented_value_{s}", ensures=_dir_is(s.lower()[:3]))
        c.params_override = {"value": TConc(s)}
        c.applies = lambda a, st: False           # call sites use the three general cases
        out.append(c)
    for s in ("optimal", "", "mix"):
        c = Case(f"rejected_value_{s or 'empty'}", raises="ValueError")
        c.params_override = {"value": TConc(s)}
        c.applies = lambda a, st: False
        out.append(c)
    return out


REG.add(Contract(MM, "Model.objective_direction@setter", "C03", [("self", C4.MODEL_T()), ("value", TStr())], _od_cases(),
                 modifies=_dir_loc, axioms=_str_axioms, key="Model.objective_direction@setter", props=["C03", "C04"],
                 note="PROVED: value.lower() starting with max / min sets the solver objective's direction to 'max' / 'min', anything else "
                      "raises ValueError with nothing changed; str.lower / str.startswith uninterpreted with native facts for the "
                      "documented spellings"))

HOOKS = {"global": _global, "call_abstract": _call_abstract, "call_method": _call_method}
KEYS = ["Model.add_cons_vars", "Model.remove_cons_vars", "Model.objective_direction@setter"]
