"""C05 — flux_variability_analysis (the driver around _fva_step), serial path, loopless = False, no pfba_factor.

Documented: "Determine the minimum and maximum possible flux value for each reaction ... fraction_of_optimum: must be <= 1.0.
Requires that the objective value is at least the fraction times maximum objective value."
Proved, for every model size (loop invariant over the requested reaction ids), for a maximisation or minimisation model:
  * inside the function's own context (closed again on return / when a step raises);
  * the model is optimised first (no optimum -> the error of slim_optimize(error_value=None) propagates);
  * ONE variable `fva_old_objective` bounded by fraction_of_optimum x optimum FROM BELOW (lb) for a maximisation model and FROM ABOVE
    (ub) for a minimisation model, tied to the old objective expression by an equality constraint, both added in one add_cons_vars call;
  * the objective is then replaced by Zero (all coefficients 0 - the precondition of _fva_step), the solver direction is set to "min"
    for the first sweep and "max" for the second;
  * in each sweep, for EVERY requested reaction the LP is solved with exactly +1 on its forward and -1 on its reverse variable
    (contract of _fva_step) in that direction, and the value stored in the result under (reaction id, "minimum" / "maximum") is the
    objective value of that solve; the objective coefficients are all 0 again after each step.
Together with the assumption that the solver returns true optima (C04, monitored in the bounded tier) this is the statement of C05
for the serial, non-loopless path.  NOT covered here: processes > 1 (Pool), loopless=True, pfba_factor, reaction_list given.
"""
import z3
import cobra  # noqa
from .common import *  # noqa
from . import c01_lp as C1
from . import c03_context as C3
from . import c04_status as C4
from . import c05_fva as C5
from . import c15_dictlist  # noqa
from . import c07_knockout  # noqa  (assumed DictList.get_by_any)
from . import c09_pfba  # noqa  (add_pfba, proved)
from pyvc import npalg as N
from pyvc.state import alloc_list
from pyvc.values import VReal, xr_eq, id_lit

MV = "cobra/flux_analysis/variability.py"
IdCoef = z3.ArraySort(Id, C5.CoefMap)
IdInt = z3.ArraySort(Id, z3.IntSort())
IdReal = z3.ArraySort(Id, z3.RealSort())
ZEROMAP = z3.K(Ref, z3.RealVal(0))
SENSES = (("min", "minimum"), ("max", "maximum"))


def _model_t():
    obj = TObj("Objective", {"value": TReal(), "direction": TStr(), "expression": N.TNp(), "name": TStr()})
    return TObj("Model", {"_contexts": TList("ref:HistoryManager"), "_solver": TObj("Solver", {"status": TStr(), "objective": obj}),
                          "reactions": TDictList("Reaction"), "problem": N.TNp()})


def _objective(st, m):
    return st.objs[st.objs[m.oid]["attr:_solver"].oid]["attr:objective"]


# ---------------------------------------------------------------- _init_worker (proved; sets the module globals the steps read)
def _iw_post(E):
    obj = _objective(E.s1, E["model"])
    c = E.eng.eq(E.s1, E.s1.objs[obj.oid]["attr:direction"], E["sense"])
    gm, gl = E.s1.ghost.get(("global", "_model")), E.s1.ghost.get(("global", "_loopless"))
    return z3.And(z3.BoolVal(c) if isinstance(c, bool) else c, z3.BoolVal(gm is E["model"] and gl is E["loopless"]))


def _iw_mod(E):
    obj = _objective(E.s0, E["model"])
    return [("attr", obj, "direction", lambda st: (st, E["sense"])),
            ("ghost", ("global", "_model"), lambda st: E["model"]), ("ghost", ("global", "_loopless"), lambda st: E["loopless"]),
            ("ghost", "sense_py", lambda st: E["sense"].py if isinstance(E["sense"], VConc) else None)]


REG.add(Contract(MV, "_init_worker", "C05", [("model", _model_t()), ("loopless", TConc(False)), ("sense", TConc("min"))],
                 [Case("any", ensures=_iw_post)], modifies=_iw_mod, key="_init_worker"))


# ---------------------------------------------------------------- hooks
def global_hook(eng, name):
    if name == "Zero":
        return N.VNp(z3.Const("np:Zero", N.NP))
    if name in ("_fva_step", "add_pfba"):
        return VFunc("abstract", name)
    if name == "warn":
        return VFunc("builtin", "print")          # warnings.warn: no effect on the model
    return None


def _rec(st, sense):
    return st.ghost.get(("rec", sense), (z3.Const("rec_sw0_" + sense, IdCoef), z3.Const("rec_k0_" + sense, IdInt), z3.Const("rec_v0_" + sense, IdReal)))


def _stored(st, what):
    return st.ghost.get(("stored", what), (z3.Const("st_k0_" + what, IdInt), z3.Const("st_v0_" + what, IdReal)))


def call_abstract(eng, st, f, pos, kw):
    """_fva_step(id) by its contract; additionally the LP it solved and the value it returned are recorded under the id (ghost)"""
    if f.a == "add_pfba":
        # by its proved contract (C09); the arguments of the call are recorded
        outs = eng.apply_contract(st, REG.get("add_pfba"), list(pos), kw)
        return [(k, s.setghost("pfba_call", {"pos": tuple(pos), "kw": dict(kw)}) if k == "ok" else s, v) for k, s, v in outs]
    if f.a != "_fva_step":
        return None
    outs = eng.apply_contract(st, REG.get("_fva_step"), list(pos), kw)
    res = []
    for k, s, v in outs:
        sense = s.ghost.get("sense_py")
        if k == "ok" and sense is not None and isinstance(v, VTuple):
            rid = unwrap(pos[0], "id")
            sw, vk, vv = _rec(s, sense)
            val = v.items[1]
            s = s.setghost(("rec", sense), (z3.Store(sw, rid, C5.solved_with(s)), z3.Store(vk, rid, val.k), z3.Store(vv, rid, val.v)))
        res.append((k, s, v))
    return res


def call_method_hook(eng, st, recv, name, pos, kw):
    if isinstance(recv, VObj) and recv.cls == "Model" and name == "add_cons_vars":
        tr = st.ghost.get("fva_trace", ())
        return [("ok", st.setghost("fva_trace", tr + (("add_cons_vars", tuple(pos), st),)), NONE)]
    return None


def setattr_hook(eng, st, v, name, val):
    """model.objective = Zero: a zero objective (ghost: all coefficients 0); the real setter is context aware (C03 / C13)"""
    if isinstance(v, VObj) and v.cls == "Model" and name == "objective":
        is_zero = isinstance(val, N.VNp) and val.t.eq(z3.Const("np:Zero", N.NP))
        if not is_zero:
            return None
        return [("ok", st.setghost("objc", ZEROMAP).setghost("objective_zeroed", True), NONE)]
    return None


def setitem_hook(eng, st, obj, idx, val):
    """fva_result.at[rxn_id, what] = value: recorded per column (ghost maps id -> extended real)"""
    if isinstance(obj, N.VNp) and isinstance(idx, VTuple) and len(idx.items) == 2 and isinstance(idx.items[1], VConc) \
            and idx.items[1].py in ("minimum", "maximum") and isinstance(val, VReal):
        what = idx.items[1].py
        k, v = _stored(st, what)
        rid = unwrap(idx.items[0], "id")
        return [("ok", st.setghost(("stored", what), (z3.Store(k, rid, val.k), z3.Store(v, rid, val.v))), NONE)]
    return None


HOOKS = chain_hooks({"global": global_hook, "call_abstract": call_abstract, "call_method": call_method_hook, "setattr": setattr_hook,
                     "setitem": setitem_hook}, C5.HOOKS, C3.ALL_HOOKS, N.HOOKS)


# ---------------------------------------------------------------- specification
def _dl(E):
    return E.s0.objs[E["model"].oid]["attr:reactions"]


def _unit(r):
    return z3.Store(z3.Store(ZEROMAP, C1.fwd(r), z3.RealVal(1)), C1.rev(r), z3.RealVal(-1))


def _req(E, st):
    """the requested reactions: all reactions of the model, or the members named by reaction_list (assumed get_by_any)"""
    if isinstance(E["reaction_list"], VNone):
        return L(E.s0, _dl(E))
    l = st.ghost.get("gba_list")
    return st.objs[l.oid]["len"], st.objs[l.oid]["elem"]


def _sweep_done(E, st, sense, what, upto):
    """for the first `upto` requested reactions: the LP solved in direction `sense` had objective +fwd -rev of that reaction, and the
    value of that solve is what is stored under (id, what)"""
    n, e = _req(E, st)
    ids = E.eng.heap_arr(E.s0, "_id")
    sw, vk, vv = _rec(st, sense)
    sk, sv = _stored(st, what)
    j, x = qv("wj"), qv("wx", Ref)
    rid = ids[e[j]]
    return FA([j], z3.Implies(z3.And(0 <= j, j < upto),
                              z3.And(FA([x], sw[rid][x] == _unit(e[j])[x], patterns=[sw[rid][x]]),
                                     sk[rid] == vk[rid], z3.Implies(vk[rid] == 0, sv[rid] == vv[rid]))), patterns=[e[j]])


def _zero_obj(st):
    x = qv("zx", Ref)
    return FA([x], C5.objc(st)[x] == 0, patterns=[C5.objc(st)[x]])


def _inv_steps(E, Lc):
    st = Lc.st
    sense = st.ghost.get("sense_py")
    if sense is None:
        return z3.BoolVal(False)
    what = dict(SENSES)[sense]
    obj = _objective(st, E["model"])
    n, e = _req(E, st)
    cs = [Lc.n == n, _zero_obj(st), st.objs[obj.oid]["attr:direction"].t == id_lit(sense) if isinstance(st.objs[obj.oid]["attr:direction"], VStr)
          else z3.BoolVal(isinstance(st.objs[obj.oid]["attr:direction"], VConc) and st.objs[obj.oid]["attr:direction"].py == sense),
          _sweep_done(E, st, sense, what, Lc.i)]
    if sense == "max":            # the first sweep's records are kept
        cs.append(_sweep_done(E, st, "min", "minimum", n))
    cs.append(z3.BoolVal(st.ghost.get(("global", "_model")) is E["model"]))
    return z3.And(*cs)


def _pre(E):
    dl = _dl(E)
    n, e = L(E.s0, dl)
    j = qv("pj")
    return z3.And(WF(E, E.s0, dl), C3._ctx_nonnull(Env({"obj": E["model"]}, E.s0, eng=E.eng)),
                  E.eng.to_real(E["fraction_of_optimum"]).k == 0,          # the fraction is a finite number
                  E.eng.to_real(E["fraction_of_optimum"]).v != z3.Real("NaN_const"),
                  z3.BoolVal(True) if isinstance(E["pfba_factor"], VNone) else z3.And(E.eng.to_real(E["pfba_factor"]).k == 0,
                                                                                     E.eng.to_real(E["pfba_factor"]).v != z3.Real("NaN_const")),
                  FA([j], z3.Implies(z3.And(0 <= j, j < n), C1.model_of(E, E.s0, e[j]) != NULL), patterns=[e[j]]))


def _post_for(direction):
    def post(E):
        n, e = _req(E, E.s1)
        tr = E.s1.ghost.get("fva_trace", ())
        cs = []
        with_pfba = not isinstance(E["pfba_factor"], VNone)
        ok_tr = len(tr) == (2 if with_pfba else 1) and all(t[0] == "add_cons_vars" and len(t[1]) == 1 for t in tr)
        cs.append(z3.BoolVal(bool(ok_tr)))
        if ok_tr:
            lst, st_add = tr[0][1][0], tr[0][2]
            if not isinstance(lst, N.VNp):
                cs.append(z3.BoolVal(False))
            else:
                m = E["model"]
                prob = E.s0.objs[m.oid]["attr:problem"].t
                obj_at = _objective(st_add, m)
                opt = st_add.objs[obj_at.oid]["attr:value"]                    # the optimum found by the first solve
                frac = E.eng.to_real(E["fraction_of_optimum"])
                bound = N.lift(VReal(z3.IntVal(0), frac.v * opt.v))
                name = N.lift(VConc("fva_old_objective"))
                kwname = "call(lb)" if direction == "max" else "call(ub)"
                var = N.term(kwname, N.term("attr.Variable", prob), name, bound)
                expr = st_add.objs[obj_at.oid]["attr:expression"].t
                con = N.term("call(lb,name,ub)", N.term("attr.Constraint", prob), N.term("sub", expr, var), N.lift(VInt(0)),
                             N.lift(VConc("fva_old_objective_constraint")), N.lift(VInt(0)))
                cs.append(lst.t == N.term("list", var, con))
                # the bound uses the optimum of a solve that succeeded: status optimal, finite value, at that moment
                cs.append(z3.And(C4._is_status(C4.status_of(st_add, m), "optimal"), opt.k == 0))
        if ok_tr and with_pfba:
            # the total-flux cap: the parsimonious problem is set up with the SAME fraction (repair 1766950), solved, and
            # flux_sum <= pfba_factor x that minimum is tied to the total-flux expression by an equality; added after the inner
            # context has been left
            lst2, st2 = tr[1][1][0], tr[1][2]
            call = E.s1.ghost.get("pfba_call")
            good_call = (call is not None and len(call["pos"]) == 1 and call["pos"][0] is E["model"]
                         and set(call["kw"]) == {"fraction_of_optimum"} and call["kw"]["fraction_of_optimum"] is E["fraction_of_optimum"])
            cs.append(z3.BoolVal(bool(good_call)))
            if not isinstance(lst2, N.VNp):
                cs.append(z3.BoolVal(False))
            else:
                m = E["model"]
                prob = E.s0.objs[m.oid]["attr:problem"].t
                obj2 = _objective(st2, m)
                mn = st2.objs[obj2.oid]["attr:value"]                     # minimal total flux found by the parsimonious solve
                pf = E.eng.to_real(E["pfba_factor"])
                fs = N.term("call(ub)", N.term("attr.Variable", prob), N.lift(VConc("flux_sum")), N.lift(VReal(z3.IntVal(0), pf.v * mn.v)))
                ex2 = st2.objs[obj2.oid]["attr:expression"].t
                con2 = N.term("call(lb,name,ub)", N.term("attr.Constraint", prob), N.term("sub", ex2, fs), N.lift(VInt(0)),
                              N.lift(VConc("flux_sum_constraint")), N.lift(VInt(0)))
                cs.append(lst2.t == N.term("list", fs, con2))
                n0c, _ = C3._ctxs(E.s0, m)
                n2c, _ = C3._ctxs(st2, m)
                cs.append(n2c == n0c + 1)                                  # added in the function's own context, not the inner one
        cs.append(z3.BoolVal(E.s1.ghost.get("objective_zeroed") is True))
        cs.append(_sweep_done(E, E.s1, "min", "minimum", n))
        cs.append(_sweep_done(E, E.s1, "max", "maximum", n))
        cs.append(_zero_obj(E.s1))
        n0, e0 = C3._ctxs(E.s0, E["model"])
        n1, e1 = C3._ctxs(E.s1, E["model"])
        j = qv("cj")
        cs.append(z3.And(n1 == n0, FA([j], z3.Implies(z3.And(0 <= j, j < n0), e1[j] == e0[j]))))
        return z3.And(*cs)
    return post


def _mod(E):
    obj = _objective(E.s0, E["model"])
    out = [("heap", "hm_len"), ("attr", E["model"], "_contexts", lambda st: alloc_list(st, "ref:HistoryManager")),
           ("ghost", "world", lambda st: fresh("world", C3.World)), ("ghost", "fva_trace", lambda st: ()), ("ghost", "trace", lambda st: ()),
           ("ghost", "objc", lambda st: fresh("objc", C5.CoefMap)), ("ghost", "solved_with", lambda st: fresh("solved", C5.CoefMap)),
           ("ghost", "objective_zeroed", lambda st: None), ("ghost", "sense_py", lambda st: None),
           ("ghost", "pfba_call", lambda st: None), ("ghost", "gba_list", lambda st: None), ("ghost", "kmg_list", lambda st: None),
           ("ghost", "objective_installed", lambda st: None),
           ("attr", obj, "name", lambda st: (st, VStr(fresh("nm", Id)))),
           ("attr", obj, "expression", lambda st: (st, N.VNp(fresh("np:expr", N.NP)))),
           ("ghost", ("global", "_model"), lambda st: None), ("ghost", ("global", "_loopless"), lambda st: None),
           ("attr", obj, "direction", lambda st: (st, VStr(fresh("dir", Id))))]
    for s, w in SENSES:
        out.append(("ghost", ("rec", s), lambda st: None))
        out.append(("ghost", ("stored", w), lambda st: None))
    return out + C4._slim_mod(Env({"self": E["model"]}, E.s0, eng=E.eng))


def _cases():
    out = []
    for d, listed, pf in [(d, l, p) for d in ("max", "other") for l in (False, True) for p in (False, True)]:
        req = (lambda E: _objective(E.s0, E["model"]) is not None and
               E.s0.objs[_objective(E.s0, E["model"]).oid]["attr:direction"].t == id_lit("max"))
        c = Case(("maximisation" if d == "max" else "minimisation") + (":list" if listed else ":all") + (":pfba" if pf else ""),
                 requires=req if d == "max" else (lambda E, req=req: z3.Not(req(E))), ensures=_post_for(d))
        c.params_override = {"reaction_list": N.TNp() if listed else TNone(), "pfba_factor": TReal() if pf else TNone()}
        c.may_raise = "Exception"               # no optimum, or a step whose status has no primal values: the error propagates
        c.ensures_on_raise = lambda E: z3.BoolVal(True)
        c.modifies_on_raise = _mod
        out.append(c)
    return out


REG.add(Contract(MV, "flux_variability_analysis", "C05",
                 [("model", _model_t()), ("reaction_list", TNone()), ("loopless", TConc(False)), ("fraction_of_optimum", TReal()),
                  ("pfba_factor", TNone()), ("processes", TConc(1))], _cases(), pre=_pre, modifies=_mod,
                 key="flux_variability_analysis", axioms=lambda E: C3.run_axioms(),
                 loops={2: LoopSpec(_inv_steps, lambda E, Lc: _loop_mod(E, Lc))},
                 note="serial path only (processes = 1), loopless = False; pfba_factor finite when given"))


def _loop_mod(E, Lc):
    sense = Lc.st.ghost.get("sense_py")
    what = dict(SENSES).get(sense)
    return [("ghost", "objc", lambda st: fresh("objc", C5.CoefMap)), ("ghost", "solved_with", lambda st: fresh("solved", C5.CoefMap)),
            ("ghost", ("rec", sense), lambda st: (fresh("rec_sw", IdCoef), fresh("rec_k", IdInt), fresh("rec_v", IdReal))),
            ("ghost", ("stored", what), lambda st: (fresh("st_k", IdInt), fresh("st_v", IdReal)))] + \
        C4._slim_mod(Env({"self": E["model"]}, E.s0, eng=E.eng))
