"""C20 — ReactionSummary._generate: which numbers the reaction summary shows (data flow through the opaque algebra).

Statement (C20): "Summaries report the fluxes of the solution they describe".  Proved, for every shape of the arguments
(solution given / None; fva None / a float fraction / a data frame):
  * the flux shown is `solution[<id of THIS reaction>]` of the solution that was passed in - looked up by identifier - or, when no
    solution was passed, of exactly one `pfba(model)` call made on the model the summary was asked for;
  * when `fva` is a float, flux_variability_analysis is called once, on that model, for exactly `[this reaction]` with
    `fraction_of_optimum` = that float, and its result is what is joined to the flux table; a given data frame is joined as it is;
    without fva nothing is joined;
  * the table is `DataFrame(data={"flux": [that flux]}, index=[that id])` (joined with the ranges when there are any) and is stored
    as `_flux`; the summary's tolerance is the model's.
pandas operations are uninterpreted; pfba and flux_variability_analysis are abstract calls (C09 / C05 cover them).
"""
import z3
import cobra  # noqa
from .common import *  # noqa
from pyvc import npalg as N

MS = "cobra/summary/reaction_summary.py"
for _m in (MS, "cobra/summary/summary.py"):
    if _m not in REG.modules:
        REG.modules.append(_m)
REG.inline.add("Summary._generate")


def global_hook(eng, name):
    if name in ("pfba", "flux_variability_analysis"):
        return VFunc("abstract", name)
    return None


def call_abstract(eng, st, f, pos, kw):
    if f.a in ("pfba", "flux_variability_analysis"):
        out = N.VNp(fresh("np:" + f.a, N.NP))
        calls = st.ghost.get("rs_calls", ())
        return [("ok", st.setghost("rs_calls", calls + ((f.a, tuple(pos), dict(kw), out),)), out)]
    return None


def isinstance_hook(eng, st, v, clsname):
    # fva is a float fraction, a data frame (opaque) or None: decided by the parameter's shape
    if clsname == "float":
        if isinstance(v, VReal):
            return True
        if isinstance(v, (N.VNp, VNone)):
            return False
    return None


HOOKS = chain_hooks({"global": global_hook, "call_abstract": call_abstract, "isinstance": isinstance_hook}, N.HOOKS)


def _self_t():
    return TObj("ReactionSummary", {"_reaction": TObj("Reaction", {"id": TStr()}), "_flux": TNone(), "_tolerance": TNone()})


def _post(E):
    rec = E.s1.objs[E["self"].oid]
    rid = E.s0.objs[E.s0.objs[E["self"].oid]["attr:_reaction"].oid]["attr:id"]
    calls = E.s1.ghost.get("rs_calls", ())
    sol_given = not isinstance(E["solution"], VNone)
    fva = E["fva"]
    want_calls = (0 if sol_given else 1) + (1 if isinstance(fva, VReal) else 0)
    if len(calls) != want_calls or not isinstance(rec.get("attr:_flux"), N.VNp):
        return z3.BoolVal(False)
    cs = []
    i = 0
    if sol_given:
        sol = E["solution"].t
    else:
        name, pos, kw, out = calls[0]
        cs.append(z3.BoolVal(name == "pfba" and len(pos) == 1 and pos[0] is E["model"] and not kw))
        sol, i = out.t, 1
    flux = N.term("getitem", sol, N.lift(rid))
    table = N.term("pandas.DataFrame(data,index)", N.term("dict", N.lift(VConc("flux")), N.term("list", flux)), N.term("list", N.lift(rid)))
    if isinstance(fva, VNone):
        want = table
    else:
        if isinstance(fva, VReal):
            name, pos, kw, out = calls[i]
            rxn = E.s0.objs[E["self"].oid]["attr:_reaction"]
            ok = (name == "flux_variability_analysis" and len(pos) == 1 and pos[0] is E["model"]
                  and set(kw) == {"reaction_list", "fraction_of_optimum"} and kw["fraction_of_optimum"] is fva)
            cs.append(z3.BoolVal(bool(ok)))
            if ok:
                rl = kw["reaction_list"]
                one = isinstance(rl, VObj) and rl.kind == "pylist" and len(E.s1.objs[rl.oid]["items"]) == 1 and E.s1.objs[rl.oid]["items"][0] is rxn
                cs.append(z3.BoolVal(bool(one)))
            ranges = out.t
        else:
            ranges = fva.t
        want = N.term("call", N.term("attr.join", table), ranges)
    cs.append(rec["attr:_flux"].t == want)
    tol = rec.get("attr:_tolerance")
    cs.append(z3.BoolVal(tol is E.s0.objs[E["model"].oid]["attr:tolerance"]))
    return z3.And(*cs)


def _cases():
    out = []
    for sol in (False, True):
        for fv in ("none", "float", "frame"):
            c = Case(f"solution={'given' if sol else 'none'}:fva={fv}", ensures=_post)
            c.params_override = {"solution": N.TNp() if sol else TNone(),
                                 "fva": {"none": TNone(), "float": TReal(), "frame": N.TNp()}[fv]}
            out.append(c)
    return out


REG.add(Contract(MS, "ReactionSummary._generate", "C20",
                 [("self", _self_t()), ("model", TObj("Model", {"tolerance": TReal()})), ("solution", TNone()), ("fva", TNone())],
                 _cases(), key="ReactionSummary._generate",
                 modifies=lambda E: [("obj", E["self"]), ("ghost", "rs_calls", lambda st: ())]))
