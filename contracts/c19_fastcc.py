"""C19 — fastcc.py: the LP of FASTCC (`_find_sparse_mode`), the coefficient flip (`_flip_coefficients`), the driver (`fastcc`).

Documented (fastcc docstring, "The LP used for FASTCC", LP-7 of Vlassis et al. 2014):
    maximize  sum_{i in J} z_i   s.t.   z_i in [0, eps],   v_i >= z_i  for i in J,   S v = 0,  v in B
with v_i the (net) flux of reaction i.

_find_sparse_mode(model, rxns, flux_threshold, zero_cutoff) - PROVED for every number of listed reactions and every model size
(the optlang objects are syntactic terms of the opaque algebra pyvc.npalg; `"auxiliary_{}".format(id)` is the concatenation):
  * EMPTY.  rxns == [] -> returns a new empty list; no call is made on the model, nothing of the solver / objective is written.
  * VARIABLES.  for the j-th listed reaction r one auxiliary variable  aux(r) = problem.Variable("auxiliary_" + r.id, lb=0.0,
    ub=flux_threshold)  (z_i in [0, eps]) ...
  * ROWS.  ... and one row  row(r) = problem.Constraint(forward_variable(r) + reverse_variable(r) - aux(r), name="constraint_" + r.id,
    lb=0.0),  i.e.  forward + reverse - z >= 0.   THIS IS WHAT THE CODE BUILDS AND IT IS NOT THE DOCUMENTED ROW  v_i - z_i >= 0
    (v_i = forward - reverse): see "Judgement" below.  The post-condition states the built term; the lemmas state what it means.
  * ONE HAND-OVER.  exactly [aux(r0), row(r0), aux(r1), row(r1), ...] (length 2n, in the order of `rxns`) is handed to
    model.add_cons_vars (the context-aware entry point) in ONE call, before the objective is touched (loop invariant over rxns).
  * OBJECTIVE.  then the objective is REPLACED through the (context-aware) setter by problem.Objective(Zero, sloppy=True) - optlang's
    default direction "max" (assumed) - and gets coefficient 1.0 on every aux(r), r listed, and on nothing else (every other
    coefficient is the 0 of the fresh objective):  maximise the sum of the auxiliary variables.
  * SOLVE.  then model.optimize(objective_sense="max") is called once (Model.optimize by its C04 contract; NB: its documented senses
    are None / "maximize" / "minimize", so "max" leaves the direction of the objective as installed - "max" either way).
  * ANSWER.  with primal = the solver's primal values after THAT solve and flux(r) = primal(forward(r)) - primal(reverse(r)) (what the
    `Reaction.flux` getter reads: modelled in the hooks, see below), the returned list is a new list holding exactly the reactions of
    model.reactions (ALL of them, not only the listed ones) with |flux(r)| > zero_cutoff, in model order, each once.  The function
    raises OptimizationError when the solve ends in a status without primal values (and the model has a reaction) or when
    Model.optimize raises; it returns normally otherwise.
  * NO CONTEXT OF ITS OWN.  the function opens no `with model`: variables, rows and the objective are still in the model on return
    (the trace has no removal); it is the CALLER's context (fastcc wraps every call in `with model:`) that reverts them (C03 / C13).

Judgement of the row against the documentation (lemmas, LRA, over the C01 variable bounds 0 <= forward <= max(0, ub),
0 <= reverse <= max(0, -lb)):
  * lb >= 0 (the reaction cannot run backwards: reverse is pinned to 0): the built row IS the documented  v >= z.
  * ub <= 0 (backward only): the built row is  -v >= z  (|v| >= z); the documented row would force z = 0.  An extension, harmless.
  * lb < 0 < ub (reversible): the built row does NOT imply the documented one - PROVED as a deviation lemma: forward = reverse = t
    satisfies the steady state contribution of net flux 0, the bounds and the built row with z = eps for every eps <= 2 min(ub, -lb):
    the LP can collect the full reward z = eps for a reversible reaction WITHOUT any net flux through it, so the answer says nothing
    about whether a listed reversible reaction can carry flux.  This is the root of the OPEN finding `fastcc-drops-reversible`
    (known_findings.jsonl): fastcc's first call lists irreversible reactions only (there the row is sound), every later call lists
    the not yet kept reactions, reversible ones included.

_flip_coefficients(model, rxns) - PROVED, for a list of pairwise different reactions whose rows / auxiliary variables exist (they do
when it follows _find_sparse_mode on a superset, as in fastcc):
  * for every listed r, in the row named "constraint_" + r.id, the coefficient of every variable of that row OTHER than the variable
    named "auxiliary_" + r.id is negated; the auxiliary's own coefficient, every other row and every variable outside the row keep
    their coefficients (loop invariant);
  * then EVERY linear coefficient of the model's objective is negated (all of them - also those of auxiliaries of reactions that
    are not listed); the objective's direction is not touched;
  * glue lemma over this very post-condition: applying it twice to the same list is the identity on all coefficients.
  With the built row this turns  forward + reverse - z >= 0  into  -forward - reverse - z >= 0, which pins forward = reverse = z = 0
  for the flipped reaction (lemma): the flip as documented in the paper (v_i -> -v_i) is not what happens.  Same open finding.

Assumed (trusted=): optlang's Constraint.get_linear_coefficients / set_linear_coefficients / Objective.* (read / write exactly the
given coefficients), `model.constraints.get(name)` / `model.variables.get(name)` return the object of that name, the fresh Objective
has direction "max", Reaction.flux = primal(forward) - primal(reverse) after a status check (the getter's try/except ladder is not
re-verified here: modelled as raising OptimizationError exactly when the status is neither optimal nor one with primal values).

fastcc(model, flux_threshold, zero_cutoff) - the SKELETON, PROVED for every model size (the two helpers applied by their proved
contracts at the call sites; model.copy() / remove_reactions recorded as calls: C12 / C02 cover them):
  * zero_cutoff is normalised first (ValueError below the tolerance, nothing else done); the first list holds the reactions of the
    model that are not reversible (Reaction.reversibility is PROVED to be lb < 0 < ub and used as that term in the filter).
  * it works on the ARGUMENT model, never on a copy, and only inside contexts: every call of _find_sparse_mode, _flip_coefficients
    and model.optimize is made on the argument while the context stack is the entry stack plus ONE context of the function (side
    obligations at each call site); between two iterations of `while rxns_to_check`, at model.copy(), on return and when a solve
    raises (OptimizationError propagates) the stack is as at entry.  Reverting what the helpers add on exit is C03 / C13.
  * bookkeeping (loop invariant): the kept list rxns_to_keep is ONE list that only grows (its old entries stay where they are); each
    of its entries is a reaction of the model and was in the answer of some _find_sparse_mode call of this run (ghost set `answered`
    - i.e. carried |flux| > cutoff in a feasible distribution of the model plus the rows added for that call); the reactions still
    to check are reactions of the model; the list handed to _flip_coefficients has pairwise different identifiers (its precondition).
  * the LAST-ITERATION branch (nothing new was found): _flip_coefficients on the not yet kept reactions that are not in the first
    (irreversible) list, then ONE model.optimize(min) - NB the builtin function `min` is passed as objective_sense, which
    Model.optimize does not know (documented: None / "maximize" / "minimize"): the direction stays as installed, max, natively
    confirmed - and the kept list is extended by exactly the reactions named by fluxes.index[|fluxes| > cutoff].tolist() of THAT
    solution (labels assumed to be identifiers of reactions of the model: get_solution, C04), then the loop is left.
  * FINAL CONSTRUCTION: with A = set(rxns_to_keep) (a subset of the model's reactions), model.copy() is called once, after the loop,
    and remove_reactions(ids, remove_orphans=True) once, ON THE COPY, with ids = the identifiers of exactly the reactions of the
    argument model that are not in A (both directions, through the ghost enumeration of the set difference); the COPY is returned;
    the argument's reaction list, bounds, ids and model pointers are the ones found at entry.
  NOT claimed: that A ends up being exactly the non-blocked set - that is the FASTCC theorem and, because of the row above, it FAILS
  for reversible reactions (open finding fastcc-drops-reversible): bounded driver.  Termination of the while loop is not proved (each
  non-final iteration removes at least one reaction from rxns_to_check; cardinalities are not tracked).

Mutation trials (tools/mutate_and_run.sh cobra/flux_analysis/fastcc.py "<old>" "<new>" contracts.c19_fastcc --hooks HOOKS <key>); every
mutant is rejected (the named obligation comes back sat / unknown):
  _find_sparse_mode   forward + reverse - var -> forward - reverse - var ............ loop#0/inv-preserve.3   (the DOCUMENTED row: the
                      contract states the row as built, so the repair is seen as a change - see the Judgement above)
                      ub=flux_threshold -> ub=zero_cutoff .......................... loop#0/inv-preserve.3, .5
                      {v: 1.0 ...} -> {v: -1.0 ...} ................................ exit=return/post.4
                      abs(rxn.flux) > zero_cutoff -> rxn.flux > zero_cutoff ........ exit=return#1/post.9
                      for rxn in model.reactions if -> for rxn in rxns if .......... exit=return#1/post.7, .9, .10
                      obj_vars.append(var) -> pass ................................. loop#0/inv-preserve.4 (sat), .5
  _flip_coefficients  {k: -v ... if k is not var} -> {k: v ...} .................... loop#0/inv-preserve.2
                      ... if k is not var dropped (auxiliary flipped too) .......... loop#0/inv-preserve.2
                      {k: -v for objective} -> {k: v ...} .......................... exit=return#1/post.2 (sat)
                      variables.get("auxiliary_{}") -> variables.get("constraint_{}") loop#0/inv-preserve.2
                      if k is not var -> if k is var ............................... loop#0/inv-preserve.2
                      objective flip moved inside the loop ......................... loop#0/inv-preserve.3, exit=return#1/post (sat)
  fastcc              consistent_model.remove_reactions -> model.remove_reactions .. exit=return/post
                      difference(consistent_rxns) -> difference(irreversible_rxns) . exit=return/post.8, .9
                      first `with model:` -> `if True:` ............................ fastcc/_find_sparse_mode-called-inside-own-context.1 (sat)
                      return consistent_model -> return model ...................... exit=return/post
                      rxns_to_keep.extend(new_rxns) -> rxns_to_keep = new_rxns ..... loop#0/inv-preserve
                      remove_orphans=True -> False ................................. exit=return/post.1
                      rxns_to_flip = ... -> rxns_to_flip = rxns_to_keep ............ call:_flip_coefficients/pre   (this mutant first
                      VERIFIED: the flip axiom was assumed at the call site before its precondition was obliged; the axiom is now
                      conditional on the precondition)
                      model.copy() also inside the last-iteration branch ........... exit=return/post
                      sol.fluxes.abs() > zero_cutoff -> sol.fluxes > zero_cutoff ... exit=return/post.10
                      rxns_to_keep.extend(new_rxns) -> .extend(rxns_to_check) ...... loop#0/inv-preserve
                      optimize(min) before _flip_coefficients ...................... exit=return/post
  Reaction.reversibility   lb < 0 < ub -> lb <= 0 < ub ............................. exit=return#1/post (sat)
"""
import copy
import z3
import cobra  # noqa
from .common import *  # noqa
from . import c15_dictlist  # noqa
from . import c01_lp as C1
from . import c04_status as C4
from pyvc import npalg as N
from pyvc import builtins as B
from pyvc.engine import STR_CONCAT
from pyvc.values import id_lit, VReal, xr_lt

MF = "cobra/flux_analysis/fastcc.py"
KEY_SM, KEY_FLIP, KEY_FCC = "_find_sparse_mode", "_flip_coefficients", "fastcc"
MINE = {KEY_SM, KEY_FLIP, KEY_FCC}
ZERO = z3.Const("np:Zero", N.NP)
NpCoef = z3.ArraySort(N.NP, z3.RealSort())
Primal = z3.ArraySort(Ref, z3.RealSort())


def objc_np(st):
    """ghost: linear coefficient of every variable (an NP term; reaction variables embed through of_ref) in the model's objective"""
    return st.ghost.get("objc_np", z3.Const("objc_np0", NpCoef))


def primal(st):
    """ghost: primal value of every reaction variable after the last solve"""
    return st.ghost.get("primal", z3.Const("primal0", Primal))


def _model_t():
    obj = TObj("Objective", {"value": TReal(), "direction": TStr(), "expression": N.TNp()})
    sol = TObj("Solver", {"status": TStr(), "objective": obj})
    return TObj("Model", {"_solver": sol, "reactions": TDictList("Reaction"), "problem": N.TNp()})


def _m(E, st=None):
    return (st or E.s0).objs[E["model"].oid]


def _prob(E):
    return _m(E)["attr:problem"].t


def _objective_of(st, model):
    return st.objs[st.objs[model.oid]["attr:_solver"].oid]["attr:objective"]


# ---------------------------------------------------------------- Model.optimize at a call site (C04 contract, proved there)
_base_opt = REG.get("Model.optimize")


def _pick(case, pred):
    c = copy.copy(case)
    c.applies = pred
    return c


OPT = copy.copy(_base_opt)
OPT.call_cases = [_pick(_base_opt.cases[0], lambda a, st: isinstance(a.get("objective_sense"), VNone)),
                  _pick(_base_opt.cases[1], lambda a, st: not isinstance(a.get("objective_sense"), VNone))]


# ---------------------------------------------------------------- assumed: objective.set_linear_coefficients({opaque variable: c})
def _slc_post(E):
    d = E.s0.objs[E["coefficients"].oid]
    o0, o1 = objc_np(E.s0), objc_np(E.s1)
    x = qv("cx", N.NP)
    val = z3.Select(d["val"], x)
    val = z3.ToReal(val) if d["vkind"] == "int" else val
    return FA([x], o1[x] == z3.If(z3.Select(d["dom"], x), val, o0[x]), patterns=[o1[x]])


SLC = REG.add(Contract("optlang/interface.py", "Objective.set_linear_coefficients", "C19",
                       [("self", TObj("Objective", {})), ("coefficients", TDict("np", "real"))], [Case("any", ensures=_slc_post)],
                       assumed=True, key="Objective.set_linear_coefficients[fastcc]",
                       modifies=lambda E: [("ghost", "objc_np", lambda st: fresh("objc_np", NpCoef))],
                       note="optlang Objective.set_linear_coefficients on variables that are opaque terms: sets exactly the given "
                            "coefficients and no other (ghost objc_np = coefficient of each variable term)"))
REG.external_classes = getattr(REG, "external_classes", set()) | {"Objective", "Solver"}


# ---------------------------------------------------------------- hooks (only while the functions of fastcc.py are executed)
def _verifying(eng):
    return getattr(getattr(eng, "cur_contract", None), "key", None) in MINE


def _tr(st):
    return st.ghost.get("trace", ())


def _log(st, *event):
    return st.setghost("trace", _tr(st) + (tuple(event),))


def _kws(kw):
    return tuple(sorted(kw.items(), key=lambda x: x[0]))


def want_objective(prob):
    """problem.Objective(Zero, sloppy=True)"""
    return N.term("call(sloppy)", N.term("attr.Objective", prob), ZERO, N.lift(VBool(True)))


def _status_has_values(st, model):
    s = C4.status_of(st, model)
    return z3.Or(C4._is_status(s, "optimal"), C4._in_has_primals(s))


def global_hook(eng, name):
    if _verifying(eng) and name == "Zero":
        return N.VNp(ZERO)
    return None


def getattr_hook(eng, st, v, name):
    if not _verifying(eng):
        return None
    if isinstance(v, VObj) and v.cls == "Model" and name == "objective":
        return [("ok", st, _objective_of(st, v))]
    if isinstance(v, VObj) and v.cls == "Model" and name == "reactions" and st.ghost.get("solved") is not None \
            and eng.cur_contract.key == KEY_SM:
        # `[rxn for rxn in model.reactions if abs(rxn.flux) > zero_cutoff]` after the solve: Reaction.flux checks the solver status
        # first (check_solver_status, C04) and raises OptimizationError for a status without primal values - at the first reaction
        dl = st.objs[v.oid]["attr:reactions"]
        n, _ = L(st, dl)
        outs = []
        for ok, s in eng.branch(st, _status_has_values(st, v)):
            if ok:
                outs.append(("ok", s.setghost("flux_readable", True), dl))
                continue
            for some, s2 in eng.branch(s, n > 0):
                outs.append(eng.raise_(s2, "OptimizationError") if some else ("ok", s2, dl))
        return outs
    if isinstance(v, VRef) and v.cls == "Reaction" and name == "flux":
        # the primal values of the LAST solve: forward - reverse (Reaction.flux, after its status check: see above)
        p = primal(st)
        return [("ok", st, VReal(0, p[C1.fwd(v.t)] - p[C1.rev(v.t)]))]
    return None


def setattr_hook(eng, st, v, name, val):
    """model.objective = problem.Objective(...): a fresh objective (all coefficients 0) installed through the context-aware setter"""
    if _verifying(eng) and isinstance(v, VObj) and v.cls == "Model" and name == "objective" and isinstance(val, N.VNp):
        obj = _objective_of(st, v)
        is_lp7 = val.t == want_objective(st.objs[v.oid]["attr:problem"].t)
        st2 = st.updobj(obj.oid, **{"attr:expression": N.VNp(fresh("np:objexpr", N.NP)),
                                    "attr:direction": VStr(z3.If(is_lp7, id_lit("max"), fresh("objdir", Id)))})
        st2 = st2.setghost("objc_np", z3.K(N.NP, z3.RealVal(0)))
        return [("ok", _log(st2, "objective=", val.t, st), NONE)]
    return None


def list_display(eng, st, vs):
    if _verifying(eng) and vs and all(isinstance(x, N.VNp) for x in vs):
        return [B.list_from_values(eng, st, vs, ekind="np")]
    return None


def binop_hook(eng, st, op, a, b):
    """forward_variable + reverse_variable: expression arithmetic on the optlang variables of a reaction (Ref) is opaque as well"""
    def is_var(x):
        return isinstance(x, VRef) and x.cls == "Variable"
    if _verifying(eng) and (is_var(a) or is_var(b)) and type(op) in N.OPS:
        return [("ok", st, N.app(N.OPS[type(op)], a, b))]
    return None


def call_method_hook(eng, st, recv, name, pos, kw):
    if not _verifying(eng):
        return None
    if isinstance(recv, VConc) and isinstance(recv.py, str) and name == "format":
        # "prefix_{}".format(s) for a string s: the concatenation prefix_ + s
        lit = recv.py
        if lit.endswith("{}") and "{" not in lit[:-2] and "}" not in lit[:-2] and len(pos) == 1 and not kw and isinstance(pos[0], VStr):
            return [("ok", st, VStr(STR_CONCAT(id_lit(lit[:-2]), pos[0].t)))]
        return None
    if not isinstance(recv, VObj):
        return None
    if recv.cls == "Model" and name == "add_cons_vars":
        what = pos[0] if pos else None
        snap = None
        if isinstance(what, VObj) and what.kind == "list":
            rec = st.objs[what.oid]
            snap = (rec["len"], rec["elem"], rec["ekind"])
        return [("ok", _log(st, "add_cons_vars", recv, snap, _kws(kw), len(pos), st), NONE)]
    if recv.cls == "Objective" and name == "set_linear_coefficients" and len(pos) == 1 and not kw \
            and isinstance(pos[0], VObj) and pos[0].kind == "dict" and st.objs[pos[0].oid].get("kkind") == "np":
        outs = eng.apply_contract(st, SLC, [recv] + list(pos), kw)
        return [(k, _log(s, "set_linear_coefficients", recv, st) if k == "ok" else s, v) for k, s, v in outs]
    if recv.cls == "Model" and name == "optimize":
        a = dict(kw)
        if len(pos) < 2:
            a.setdefault("raise_error", VBool(False))
        res = []
        for k, s, v in eng.apply_contract(st, OPT, [recv] + list(pos), a):
            if k == "ok":
                s = s.setghost("primal", fresh("primal", Primal)).setghost("solved", True)      # new primal values
                s = _log(s, "optimize", recv, tuple(pos), _kws(kw), st, s)
            res.append((k, s, v))
        return res
    return None


OWN_HOOKS = {"global": global_hook, "getattr": getattr_hook, "setattr": setattr_hook, "list_display": list_display,
             "binop": binop_hook, "call_method": call_method_hook}
HOOKS = chain_hooks(OWN_HOOKS, N.HOOKS)


# ---------------------------------------------------------------- the formulation, as terms
def _real(x):
    return N.lift(VReal(0, z3.RealVal(x)))


def _name(E, prefix, r):
    return N.of_id(STR_CONCAT(id_lit(prefix), idarr(E, E.s0)[r]))


def aux(E, r):
    """z_r = problem.Variable("auxiliary_" + r.id, lb=0.0, ub=flux_threshold)"""
    return N.term("call(lb,ub)", N.term("attr.Variable", _prob(E)), _name(E, "auxiliary_", r), _real(0), N.lift(E["flux_threshold"]))


def row_built(E, r):
    """problem.Constraint(forward + reverse - z_r, name="constraint_" + r.id, lb=0.0) - what the code builds (NOT v_r - z_r >= 0)"""
    body = N.term("sub", N.term("add", N.of_ref(C1.fwd(r)), N.of_ref(C1.rev(r))), aux(E, r))
    return N.term("call(lb,name)", N.term("attr.Constraint", _prob(E)), body, _real(0), _name(E, "constraint_", r))


def _listed(E):
    return L(E.s0, E["rxns"])


def _pairs(E, elem, upto, rx):
    j = qv("bj")
    return FA([j], z3.Implies(z3.And(0 <= j, j < upto), z3.And(elem[2 * j] == aux(E, rx[j]), elem[2 * j + 1] == row_built(E, rx[j]))),
              patterns=[rx[j]])


def flux_above(E, st, r, cut):
    p = primal(st)
    v = p[C1.fwd(r)] - p[C1.rev(r)]
    return xr_lt(cut, VReal(0, z3.If(v >= 0, v, -v)))


# ---------------------------------------------------------------- _find_sparse_mode
def in_model(E, st, x):
    """x is an element of model.reactions (through the DictList index: no existential)"""
    dl = st.objs[E["model"].oid]["attr:reactions"]
    n, e = L(st, dl)
    dom, val = Dv(st, dl)
    ida = idarr(E, st)
    return z3.And(z3.Select(dom, ida[x]), e[val[ida[x]]] == x)


def members_of_model(E, st, ln, elem):
    j = qv("mj")
    return FA([j], z3.Implies(z3.And(0 <= j, j < ln), in_model(E, st, elem[j])), patterns=[elem[j]])


def _sm_pre(E):
    dl = _m(E)["attr:reactions"]
    n, e = _listed(E)
    j = qv("pj")
    return z3.And(WF(E, E.s0, dl),
                  FA([j], z3.Implies(z3.And(0 <= j, j < n), z3.And(e[j] != NULL, C1.model_of(E, E.s0, e[j]) != NULL)), patterns=[e[j]]))


def _is_model(E, v):
    return isinstance(v, VObj) and v.oid == E["model"].oid


def _filter_of(st):
    ks = [k for k in st.ghost if isinstance(k, tuple) and len(k) == 2 and k[0] == "filter"]
    if len(ks) != 1:
        return None
    src, dst, n = st.ghost[ks[0]]
    return z3.Int(ks[0][1]), src, dst


def _sm_post(E):
    tr = _tr(E.s1)
    if [ev[0] for ev in tr] != ["add_cons_vars", "objective=", "set_linear_coefficients", "optimize"]:
        return z3.BoolVal(False)
    n, rx = _listed(E)
    cs = []
    # ONE HAND-OVER: [aux(r0), row(r0), aux(r1), row(r1), ...] to model.add_cons_vars, on the untouched objective
    _, recv, snap, kws, npos, st_add = tr[0]
    if not (_is_model(E, recv) and snap is not None and snap[2] == "np" and not kws and npos == 1):
        return z3.BoolVal(False)
    ln, elem, _ = snap
    cs += [ln == 2 * n, _pairs(E, elem, n, rx)]
    # OBJECTIVE: replaced by Objective(Zero, sloppy=True) (direction max), then 1.0 on every auxiliary and 0 elsewhere
    _, oterm, _ = tr[1]
    cs.append(oterm == want_objective(_prob(E)))
    _, orecv, _ = tr[2]
    if not (isinstance(orecv, VObj) and orecv.oid == _objective_of(E.s0, E["model"]).oid):
        return z3.BoolVal(False)
    # SOLVE: one optimize(objective_sense="max") on the model, seeing exactly that objective
    _, mrecv, mpos, mkws, st_solve, st_solved = tr[3]
    if not (_is_model(E, mrecv) and not mpos and len(mkws) == 1 and mkws[0][0] == "objective_sense"):
        return z3.BoolVal(False)
    sense = mkws[0][1]
    cs.append(z3.BoolVal(isinstance(sense, VConc) and sense.py == "max"))
    x, w = qv("px", N.NP), qv("pw")
    is_aux = z3.Exists([w], z3.And(0 <= w, w < n, x == aux(E, rx[w])))
    o = objc_np(st_solve)
    cs.append(FA([x], o[x] == z3.If(is_aux, z3.RealVal(1), z3.RealVal(0)), patterns=[o[x]]))
    cs.append(st_solve.objs[_objective_of(st_solve, E["model"]).oid]["attr:direction"].t == id_lit("max"))
    # ANSWER: exactly the reactions of the model with |flux| > zero_cutoff in THAT solution, in model order, each once
    flt = _filter_of(E.s1)
    if flt is None or not (isinstance(E.res, VObj) and E.res.kind == "list") or not primal(E.s1).eq(primal(st_solved)):
        return z3.BoolVal(False)
    m, src, dst = flt
    rn, re_ = L(E.s1, E.res)
    mn, me = L(E.s0, _m(E)["attr:reactions"])
    cut = E["zero_cutoff"]
    j, j2, i = qv("aj"), qv("ak"), qv("ai")
    cs += [rn == m,
           FA([j], z3.Implies(z3.And(0 <= j, j < rn), z3.And(0 <= src[j], src[j] < mn, re_[j] == me[src[j]],
                                                            flux_above(E, E.s1, me[src[j]], cut))), patterns=[src[j]]),
           FA([j2], z3.Implies(z3.And(0 <= j2, j2 + 1 < rn), src[j2] < src[j2 + 1]), patterns=[src[j2 + 1]]),
           FA([i], z3.Implies(z3.And(0 <= i, i < mn, flux_above(E, E.s1, me[i], cut)),
                              z3.And(0 <= dst[i], dst[i] < rn, re_[dst[i]] == me[i])), patterns=[dst[i]])]
    # every element of the answer is a reaction of the model (the form used at call sites: through the DictList index)
    cs.append(members_of_model(E, E.s0, rn, re_))
    # it returns normally only when the status has primal values (or there is nothing to read)
    cs.append(z3.Or(_status_has_values(E.s1, E["model"]), mn == 0))
    return z3.And(*cs)


def _sm_on_raise(E):
    """raised by Model.optimize, or by the first flux read under a status without primal values; the hand-over has happened"""
    tr = _tr(E.s1)
    names = [ev[0] for ev in tr]
    if names == ["add_cons_vars", "objective=", "set_linear_coefficients"]:
        return z3.BoolVal(True)                             # Model.optimize raised
    if names == ["add_cons_vars", "objective=", "set_linear_coefficients", "optimize"]:
        return z3.Not(_status_has_values(E.s1, E["model"]))
    return z3.BoolVal(False)


def _sm_empty_post(E):
    m = E["model"]
    same = (len(_tr(E.s1)) == 0 and E.s1.objs[m.oid] is E.s0.objs[m.oid]
            and E.s1.objs[_objective_of(E.s0, m).oid] is E.s0.objs[_objective_of(E.s0, m).oid]
            and E.s1.objs[C4.solver_of(E.s0, m).oid] is E.s0.objs[C4.solver_of(E.s0, m).oid]
            and objc_np(E.s1).eq(objc_np(E.s0)) and primal(E.s1).eq(primal(E.s0))
            and isinstance(E.res, VObj) and E.res.kind == "list" and E.res.oid not in E.s0.objs)
    if not same:
        return z3.BoolVal(False)
    return L(E.s1, E.res)[0] == 0


def _sm_mod(E):
    o = _objective_of(E.s0, E["model"])
    return [("ghost", "trace", lambda st: ()), ("ghost", "objc_np", lambda st: fresh("objc_np", NpCoef)),
            ("ghost", "primal", lambda st: fresh("primal", Primal)), ("ghost", "solved", lambda st: None),
            ("ghost", "flux_readable", lambda st: None),
            ("attr", o, "direction", lambda st: (st, VStr(fresh("dr", Id)))),
            ("attr", o, "expression", lambda st: (st, N.VNp(fresh("np:expr", N.NP))))] + \
        C4._slim_mod(Env({"self": E["model"]}, E.s0, eng=E.eng))


def _sm_inv(E, Lc):
    vc, ov = Lc.var("vars_and_cons"), Lc.var("obj_vars")
    if not (isinstance(vc, VObj) and isinstance(ov, VObj)):
        return z3.BoolVal(False)
    rvc, rov = Lc.st.objs[vc.oid], Lc.st.objs[ov.oid]
    n, rx = _listed(E)
    i = Lc.i
    untouched = z3.BoolVal(len(_tr(Lc.st)) == 0)
    if rvc["ekind"] != "np" or rov["ekind"] != "np":        # still the untyped empty literals: before the first iteration
        return z3.And(z3.BoolVal(rvc["ekind"] != "np" and rov["ekind"] != "np"), Lc.n == n, i == 0, rvc["len"] == 0, rov["len"] == 0,
                      untouched)
    j = qv("ij")
    return z3.And(Lc.n == n, rvc["len"] == 2 * i, _pairs(E, rvc["elem"], i, rx), rov["len"] == i,
                  FA([j], z3.Implies(z3.And(0 <= j, j < i), rov["elem"][j] == aux(E, rx[j])), patterns=[rx[j], rov["elem"][j]]),
                  untouched)


def _sm_cases():
    c = Case("listed", requires=lambda E: _listed(E)[0] > 0, ensures=_sm_post)
    c.may_raise = "OptimizationError"
    c.ensures_on_raise = _sm_on_raise
    c.modifies_on_raise = _sm_mod
    return [c, Case("empty", requires=lambda E: _listed(E)[0] <= 0, ensures=_sm_empty_post)]


REG.add(Contract(MF, "_find_sparse_mode", "C19",
                 [("model", _model_t()), ("rxns", TList("ref:Reaction")), ("flux_threshold", TReal()), ("zero_cutoff", TReal())],
                 _sm_cases(), pre=_sm_pre, modifies=_sm_mod, key=KEY_SM,
                 loops={0: LoopSpec(_sm_inv, lambda E, Lc: [("list", Lc.var("vars_and_cons"), "np"), ("list", Lc.var("obj_vars"), "np")])},
                 note="listed reactions belong to a model (forward / reverse variables exist); model.reactions well formed; optlang "
                      "objects are opaque terms; Reaction.flux modelled in the hooks as primal(forward) - primal(reverse) behind the "
                      "status check; reverting what is added is the caller's `with model`"))


# ================================================================ _flip_coefficients
# ghost: ccoef[c][k] = linear coefficient of variable k (an NP term) in the row c (an NP term) of the solver
RowCoef = z3.ArraySort(N.NP, NpCoef)
members = z3.Function("np:members", N.NP, z3.ArraySort(N.NP, z3.BoolSort()))     # the variables in a `.variables` collection
jof = z3.Function("flip:index_of_row", N.NP, I)                                     # ghost inverse of j -> row of the j-th listed reaction


def ccoef(st):
    return st.ghost.get("ccoef", z3.Const("ccoef0", RowCoef))


def _flip_model_t():
    obj = TObj("Objective", {"value": TReal(), "direction": TStr(), "expression": N.TNp(), "variables": N.TNp()})
    sol = TObj("Solver", {"status": TStr(), "objective": obj})
    return TObj("Model", {"_solver": sol, "constraints": N.TNp(), "variables": N.TNp()})


def row_named(E, r):
    """model.constraints.get("constraint_" + r.id)"""
    return N.term("call", N.term("attr.get", _m(E)["attr:constraints"].t), _name(E, "constraint_", r))


def aux_named(E, r):
    """model.variables.get("auxiliary_" + r.id)"""
    return N.term("call", N.term("attr.get", _m(E)["attr:variables"].t), _name(E, "auxiliary_", r))


def _glc_row_result(eng, st, E):
    from pyvc.state import alloc_dict
    return alloc_dict(st, "np", "real", dom=members(E["variables"].t), val=z3.Select(ccoef(st), E["self"].t))


def _glc_row_post(E):
    """variables outside the collection asked for have coefficient 0 when the collection is the row's own `.variables`"""
    c, vs = E["self"].t, E["variables"].t
    k = qv("gk", N.NP)
    dom = members(vs)
    return z3.Implies(vs == N.term("attr.variables", c),
                      FA([k], z3.Implies(z3.Not(z3.Select(dom, k)), z3.Select(z3.Select(ccoef(E.s0), c), k) == 0),
                         patterns=[z3.Select(dom, k)]))


GLC_ROW = REG.add(Contract("optlang/interface.py", "Constraint.get_linear_coefficients", "C19",
                           [("self", N.TNp()), ("variables", N.TNp())], [Case("any", ensures=_glc_row_post)], assumed=True,
                           key="Constraint.get_linear_coefficients[fastcc]", result=_glc_row_result,
                           note="optlang Constraint.get_linear_coefficients(vars): a NEW dict {v: coefficient of v in the row} over the "
                                "given variables; `row.variables` holds every variable with a non-zero coefficient in the row"))


def _slc_row_post(E):
    c = E["self"].t
    d = E.s0.objs[E["coefficients"].oid]
    c0, c1 = ccoef(E.s0), ccoef(E.s1)
    x, k = qv("sx", N.NP), qv("sk", N.NP)
    new = z3.Select(z3.Select(c1, c), k)
    return z3.And(FA([x], z3.Implies(x != c, z3.Select(c1, x) == z3.Select(c0, x)), patterns=[z3.Select(c1, x)]),
                  FA([k], new == z3.If(z3.Select(d["dom"], k), z3.Select(d["val"], k), z3.Select(z3.Select(c0, c), k)), patterns=[new]))


SLC_ROW = REG.add(Contract("optlang/interface.py", "Constraint.set_linear_coefficients", "C19",
                           [("self", N.TNp()), ("coefficients", TDict("np", "real"))], [Case("any", ensures=_slc_row_post)], assumed=True,
                           key="Constraint.set_linear_coefficients[fastcc]",
                           modifies=lambda E: [("ghost", "ccoef", lambda st: fresh("ccoef", RowCoef))],
                           note="optlang Constraint.set_linear_coefficients: sets exactly the given coefficients of THIS row; every "
                                "other coefficient of the row and every other row keep theirs"))


def _glc_obj_result(eng, st, E):
    from pyvc.state import alloc_dict
    return alloc_dict(st, "np", "real", dom=members(E["variables"].t), val=objc_np(st))


def _glc_obj_post(E):
    vs = E["variables"].t
    own = E.s0.objs[E["self"].oid].get("attr:variables")
    k = qv("ok", N.NP)
    dom = members(vs)
    return z3.Implies(vs == own.t if isinstance(own, N.VNp) else z3.BoolVal(False),
                      FA([k], z3.Implies(z3.Not(z3.Select(dom, k)), z3.Select(objc_np(E.s0), k) == 0), patterns=[z3.Select(dom, k)]))


GLC_OBJ = REG.add(Contract("optlang/interface.py", "Objective.get_linear_coefficients", "C19",
                           [("self", TObj("Objective", {})), ("variables", N.TNp())], [Case("any", ensures=_glc_obj_post)], assumed=True,
                           key="Objective.get_linear_coefficients[fastcc]", result=_glc_obj_result,
                           note="optlang Objective.get_linear_coefficients(vars): a NEW dict {v: coefficient of v in the objective}; "
                                "`objective.variables` holds every variable with a non-zero coefficient"))


def flip_call_method(eng, st, recv, name, pos, kw):
    if getattr(getattr(eng, "cur_contract", None), "key", None) != KEY_FLIP:
        return None
    if isinstance(recv, N.VNp) and name == "get_linear_coefficients" and len(pos) == 1 and not kw and isinstance(pos[0], N.VNp):
        return eng.apply_contract(st, GLC_ROW, [recv] + list(pos), kw)
    if isinstance(recv, N.VNp) and name == "set_linear_coefficients" and len(pos) == 1 and not kw and isinstance(pos[0], VObj):
        outs = eng.apply_contract(st, SLC_ROW, [recv] + list(pos), kw)
        return [(k, _log(s, "row.set_linear_coefficients", recv.t) if k == "ok" else s, v) for k, s, v in outs]
    if isinstance(recv, VObj) and recv.cls == "Objective" and name == "get_linear_coefficients" and len(pos) == 1 and not kw \
            and isinstance(pos[0], N.VNp):
        return eng.apply_contract(st, GLC_OBJ, [recv] + list(pos), kw)
    return None


def flip_compare(eng, st, op, a, b):
    """`k is not var` on two solver objects: object identity is identity of the terms that denote them"""
    import ast
    if getattr(getattr(eng, "cur_contract", None), "key", None) == KEY_FLIP and isinstance(a, N.VNp) and isinstance(b, N.VNp) \
            and isinstance(op, (ast.Is, ast.IsNot)):
        same = a.t == b.t
        return [("ok", st, VBool(z3.Not(same) if isinstance(op, ast.IsNot) else same))]
    return None


def flip_call_object(eng, st, f, pos, kw):
    """<opaque row>.get_linear_coefficients(..) / .set_linear_coefficients(..): the attribute is read first, then called"""
    if isinstance(f, N.VNp) and z3.is_app(f.t) and f.t.num_args() == 1:
        nm = f.t.decl().name()
        for meth in ("get_linear_coefficients", "set_linear_coefficients"):
            if nm == f"np:attr.{meth}/1":
                return flip_call_method(eng, st, N.VNp(f.t.arg(0)), meth, pos, kw)
    return None


FLIP_HOOKS = chain_hooks({"call_method": flip_call_method, "call_object": flip_call_object, "compare": flip_compare}, OWN_HOOKS, N.HOOKS)
HOOKS = FLIP_HOOKS                    # one table for both functions (each hook is guarded by the contract being executed)


def flipped(E, c, k, upto):
    """c is the row of one of the first `upto` listed reactions and k is not that reaction's auxiliary variable"""
    n, rx = _listed(E)
    j = jof(c)
    return z3.And(0 <= j, j < upto, c == row_named(E, rx[j]), k != aux_named(E, rx[j]))


def _rows_state(E, cc0, cc1, upto):
    c, k = qv("fc", N.NP), qv("fk", N.NP)
    now = z3.Select(z3.Select(cc1, c), k)
    old = z3.Select(z3.Select(cc0, c), k)
    return FA([c, k], now == z3.If(flipped(E, c, k, upto), -old, old), patterns=[now])


def _objective_negated(o0, o1):
    x = qv("ox", N.NP)
    return FA([x], o1[x] == -o0[x], patterns=[o1[x]])


def _flip_pre(E):
    """the listed reactions are non-null and have pairwise different identifiers"""
    n, rx = _listed(E)
    ida = idarr(E, E.s0)
    j, j2 = qv("qj"), qv("qk")
    return z3.And(FA([j], z3.Implies(z3.And(0 <= j, j < n), rx[j] != NULL), patterns=[rx[j]]),
                  FA([j, j2], z3.Implies(z3.And(0 <= j, j < j2, j2 < n), ida[rx[j]] != ida[rx[j2]]), patterns=[z3.MultiPattern(rx[j], rx[j2])]))


def _flip_axioms(E):
    """assumed (strings, optlang): rows looked up under the names "constraint_" + id of reactions with different identifiers are
    different objects - stated through the ghost inverse jof (row -> index of the listed reaction it belongs to), which exists
    exactly when j -> row_named(rx[j]) is injective on the list"""
    n, rx = _listed(E)
    j = qv("xj")
    # conditional on the precondition: axioms are also assumed at call sites, BEFORE the precondition is obliged there
    return [z3.Implies(_flip_pre(E), FA([j], z3.Implies(z3.And(0 <= j, j < n), jof(row_named(E, rx[j])) == j), patterns=[rx[j]]))]


def _flip_post(E):
    n, _ = _listed(E)
    tr = _tr(E.s1)
    m = E["model"]
    obj_same = E.s1.objs[_objective_of(E.s0, m).oid] is E.s0.objs[_objective_of(E.s0, m).oid]       # direction, ... untouched
    if not (obj_same and tr and tr[-1][0] == "set_linear_coefficients"):
        return z3.BoolVal(False)
    return z3.And(_rows_state(E, ccoef(E.s0), ccoef(E.s1), n), _objective_negated(objc_np(E.s0), objc_np(E.s1)))


def _flip_inv(E, Lc):
    n, _ = _listed(E)
    return z3.And(Lc.n == n, _rows_state(E, ccoef(E.s0), ccoef(Lc.st), Lc.i), z3.BoolVal(objc_np(Lc.st).eq(objc_np(E.s0))))


def _flip_mod(E):
    return [("ghost", "trace", lambda st: ()), ("ghost", "ccoef", lambda st: fresh("ccoef", RowCoef)),
            ("ghost", "objc_np", lambda st: fresh("objc_np", NpCoef))]


REG.add(Contract(MF, "_flip_coefficients", "C19", [("model", _flip_model_t()), ("rxns", TList("ref:Reaction"))],
                 [Case("any", ensures=_flip_post)], pre=_flip_pre, axioms=_flip_axioms, modifies=_flip_mod, key=KEY_FLIP,
                 loops={0: LoopSpec(_flip_inv, lambda E, Lc: [("ghost", "ccoef", lambda st: fresh("ccoef", RowCoef)),
                                                              ("ghost", "trace", lambda st: ())])},
                 note="listed reactions have pairwise different identifiers (assumed: hence different rows); their rows and auxiliary variables exist in the solver "
                      "(model.constraints.get / model.variables.get are opaque look-ups that find the named object: after "
                      "_find_sparse_mode on a superset of the list, as in fastcc)"))


# ================================================================ fastcc (the skeleton: contexts, bookkeeping, final construction)
from . import c03_context as C3      # noqa: E402
from . import misc_small  # noqa: E402,F401  (normalize_cutoff)
from pyvc.state import alloc_list as _alloc_list, alloc_obj as _alloc_obj  # noqa: E402
label_at = z3.Function("np:label_at", N.NP, I, Id)          # the i-th entry of an opaque list of identifiers


def _fcc_model_t():
    obj = TObj("Objective", {"value": TReal(), "direction": TStr(), "expression": N.TNp(), "variables": N.TNp()})
    sol = TObj("Solver", {"status": TStr(), "objective": obj})
    return TObj("Model", {"_contexts": TList("ref:HistoryManager"), "_solver": sol, "reactions": TDictList("Reaction"),
                          "tolerance": TReal(), "problem": N.TNp(), "constraints": N.TNp(), "variables": N.TNp()})


# ---- the two helpers at their call sites: the PROVED contracts above, with the part of their post-condition the skeleton needs
def _sm_call_result(eng, st, E):
    return _alloc_list(st, "ref:Reaction", base="sparse_mode")


def _sm_call_listed(E):
    rn, re_ = L(E.s1, E.res)
    return members_of_model(E, E.s0, rn, re_)              # literally a conjunct of the proved post-condition (_sm_post)


def _sm_call_cases():
    c = Case("listed", requires=lambda E: _listed(E)[0] > 0, ensures=_sm_call_listed)
    c.may_raise = "OptimizationError"
    c.ensures_on_raise = lambda E: z3.BoolVal(True)
    c.modifies_on_raise = _sm_mod
    return [c, Case("empty", requires=lambda E: _listed(E)[0] <= 0, ensures=lambda E: L(E.s1, E.res)[0] == 0)]


SM_CALL = copy.copy(REG.get(KEY_SM))
SM_CALL.call_cases = _sm_call_cases()
SM_CALL.result = _sm_call_result
FLIP_CALL = copy.copy(REG.get(KEY_FLIP))
FLIP_CALL.call_cases = [Case("any")]                        # its post-condition is not needed by the skeleton


RefSet = z3.ArraySort(Ref, z3.BoolSort())


def answered(st):
    """ghost: the reactions that were in the answer of some _find_sparse_mode call of this run (carried |flux| > cutoff there)"""
    return st.ghost.get("answered", z3.K(Ref, z3.BoolVal(False)))


def _all_answered(st, ln, elem, lo=None):
    j = qv("wj")
    rng = z3.And(0 <= j, j < ln) if lo is None else z3.And(0 <= j, j < ln, j < lo)
    return FA([j], z3.Implies(rng, z3.Select(answered(st), elem[j])), patterns=[elem[j]])


def _stack_as_at_entry(E, st):
    n0, e0 = C3._ctxs(E.s0, E["model"])
    n1, e1 = C3._ctxs(st, E["model"])
    j = qv("cj")
    return z3.And(n1 == n0, FA([j], z3.Implies(z3.And(0 <= j, j < n0), e1[j] == e0[j]), patterns=[e1[j]]))


def _in_own_context(E, st):
    n0, e0 = C3._ctxs(E.s0, E["model"])
    n1, e1 = C3._ctxs(st, E["model"])
    j = qv("oj")
    return z3.And(n1 == n0 + 1, FA([j], z3.Implies(z3.And(0 <= j, j < n0), e1[j] == e0[j]), patterns=[e1[j]]))


def _entry_env(eng):
    return Env(eng.entry_args, eng.entry_state, eng=eng)


def _is_fcc(eng):
    return getattr(getattr(eng, "cur_contract", None), "key", None) == KEY_FCC


def fcc_global(eng, name):
    if _is_fcc(eng) and name in (KEY_SM, KEY_FLIP):
        return VFunc("abstract", name)
    return None


def fcc_call_abstract(eng, st, f, pos, kw):
    if not _is_fcc(eng) or f.a not in (KEY_SM, KEY_FLIP):
        return None
    E0 = _entry_env(eng)
    # every helper call happens on the ARGUMENT model while the function's own context is the innermost one
    eng.oblige(st, z3.BoolVal(bool(pos) and isinstance(pos[0], VObj) and pos[0].oid == eng.entry_args["model"].oid),
               f"fastcc/{f.a}-called-on-the-argument-model", kind="side")
    eng.oblige_split(st, _in_own_context(E0, st), f"fastcc/{f.a}-called-inside-own-context", kind="side")
    saved, a0 = _tr(st), answered(st)
    con = SM_CALL if f.a == KEY_SM else FLIP_CALL
    res = []
    for k, s, v in eng.apply_contract(st, con, list(pos), kw):
        s = s.setghost("trace", saved + ((f.a, k),))
        if k == "ok" and f.a == KEY_SM:
            # ghost bookkeeping: answered := answered + the elements of this answer (a definition of the new ghost value)
            a1 = fresh("answered", RefSet)
            rn, re_ = L(s, v)
            x, j = qv("ax", Ref), qv("aj")
            s = s.assume(FA([x], z3.Implies(z3.Select(a0, x), z3.Select(a1, x)), patterns=[z3.Select(a0, x)]),
                         FA([j], z3.Implies(z3.And(0 <= j, j < rn), z3.Select(a1, re_[j])), patterns=[re_[j]])).setghost("answered", a1)
        res.append((k, s, v))
    return res


def reversible(eng, st, r):
    """lower bound < 0 < upper bound (extended reals)"""
    lbk, lbv = eng.heap_arr(st, "_lower_bound")
    ubk, ubv = eng.heap_arr(st, "_upper_bound")
    zero = VReal(0, z3.RealVal(0))
    return z3.And(xr_lt(VReal(lbk[r], lbv[r]), zero), xr_lt(zero, VReal(ubk[r], ubv[r])))


# Reaction.reversibility (`return self._lower_bound < 0 < self._upper_bound`): PROVED to return exactly that term; inside the
# comprehension filter of fastcc the proved result is used as a TERM (a chained comparison would fork the filter)
REG.add(Contract(C1.M, "Reaction.reversibility@getter", "C19", [C1.RXN],
                 [Case("any", ensures=lambda E: E.res.t == reversible(E.eng, E.s0, E["self"].t) if isinstance(E.res, VBool) else z3.BoolVal(False))],
                 key="Reaction.reversibility@getter", result="bool"))


def fcc_getattr(eng, st, v, name):
    if _is_fcc(eng) and isinstance(v, VRef) and v.cls == "Reaction" and name == "reversibility":
        return [("ok", st, VBool(reversible(eng, st, v.t)))]
    return None


def _list_as_set(eng, st, v):
    from pyvc import comprehension as C
    if isinstance(v, VObj) and v.kind == "set":
        return [("ok", st, v)]
    return C.set_of_iterable(eng, st, v)


def fcc_call_method(eng, st, recv, name, pos, kw):
    if not _is_fcc(eng) or not isinstance(recv, VObj):
        return None
    if recv.kind == "set" and name in ("difference", "intersection") and len(pos) == 1 and not kw \
            and isinstance(pos[0], VObj) and pos[0].kind == "list":
        # set.difference(<list>) / set.intersection(<list>): the list argument is read as the set of its elements
        def go(s, other):
            rec, orec = s.objs[recv.oid], s.objs[other.oid]
            if rec.get("lazy") or orec.get("lazy"):
                raise Unsupported("set operation with a still untyped empty set")
            newdom = fresh("setop", rec["dom"].sort())
            k = z3.Const(fresh_name("dk"), rec["dom"].sort().domain())
            b = z3.Select(orec["dom"], k)
            ax = FA([k], z3.Select(newdom, k) == z3.And(z3.Select(rec["dom"], k), z3.Not(b) if name == "difference" else b),
                    patterns=[z3.Select(newdom, k)])
            from pyvc.state import alloc_set
            s2, out = alloc_set(s.assume(ax), rec["kkind"], dom=newdom)
            return [("ok", s2, out)]
        return eng.bind(_list_as_set(eng, st, pos[0]), go)
    if recv.cls == "Model" and name == "optimize" and recv.oid == eng.entry_args["model"].oid:
        # model.optimize(min): the BUILTIN FUNCTION min is passed as objective_sense - not one of the documented senses (None /
        # "maximize" / "minimize"), so Model.optimize keeps the direction of the objective; recorded, the result is opaque
        E0 = _entry_env(eng)
        eng.oblige_split(st, _in_own_context(E0, st), "fastcc/optimize-called-inside-own-context", kind="side")
        arg = pos[0] if pos else kw.get("objective_sense", NONE)
        a = {"objective_sense": VStr(fresh("undocumented_sense", Id)) if not isinstance(arg, (VNone, VStr, VConc)) else arg,
             "raise_error": VBool(False)}
        res = []
        for k, s, v in eng.apply_contract(st, OPT, [recv], a):
            if k == "ok":
                v = N.VNp(fresh("np:solution", N.NP))
                s = _log(s, "optimize", arg, v)
            res.append((k, s, v))
        return res
    if recv.cls == "Model" and name == "copy" and not pos and not kw and recv.oid == eng.entry_args["model"].oid:
        # model.copy() (C12): a NEW model object; the call is recorded with the state it is made in
        st2, c = _alloc_obj(st, "Model", {"attr:is_copy": VBool(True)})
        return [("ok", _log(st2, "copy", c, st), c)]
    if recv.cls == "Model" and name == "remove_reactions":
        # <model>.remove_reactions(ids, remove_orphans=True) (C02): recorded with the receiver, the list as it is now, the state
        snap = None
        if len(pos) == 1 and isinstance(pos[0], VObj) and pos[0].kind == "list":
            rec = st.objs[pos[0].oid]
            snap = (rec["len"], rec["elem"], rec["ekind"])
        return [("ok", _log(st, "remove_reactions", recv, snap, _kws(kw), st), NONE)]
    if recv.cls == "DictList" and name == "get_by_id" and len(pos) == 1 and isinstance(pos[0], VStr) \
            and recv.oid == st.objs[eng.entry_args["model"].oid]["attr:reactions"].oid:
        # model.reactions.get_by_id(label) for the labels of the solution's fluxes: assumed to be identifiers of reactions of the
        # model (get_solution indexes the fluxes by the reaction ids: C04), so the look-up finds the reaction (no KeyError path)
        n, e = L(st, recv)
        dom, val = Dv(st, recv)
        return [("ok", st.assume(z3.Select(dom, pos[0].t)), VRef(e[val[pos[0].t]], "Reaction"))]
    return None


def fcc_iter(eng, st, v):
    """iterating the opaque list of labels `sol.fluxes.index[...].tolist()`: its entries are identifiers"""
    if _is_fcc(eng) and isinstance(v, N.VNp):
        n = N.np_len(v.t)
        return [("ok", _log(st.assume(n >= 0), "labels", v.t, st), VSeq(n, lambda s, i: VStr(label_at(v.t, i)), tag="labels"))]
    return None


FCC_HOOKS = chain_hooks({"global": fcc_global, "call_abstract": fcc_call_abstract, "getattr": fcc_getattr, "call_method": fcc_call_method,
                         "iter": fcc_iter}, FLIP_HOOKS, C3.ALL_HOOKS)
HOOKS = FCC_HOOKS                     # one table for the three functions (every hook is guarded by the contract being executed)


def _fcc_pre(E):
    m = E["model"]
    dl = _m(E)["attr:reactions"]
    n, e = L(E.s0, dl)
    j = qv("pj")
    return z3.And(WF(E, E.s0, dl), C3._ctx_nonnull(Env({"obj": m}, E.s0, eng=E.eng)),
                  FA([j], z3.Implies(z3.And(0 <= j, j < n), z3.And(e[j] != NULL, C1.model_of(E, E.s0, e[j]) != NULL)), patterns=[e[j]]))


def _fcc_local(E, st, name):
    return st.lookup(E.eng._top_fid, name)


def _fcc_inv(E, Lc):
    """while rxns_to_check: ... - between two iterations no context of the function is open, the kept list only grows and holds
    reactions of the model, the reactions still to check are reactions of the model"""
    keep, check = Lc.var("rxns_to_keep"), Lc.var("rxns_to_check")
    if not (isinstance(keep, VObj) and keep.kind == "list" and isinstance(check, VObj) and check.kind == "list"):
        return z3.BoolVal(False)
    if keep.oid not in Lc.entry.objs:
        return z3.BoolVal(False)                            # the kept list must be the SAME list throughout (it is only extended)
    kn, ke = L(Lc.st, keep)
    cn, ce = L(Lc.st, check)
    kn0, ke0 = L(Lc.entry, keep)
    j = qv("gj")
    no_final_step = not any(ev[0] in ("copy", "remove_reactions") for ev in _tr(Lc.st))      # the copy is made after the loop
    return z3.And(z3.BoolVal(no_final_step), _stack_as_at_entry(E, Lc.st), C3._ctx_nonnull(Env({"obj": E["model"]}, Lc.st, eng=E.eng)),
                  members_of_model(E, E.s0, kn, ke), members_of_model(E, E.s0, cn, ce), _all_answered(Lc.st, kn, ke),
                  kn >= kn0, FA([j], z3.Implies(z3.And(0 <= j, j < kn0), ke[j] == ke0[j]), patterns=[ke[j]]))


def _fcc_loop_mod(E, Lc):
    m = E["model"]
    return [("list", Lc.var("rxns_to_keep")), ("list", Lc.var("rxns_to_check")), ("heap", "hm_len"),
            ("attr", m, "_contexts", lambda st: _alloc_list(st, "ref:HistoryManager")),
            ("ghost", "world", lambda st: fresh("world", C3.World)), ("ghost", "ccoef", lambda st: fresh("ccoef", RowCoef)),
            ("ghost", "answered", lambda st: fresh("answered", RefSet))] + _sm_mod(E)


def _fcc_mod(E):
    m = E["model"]
    return [("heap", "hm_len"), ("attr", m, "_contexts", lambda st: _alloc_list(st, "ref:HistoryManager")),
            ("ghost", "world", lambda st: fresh("world", C3.World)), ("ghost", "ccoef", lambda st: fresh("ccoef", RowCoef)),
            ("ghost", "answered", lambda st: fresh("answered", RefSet))] + _sm_mod(E)


def _order_for(st, ln):
    """the ghost enumeration (order, pos) of the set whose listing has length `ln`"""
    ln = z3.simplify(ln)
    hits = [v for k, v in st.ghost.items() if isinstance(k, tuple) and len(k) == 3 and k[0] == "order" and z3.simplify(v[2]).eq(ln)]
    return hits[-1] if hits else None


def _fcc_post(E):
    m = E["model"]
    tr = _tr(E.s1)
    if len(tr) < 2 or tr[-2][0] != "copy" or tr[-1][0] != "remove_reactions" or any(ev[0] in ("copy", "remove_reactions") for ev in tr[:-2]):
        return z3.BoolVal(False)
    _, cp, st_copy = tr[-2]
    _, recv, snap, kws, st_rm = tr[-1]
    # FINAL CONSTRUCTION: model.copy() once, after the last context is closed; remove_reactions on THE COPY; the copy is returned
    if not (isinstance(E.res, VObj) and E.res.oid == cp.oid and cp.oid != m.oid and cp.oid not in E.s0.objs
            and isinstance(recv, VObj) and recv.oid == cp.oid and snap is not None and snap[2] == "id"
            and len(kws) == 1 and kws[0][0] == "remove_orphans" and isinstance(kws[0][1], (VBool, VConc))):
        return z3.BoolVal(False)
    orph = kws[0][1]
    cs = [orph.t if isinstance(orph, VBool) else z3.BoolVal(orph.py is True), _stack_as_at_entry(E, st_copy), _stack_as_at_entry(E, E.s1)]
    # A = the set of the kept reactions: a subset of the model's reactions
    A = _fcc_local(E, st_rm, "consistent_rxns")
    keep = _fcc_local(E, st_rm, "rxns_to_keep")
    rn, re_ = snap[0], snap[1]
    od = _order_for(st_rm, rn)
    if not (isinstance(A, VObj) and A.kind == "set" and isinstance(keep, VObj) and od is not None):
        return z3.BoolVal(False)
    adom = st_rm.objs[A.oid]["dom"]
    kn, ke = L(st_rm, keep)
    order, pos_, _ = od
    x, j = qv("rx", Ref), qv("rj")
    ida = idarr(E, E.s0)
    cs += [members_of_model(E, E.s0, kn, ke),
           FA([j], z3.Implies(z3.And(0 <= j, j < kn), z3.Select(adom, ke[j])), patterns=[ke[j]]),
           FA([x], z3.Implies(z3.Select(adom, x), in_model(E, E.s0, x)), patterns=[z3.Select(adom, x)]),
           # the identifiers handed to remove_reactions: exactly those of the reactions of the model that are not in A
           FA([j], z3.Implies(z3.And(0 <= j, j < rn), z3.And(re_[j] == ida[order[j]], in_model(E, E.s0, order[j]),
                                                             z3.Not(z3.Select(adom, order[j])))), patterns=[order[j]]),
           FA([x], z3.Implies(z3.And(in_model(E, E.s0, x), z3.Not(z3.Select(adom, x))),
                              z3.And(0 <= pos_[x], pos_[x] < rn, re_[pos_[x]] == ida[x])), patterns=[pos_[x]])]
    # WHERE A COMES FROM: every kept reaction was in the answer of a _find_sparse_mode call - except, when the loop ends through its
    # last-iteration branch, those appended there: the reactions named by the labels  fluxes.index[|fluxes| > cutoff].tolist()  of the
    # solution of the ONE solve made after _flip_coefficients (model.optimize(min): the builtin `min` is not a documented sense)
    names = [ev[0] for ev in tr]
    if "optimize" in names or "labels" in names or KEY_FLIP in names:
        if names[-5:-2] != [KEY_FLIP, "optimize", "labels"] or names.count("optimize") != 1 or names.count("labels") != 1:
            return z3.BoolVal(False)
        _, sense, sol = tr[-4]
        _, labels, st_lab = tr[-3]
        cut = _fcc_local(E, st_lab, "zero_cutoff")
        k0, _ = L(st_lab, keep)
        fluxes = N.term("attr.fluxes", sol.t)
        mask = N.term("gt", N.term("call", N.term("attr.abs", fluxes)), N.lift(cut))
        dl_ = _m(E)["attr:reactions"]
        _, me = L(E.s0, dl_)
        _, mval = Dv(E.s0, dl_)
        cs += [labels == N.term("call", N.term("attr.tolist", N.term("getitem", N.term("attr.index", fluxes), mask))),
               z3.BoolVal(isinstance(sense, VFunc)),                # what is passed is a function object (the builtin min), recorded
               _all_answered(st_rm, kn, ke, lo=k0), kn == k0 + N.np_len(labels),
               FA([j], z3.Implies(z3.And(k0 <= j, j < kn), ke[j] == me[mval[label_at(labels, j - k0)]]), patterns=[ke[j]])]
    else:
        cs.append(_all_answered(st_rm, kn, ke))
    # the argument model's reaction list is the one found at entry (nothing is added to / removed from the argument)
    dl = _m(E)["attr:reactions"]
    cs.append(z3.BoolVal(E.s1.objs[dl.oid] is E.s0.objs[dl.oid] and all(
        _same_arrays(E.eng.heap_arr(E.s1, f), E.eng.heap_arr(E.s0, f)) for f in ("_lower_bound", "_upper_bound", "_id", "_model"))))
    return z3.And(*cs)


def _same_arrays(a, b):
    if isinstance(a, tuple):
        return all(x.eq(y) for x, y in zip(a, b))
    return a.eq(b)


def _fcc_on_raise(E):
    return _stack_as_at_entry(E, E.s1)


def _fcc_cases():
    out = []
    tol = lambda E: _m(E)["attr:tolerance"]          # noqa
    for tag, t in (("cutoff_none", TNone()), ("cutoff_given", TReal())):
        c = Case(tag, ensures=_fcc_post)
        c.params_override = {"zero_cutoff": t}
        if tag == "cutoff_given":
            c.requires = lambda E: z3.Not(xr_lt(E["zero_cutoff"], tol(E)))
        c.may_raise = "OptimizationError"             # a solve that raises / ends without primal values: propagates, contexts closed
        c.ensures_on_raise = _fcc_on_raise
        c.modifies_on_raise = _fcc_mod
        out.append(c)
    c = Case("cutoff_below_tolerance", requires=lambda E: xr_lt(E["zero_cutoff"], tol(E)), raises="ValueError",
             ensures=lambda E: z3.BoolVal(len(_tr(E.s1)) == 0))
    c.params_override = {"zero_cutoff": TReal()}
    out.append(c)
    return out


_thr = TReal()
_thr.default = VReal(0, z3.RealVal(1))
_zc = TNone()
_zc.default = NONE
REG.add(Contract(MF, "fastcc", "C19", [("model", _fcc_model_t()), ("flux_threshold", _thr), ("zero_cutoff", _zc)], _fcc_cases(),
                 pre=_fcc_pre, modifies=_fcc_mod, key=KEY_FCC, axioms=lambda E: C3.run_axioms(),
                 loops={0: LoopSpec(_fcc_inv, _fcc_loop_mod)},
                 note="the skeleton only: that the kept set ends up being exactly the non-blocked reactions is the FASTCC theorem "
                      "(and fails for reversible reactions: open finding fastcc-drops-reversible) - bounded driver"))


# ================================================================ lemmas
def lemmas():
    from pyvc.engine import Engine, Obl
    from pyvc.state import State
    f, r, z, lb, ub, eps = z3.Reals("l_f l_r l_z l_lb l_ub l_eps")
    pos = lambda x: z3.If(x > 0, x, z3.RealVal(0))                                       # noqa
    dom = [lb <= ub, pos(lb) <= f, f <= pos(ub), pos(-ub) <= r, r <= pos(-lb), 0 <= z, z <= eps]    # C01 variable bounds, 0 <= z <= eps
    v = f - r
    built, documented = f + r - z >= 0, v - z >= 0
    mn = lambda a, b: z3.If(a <= b, a, b)                                                # noqa
    at = lambda t, w: z3.substitute(t, (f, w), (r, w), (z, 2 * w))                       # noqa  the point forward = reverse = w, z = 2w
    w1, w2 = mn(mn(ub, -lb), eps / 2), eps / 2
    out = [
        Obl("C19/lemma/fastcc/row-built-is-documented-row-when-reaction-cannot-run-backwards", dom + [lb >= 0], built == documented, "lemma"),
        Obl("C19/lemma/fastcc/row-built-bounds-z-by-absolute-flux-when-backward-only", dom + [ub <= 0], built == (-v - z >= 0), "lemma"),
        Obl("C19/lemma/fastcc/row-built-is-a-relaxation-of-documented-row", dom + [documented], built, "lemma"),
        # DEVIATION (open finding fastcc-drops-reversible): for a reversible reaction the built row admits the reward without net flux
        # (explicit witness: forward = reverse = w, z = 2w with w = min(ub, -lb, eps/2), resp. w = eps/2)
        Obl("C19/lemma/fastcc/DEVIATION-reversible-row-admits-positive-z-with-zero-net-flux", [lb < 0, 0 < ub, 0 < eps],
            z3.And(*[at(t, w1) for t in dom], at(built, w1), at(v, w1) == 0, 2 * w1 > 0, z3.Not(at(documented, w1))), "lemma"),
        Obl("C19/lemma/fastcc/DEVIATION-reversible-row-admits-full-z-with-zero-net-flux", [lb < 0, 0 < ub, 0 < eps, eps <= 2 * ub, eps <= -2 * lb],
            z3.And(*[at(t, w2) for t in dom], at(built, w2), at(v, w2) == 0, 2 * w2 == eps, z3.Not(at(documented, w2))), "lemma"),
        Obl("C19/lemma/fastcc/DEVIATION-flipped-row-pins-forward-reverse-and-z-to-zero", dom + [-f - r - z >= 0],
            z3.And(f == 0, r == 0, z == 0), "lemma"),
    ]
    # applying _flip_coefficients twice to the same list is the identity: from the very post-condition, on synthetic states s0 -> s1 -> s2
    eng = Engine(REG)
    st = State()
    st, model = _flip_model_t().make(st, "g_model")
    st, rx = TList("ref:Reaction").make(st, "g_rxns")
    a = {"model": model, "rxns": rx}
    s = [st.setghost("ccoef", z3.Const(f"g_cc{i}", RowCoef)).setghost("objc_np", z3.Const(f"g_oc{i}", NpCoef)) for i in range(3)]
    n, _ = L(st, rx)
    E01, E12 = Env(a, s[0], s[1], eng=eng), Env(a, s[0], s[2], eng=eng)
    hyps = eng.kind_axioms(st) + [_flip_pre(E01)] + _flip_axioms(E01) + [
                                  _rows_state(E01, ccoef(s[0]), ccoef(s[1]), n), _objective_negated(objc_np(s[0]), objc_np(s[1])),
                                  _rows_state(E12, ccoef(s[1]), ccoef(s[2]), n), _objective_negated(objc_np(s[1]), objc_np(s[2]))]
    c, k, x = z3.Const("g_c", N.NP), z3.Const("g_k", N.NP), z3.Const("g_x", N.NP)
    out += [Obl("C19/lemma/fastcc/flip-twice-restores-every-row-coefficient", hyps,
                z3.Select(z3.Select(ccoef(s[2]), c), k) == z3.Select(z3.Select(ccoef(s[0]), c), k), "lemma"),
            Obl("C19/lemma/fastcc/flip-twice-restores-every-objective-coefficient", hyps,
                objc_np(s[2])[x] == objc_np(s[0])[x], "lemma")]
    # vacuity guard: the hypotheses must not be (cheaply) contradictory
    chk = z3.Solver()
    chk.set("timeout", 1500)
    chk.add(*hyps)
    if any(z3.is_false(z3.simplify(h)) for h in hyps) or chk.check() == z3.unsat:
        raise AssertionError("c19_fastcc.lemmas: contradictory hypotheses (vacuous lemma)")
    return out
