"""C06 / C14 — deletion._multi_deletion (serial AND parallel branch), the four public wrappers single_/double_ reaction_/gene_deletion,
and the argument normalisation _entities_ids / _element_lists.

Statement (C06): "Single and double gene or reaction deletion return exactly one row for every requested (unordered) combination,
and the growth and status in that row are those of the model in which the named reactions ... are forced to zero flux".
Statement (C14): "single/double deletions return the same values for every ... knock-out whatever the number of worker processes,
chunking, completion order of the workers, or order of the requested items".

ASSUMED (each with a `note=` on an assumed contract, listed in the evidence):
  * `itertools.product` / `frozenset` (contract `itertools.product+frozenset`): product(*lists) yields a finite number P of tuples
    (ghost enumeration tup[0..P)); tuple i has the components lists[k][A_k[i]] (ghost index arrays) and every vector of positions
    (a_0, ..) occurs, at IDX(a_0, ..); frozenset(t) is an immutable value identified by an opaque IDENTITY frozenset_of(t) whose
    members are exactly the components of t, and two tuples of the product have the same identity exactly when they have the same
    SET of components (extensionality: that is what makes the combinations unordered); the SET comprehension
    {frozenset(c) for c in product(...)} is then the engine's ordinary set comprehension: the set C = { frozenset_of(tup[i]) :
    0 <= i < P } (both inclusions are in the post-condition); len(C) and iteration over C go through the engine's ghost enumeration
    of a set (order / pos bijection between [0, n) and C); set(ids) of a combination identity c is the opaque value set_of(c).
  * `map` (contract `builtins.map`): map(f, items) is lazy; consumed, its k-th element is f(k-th item of the iteration of items),
    the calls happening in that order when the consumer asks for the elements.
  * the pool (contract `Pool.imap_unordered` of contracts/c14_fva_pool.py): ProcessPool(p, initializer, initargs) - every worker
    runs initializer(*initargs) once on its own copy; imap_unordered(f, items, chunksize >= 1 [OBLIGED]) yields exactly the results
    f(x) for every x of items, each once, in an ARBITRARY order: the k-th arrival is the task of item perm[k] for a ghost
    PERMUTATION of [0, n) given with its inverse (bijection axioms; nothing else is known about it); a task's exception is re-raised
    in the parent; the parent's objects are not written by the workers.
  * the per-combination call (contract `deletion-call`): `_reaction_deletion(model, c)` / `_gene_deletion(model, c)` with c a
    frozenset: RECORDED abstract call returning (c, growth, status) with growth / status fresh opaque values, recorded in the ghost
    maps rec_n (number of calls for c), rec_g, rec_s ("the result the deletion function returned for c"); its effect on the model is
    the havoc of the modifies clause of the PROVED contract of that function (contracts/c06_deletion.py) followed by the last clause
    of its proved post-condition (the context it opened is closed again: stack as found).  What that call does for a LIST of ids
    (exactly the listed knock-outs in force when growth and status are read) is the proved kernel of C06; that iterating a frozenset
    yields its members is not modelled.  Stated precondition: the call returns normally for every combination of the request (ids
    known to the model) in the serial branch; in the parallel branch a task may raise (re-raised in the parent).
    In the parallel branch the task is `_reaction_deletion_worker(c)` / `_gene_deletion_worker(c)`: by its PROVED contract
    (contracts/c06_deletion.py: one call of the deletion function on the worker's `_model` with exactly the task's ids, result
    returned unchanged) and the proved contract of deletion._init_worker (global _model = the model of initargs; OBLIGATION
    `pool-task/worker-model-is-the-model`), the same recorded call on the worker's private copy; only the value crosses over.
  * add_moma / add_room: recorded abstract calls (proved elsewhere: contracts/c09_moma.py, c09_room.py) which may raise.
  * pandas.DataFrame(rows, columns=[...]) is a term of the opaque algebra over the list of row tuples (pyvc/npalg.py).

PROVED for `_multi_deletion` (entity gene / reaction; one or two element lists of any length; method fba / moma / linear moma /
room / linear room; `processes` any int or None -> configuration.processes; with / without keyword arguments; BOTH the serial and
the parallel path are paths of every case), with loop invariants over the ARRIVAL index (obligations `drain/inv-init`,
`drain/inv-preserve`):
  * the returned frame is pandas.DataFrame(rows, columns=["ids", "growth", "status"]) where rows has exactly len(C) entries;
  * every combination c of C has the row inv[pos[c]] and that row holds exactly (set_of(c), rec_g[c], rec_s[c]) - the growth and
    status the deletion function returned for c; every row k belongs to the combination order[perm[k]] of C and is the row of that
    combination (row-of . combination-of = identity: nothing twice); both statements do not mention the permutation's values,
    `processes` or the chunk size: the parallel result is the serial result up to the row order;
  * the deletion function is called exactly ONCE for every combination of C and never for anything else (rec_n[c] = 1 on C, 0
    elsewhere), with (model, c) in the serial branch / through the worker of that entity on the worker's copy in the parallel one;
    the function is `_gene_deletion` for entity "gene" and `_reaction_deletion` for "reaction";
  * C is exactly { frozenset_of(t) : t a tuple of product(*element_lists) } (both inclusions); in terms of the REQUESTED ids: for
    every choice of one position per element list there is a combination in C whose members are exactly the ids at these positions
    (hence a row for it), and two tuples of the product share a row exactly when they have the same SET of ids - one row per
    UNORDERED combination;
  * processes = min(processes or configuration.processes, len(C)); the pool is used exactly when that is > 1; then ONE pool,
    created with exactly (that number, initializer=_init_worker, initargs=(model,)) inside the function's context AFTER the
    moma / room set-up, entered, ONE imap_unordered(<worker of the entity>, C, chunksize = len(C) // processes) with chunksize >= 1
    proved, and left again (__exit__) - also when a task raises;
  * method: "moma" with a solver that is not QP capable -> RuntimeError before anything is touched; "moma" / "linear moma" ->
    exactly one add_moma(model, solution=solution, linear=<"linear" in method>); "room" / "linear room" -> exactly one
    add_room(model, solution=solution, linear=..., **kwargs unchanged); "fba" -> none; the call happens INSIDE the function's own
    `with model:` context (stack one deeper than at entry);
  * the context opened by the function is closed again (stack as found) on EVERY exit: normal, set-up call raising, task raising.
PROVED for the four wrappers: exactly one `_element_lists` call with (model.reactions | model.genes, the list argument(s)), exactly
one `_multi_deletion` call with (model, "reaction" | "gene", element_lists = that result [single] / the list display of its two
components [double], method / solution / processes / **kwargs passed through unchanged), its result returned unchanged.
PROVED for `_entities_ids`: a list of objects -> the new list of their ids, position by position; a list of ids -> a new list with
the same entries (copy); for `_element_lists`: see the cases below (None -> all entities, second None -> the SAME list as the
first).

Engine extensions used (additive; pyvc/builtins.py, comprehension.py, engine.py): list(<tuple / list display of concrete length>);
item assignment, slicing and append on a list display of concrete length with non-scalar entries (`pylist`); a list comprehension
whose single element expression raises the same exception at every element (`[e.id for e in <list of str>]`): it raises when the
source is not empty and is the empty list otherwise.

MUTANTS (deliberately broken copies of cobra/flux_analysis/deletion.py, run as tools/mutate_and_run.sh does - for `_multi_deletion`
restricted to the named case(s) to keep the trials short; none verifies; `post.N` as numbered by the run, with what the clause says):
 _multi_deletion
  1 `min(processes, len(args))` -> `max(...)`           gene:single:fba  call:Pool.imap_unordered/pre-chunksize>=1 unknown; return#1
                                                          post.11 sat (pool used iff min(p, n) > 1), post.12 (pool size = min(p, n)),
                                                          post.14 / post.16 (chunksize bounds) unknown
  2 `len(args) // processes` -> `processes // len(args)`  gene:single:fba  pre-chunksize>=1, return#1 post.14 / post.16 unknown
  3 `"gene": _gene_deletion_worker` -> `_reaction_deletion_worker`   gene:single:fba  return#1 post.14 (the worker of the entity) unknown
  4 `if processes > 1:` -> `> 2`                          reaction:double:fba  return#2 post.11 (serial only when min(p, n) <= 1) unknown
  5 `for (ids, growth, status)` -> `(ids, status, growth)`  reaction:double:fba  return#1 / return#2 post.1 (the frame: row shape) unknown
  6 add_moma `linear="linear" in method` -> `not in`      reaction:single:linear-moma  return#1 post.17 / return#2 post.12 (set-up call) unknown
  7 add_room without `**kwargs`                           reaction:single:room  return#1 post.17 / return#2 post.12 unknown
  8 columns `["ids", "status", "growth"]`                 reaction:single:fba  return#1 / return#2 post.1 (the frame term) unknown
  9 serial worker table swapped                           reaction:single:fba  return#2 post.12 (partial(<function of the entity>, model)) unknown
 10 `solver not in sutil.qp_solvers` -> `in`              reaction:single:moma:no-qp-solver  every exit `expected-RuntimeError` sat / unknown
 11 `with model:` -> `if True:`                           reaction:single:linear-moma  return#1 post.13 (pool created inside the context),
                                                          post.17 and return#2 post.12 sat (set-up call inside the context)
 12 `ProcessPool(processes, ...)` -> `processes + 1`      reaction:single:fba  return#1 post.12 (pool size) unknown
 13 `elif "room" in method` -> `elif "linear" in method`  reaction:single:room  return#1 post.17 / return#2 post.12 (add_room missing) unknown
 14 `if processes is None:` -> `is not None`              reaction:single:fba  post.11 / 12 / 15 / 16 unknown; processes=None: undecided
                                                          (min(None, n) is outside the engine)
 wrappers (HOOKS_W; `post` sat in every listed case)
 15 single_reaction_deletion: entity "gene"               16 double_gene_deletion: [gene_list2, gene_list1]
 17 single_gene_deletion: _element_lists(model.reactions, ...)   18 single_reaction_deletion without processes=processes
 19 double_reaction_deletion: _element_lists(model.reactions, reaction_list2, reaction_list1)
 _element_lists / _entities_ids
 20 `if lists[0] is None` -> `is not None`                case None: call:_entities_ids/pre sat; case ids,None: post.1 / post.2 sat
 21 `result.append(result[-1])` -> `result.append(_entities_ids(entities))`   cases ids,None / objects,None: post.3 (the SAME list) sat
 22 `lists[1:]` -> `lists[2:]`                            cases ids,None / None,ids: post sat (one entry per argument)
 23 `[e.id for e in entities]` -> `[e for e in entities]`  cases objects / objects:DictList: post sat
 24 `return list(entities)` -> `return []`                case ids: return#1 post.2 sat
"""
import z3
import cobra  # noqa
from .common import *  # noqa
from . import c03_context as C3
from . import c06_deletion as C6
from . import c14_fva_pool as CP       # registers the assumed contract Pool.imap_unordered
from pyvc import npalg as N
from pyvc import builtins as B
from pyvc import comprehension as CM
from pyvc.apply import ASSUMED_USED
from pyvc.state import State, alloc_obj, alloc_list
from pyvc.loops import havoc_locations
from pyvc.values import VSeq, id_lit

MD = "cobra/flux_analysis/deletion.py"
NP = N.NP
IntInt = z3.ArraySort(z3.IntSort(), z3.IntSort())
IntRef = z3.ArraySort(z3.IntSort(), Ref)
IntNP = z3.ArraySort(z3.IntSort(), NP)
IntId = z3.ArraySort(z3.IntSort(), Id)
RefInt = z3.ArraySort(Ref, z3.IntSort())
RefNP = z3.ArraySort(Ref, NP)
RefId = z3.ArraySort(Ref, Id)
FS = z3.Function("frozenset_of", Ref, Ref)          # identity of frozenset(<tuple>)
SETOF = z3.Function("set_of", Ref, Ref)             # identity of set(<frozenset>)

DELETION_OF = {"gene": "_gene_deletion", "reaction": "_reaction_deletion"}
WORKER_OF = {"gene": "_gene_deletion_worker", "reaction": "_reaction_deletion_worker"}
FN_OF_WORKER = {"_gene_deletion_worker": "_gene_deletion", "_reaction_deletion_worker": "_reaction_deletion"}   # proved: c06_deletion._worker_post
METHODS = ("fba", "moma", "linear moma", "room", "linear room")

REG.add(Contract("itertools", "product", "C06", [("lists", TNone())], [Case("any")], assumed=True, key="itertools.product+frozenset",
                 note="product(*lists) yields finitely many tuples (ghost enumeration tup[0..P)); frozenset(t) is identified by the opaque "
                      "identity frozenset_of(t) (equal for tuples with the same members); the set comprehension over it, len() and "
                      "iteration of the resulting set are the engine's set comprehension / ghost enumeration of a set; set(c) of a "
                      "combination identity is the opaque value set_of(c)"))
REG.add(Contract("builtins", "map", "C06", [("f", TNone())], [Case("any")], assumed=True, key="builtins.map",
                 note="map(f, items) is lazy: when consumed its k-th element is f(k-th item of the iteration of items), the calls "
                      "happening in that order"))
REG.add(Contract(MD, "_reaction_deletion", "C06", [("model", TNone())], [Case("any")], assumed=True, key="deletion-call",
                 note="_reaction_deletion(model, c) / _gene_deletion(model, c) for a frozenset c as called by _multi_deletion: recorded "
                      "abstract call returning (c, growth, status) (fresh opaque values, recorded per combination); effect on the model "
                      "= havoc of the modifies clause of the proved contract of that function + the context clause of its proved "
                      "post-condition (stack as found); returns normally (serial branch: ids known to the model - stated precondition); "
                      "iteration over the frozenset is not modelled"))
REG.add(Contract(MD, "add_moma", "C06", [("model", TNone())], [Case("any")], assumed=True, key="add_moma/add_room@recorded",
                 note="add_moma(model, solution, linear) / add_room(model, solution, linear, **kwargs) as called by _multi_deletion: "
                      "recorded abstract calls (proved in contracts/c09_moma.py / c09_room.py) that may raise ValueError / "
                      "OptimizationError"))


def _model_t():
    return TObj("Model", {"_contexts": TList("ref:HistoryManager"), "problem": N.TNp(), "reactions": TDictList("Reaction"),
                          "genes": TDictList("Gene")})


def _is_fn(v, kind, name):
    return isinstance(v, VFunc) and v.kind == kind and v.a == name


def _unsupported(msg):
    raise Unsupported(msg)


# ---------------------------------------------------------------- ghost state
def _rec(st):
    """per combination: number of calls of the deletion function, growth and status it returned"""
    return st.ghost.get("md_rec", (z3.K(Ref, z3.IntVal(0)), z3.Const("md_rec_g0", RefNP), z3.Const("md_rec_s0", RefId)))


def _arr(st):
    """per ARRIVAL index: the combination, growth and status of the k-th result handed to the consumer"""
    return st.ghost.get("md_arr", (z3.Const("md_arr_c0", IntRef), z3.Const("md_arr_g0", IntNP), z3.Const("md_arr_s0", IntId)))


# ---------------------------------------------------------------- hooks
ABSTRACT = ("product", "frozenset", "set", "map", "ProcessPool", "add_moma", "add_room", "_gene_deletion", "_reaction_deletion")


def global_hook(eng, name):
    if name in ABSTRACT:
        return VFunc("abstract", name)
    if name == "sutil":
        return N.VNp(z3.Const("np:module:cobra.util.solver", NP))
    return None


def contains_hook(eng, st, cont, item):
    if isinstance(cont, VConc) and isinstance(cont.py, str) and isinstance(item, VConc) and isinstance(item.py, str):
        return [("ok", st, VBool(item.py in cont.py))]           # `"moma" in method` on literal strings
    return C6.contains_hook(eng, st, cont, item)


def len_hook(eng, st, v):
    if isinstance(v, VObj) and v.kind == "set" and not st.objs[v.oid].get("lazy") and "card" not in st.objs[v.oid]:
        st, order, pos, n = CM._order_of(st, v, st.objs[v.oid])       # the ghost enumeration of the set: n = its cardinality
        return [("ok", st, VInt(n))]
    return None


COMP = z3.Function("tuple_component", Ref, z3.IntSort(), Id)       # the k-th component of a tuple of the product
MEM = z3.Function("frozenset_has", Ref, Id, z3.BoolSort())           # membership in a frozenset (by identity)


def _sameset(tup, r, i, i2):
    """the tuples i and i2 of the product have the same SET of components"""
    return z3.And(*[z3.Or(*[COMP(tup[i], k) == COMP(tup[i2], k2) for k2 in range(r)]) for k in range(r)],
                  *[z3.Or(*[COMP(tup[i2], k) == COMP(tup[i], k2) for k2 in range(r)]) for k in range(r)])


def _product(eng, st, pos, kw):
    """ASSUMED (itertools.product+frozenset): P tuples; tuple i has the components lists[k][A_k[i]]; every index vector occurs
    (at position IDX(a_0, ..)); frozenset(t) has exactly the components of t as members; two tuples of the product give the same
    frozenset identity exactly when they have the same set of components (extensionality)"""
    ASSUMED_USED["itertools.product+frozenset"] = REG.get("itertools.product+frozenset").note
    if kw or not pos or not all(isinstance(p, VObj) and p.kind == "list" and st.objs[p.oid].get("ekind") == "id" for p in pos):
        raise Unsupported("product of something else than lists of ids")
    r = len(pos)
    I_ = z3.IntSort()
    P = fresh("product_len", I_)
    tup = fresh("product_tuple", IntRef)
    A = [fresh(f"product_index{k}", IntInt) for k in range(r)]
    IDX = z3.Function(fresh_name("product_pos"), *([I_] * (r + 1)))
    ne = [(st.objs[p.oid]["len"], st.objs[p.oid]["elem"]) for p in pos]
    i, i2, y = qv("pi"), qv("pi2"), qv("py", Id)
    a = [qv(f"pa{k}") for k in range(r)]
    axs = [P >= 0,
           FA([i], z3.Implies(z3.And(0 <= i, i < P), z3.And(*[z3.And(0 <= A[k][i], A[k][i] < ne[k][0], COMP(tup[i], k) == ne[k][1][A[k][i]])
                                                              for k in range(r)])), patterns=[tup[i]]),
           FA(a, z3.Implies(z3.And(*[z3.And(0 <= a[k], a[k] < ne[k][0]) for k in range(r)]),
                            z3.And(0 <= IDX(*a), IDX(*a) < P, *[A[k][IDX(*a)] == a[k] for k in range(r)])), patterns=[IDX(*a)]),
           FA([i, y], z3.Implies(z3.And(0 <= i, i < P), MEM(FS(tup[i]), y) == z3.Or(*[COMP(tup[i], k) == y for k in range(r)])),
              patterns=[MEM(FS(tup[i]), y)]),
           FA([i, i2], z3.Implies(z3.And(0 <= i, i < P, 0 <= i2, i2 < P), (FS(tup[i]) == FS(tup[i2])) == _sameset(tup, r, i, i2)),
              patterns=[z3.MultiPattern(FS(tup[i]), FS(tup[i2]))])]
    st = st.assume(*axs).setghost("md_product", (P, tup, tuple(pos), A, IDX))
    return [("ok", st, VSeq(P, lambda s, i: VRef(tup[i], "CombTuple"), tag="product"))]


def _setup_call(eng, st, name, pos, kw):
    ASSUMED_USED["add_moma/add_room@recorded"] = REG.get("add_moma/add_room@recorded").note
    tr = st.ghost.get("md_setup", ())
    st2 = st.setghost("md_setup", tr + ((name, tuple(pos), dict(kw), st),))
    return [("ok", st2, NONE), eng.raise_(st2, "ValueError"), eng.raise_(st2, "OptimizationError")]


def _record_result(st, c):
    g, s = N.VNp(fresh("np:growth", NP)), VStr(fresh("status", Id))
    rn, rg, rs = _rec(st)
    st = st.setghost("md_rec", (z3.Store(rn, c, rn[c] + 1), z3.Store(rg, c, g.t), z3.Store(rs, c, s.t)))
    return st, g, s


def _deletion_call(eng, st, name, pos, kw):
    """the serial task: see the module docstring (`deletion-call`)"""
    ASSUMED_USED["deletion-call"] = REG.get("deletion-call").note
    if kw or len(pos) != 2 or not (isinstance(pos[0], VObj) and pos[0].cls == "Model") or not (isinstance(pos[1], VRef) and pos[1].cls == "Comb"):
        raise Unsupported(f"{name} called with something else than (model, combination)")
    model, item = pos
    con = REG.get(name)
    E = Env({"model": model, con.params[1][0]: item}, st, eng=eng)
    s2 = havoc_locations(eng, st, con.modifies(E))
    n0, e0 = C3._ctxs(st, model)
    n1, e1 = C3._ctxs(s2, model)
    j = qv("dj")
    s2 = s2.assume(n1 == n0, FA([j], z3.Implies(z3.And(0 <= j, j < n0), e1[j] == e0[j]), patterns=[e1[j]]))
    s2, g, s = _record_result(s2, item.t)
    return [("ok", s2, VTuple((item, g, s)))]


class Lazy:
    """payload of a lazy result sequence (map / imap_unordered), drained by the `iter` hook when a consumer asks for its elements"""

    def __init__(self, **kw):
        self.__dict__.update(kw)


def _items_seq(eng, st, items):
    if not (isinstance(items, VObj) and items.kind == "set"):
        raise Unsupported("the items of map / imap_unordered are not a set")
    outs = CM.iterable_to_seq(eng, st, items)
    (k, st, seq), = outs
    return st, seq


def _map(eng, st, pos, kw):
    ASSUMED_USED["builtins.map"] = REG.get("builtins.map").note
    if len(pos) != 2 or kw:
        raise Unsupported("map with several iterables")
    st, seq = _items_seq(eng, st, pos[1])
    lz = Lazy(mode="serial", f=pos[0], items=pos[1], seq=seq, perm=None, inv=None, pool=None, state=st)
    return [("ok", st, VFunc("lazyresults", lz))]


def _pool_create(eng, st, pos, kw):
    procs = pos[0] if pos else kw.get("processes")
    init, args = kw.get("initializer"), kw.get("initargs")
    w0 = None
    if _is_fn(init, "repo", "_init_worker") and isinstance(args, VTuple) and len(args.items) == 1 \
            and isinstance(args.items[0], VObj) and args.items[0].cls == "Model":
        outs = [o for o in eng.apply_contract(st, REG.get("deletion._init_worker"), list(args.items), {})]     # PROVED contract
        if len(outs) == 1 and outs[0][0] == "ok":
            w0 = outs[0][1]
    st2, pool = alloc_obj(st, "ProcessPool", {})
    info = {"w0": w0, "processes": procs, "initializer": init, "initargs": args, "state": st, "extra_pos": len(pos) > 1,
            "extra_kw": sorted(set(kw) - {"processes", "initializer", "initargs"})}
    tr = st2.ghost.get("pool_trace", ())
    return [("ok", st2.setghost(("pool", pool.oid), info).setghost("pool_trace", tr + (("create", pool.oid, info),)), pool)]


def _imap(eng, st, pool, pos, kw):
    info = st.ghost.get(("pool", pool.oid))
    if info is None or len(pos) < 2:
        raise Unsupported("imap_unordered on an unknown pool")
    f, items = pos[0], pos[1]
    cs = pos[2] if len(pos) > 2 else kw.get("chunksize", VInt(1))
    if not isinstance(cs, (VInt, VBool)):
        raise Unsupported("imap_unordered with a non-integer chunksize")
    st, seq = _items_seq(eng, st, items)
    n = seq.n
    # multiprocessing.Pool.imap_unordered raises ValueError("Chunksize must be 1+") otherwise
    eng.oblige(st, unwrap(cs, "int") >= 1, "call:Pool.imap_unordered/pre-chunksize>=1", kind="callpre")
    ASSUMED_USED["Pool.imap_unordered"] = REG.get("Pool.imap_unordered").note
    perm, inv = fresh("perm", IntInt), fresh("perm_inv", IntInt)
    k, j = qv("pk"), qv("pj")
    st = st.assume(FA([k], z3.Implies(z3.And(0 <= k, k < n), z3.And(0 <= perm[k], perm[k] < n, inv[perm[k]] == k)), patterns=[perm[k]]),
                   FA([j], z3.Implies(z3.And(0 <= j, j < n), z3.And(0 <= inv[j], inv[j] < n, perm[inv[j]] == j)), patterns=[inv[j]]))
    tr = st.ghost.get("pool_trace", ())
    call = {"f": f, "items": items, "chunksize": cs, "state": st, "extra": sorted(set(kw) - {"chunksize"})}
    st = st.setghost("pool_trace", tr + (("imap_unordered", pool.oid, call),))
    lz = Lazy(mode="pool", f=f, items=items, seq=seq, perm=perm, inv=inv, pool=info, state=st)
    return [("ok", st, VFunc("lazyresults", lz))]


def _task(eng, st, lz, i):
    """outcomes (kind, state, (c, growth, status)) of producing the i-th element of the lazy sequence"""
    if lz.mode == "serial":
        item = lz.seq.get(st, i)
        return eng.call(st, lz.f, [item], {})
    # the i-th ARRIVAL: the task of item perm[i], run by a worker (module docstring); only the value crosses over to the parent
    item = lz.seq.get(st, lz.perm[i])
    info = lz.pool
    w0 = info["w0"]
    if w0 is None or not (isinstance(lz.f, VFunc) and lz.f.kind == "repo" and lz.f.a in FN_OF_WORKER and REG.get(lz.f.a) is not None):
        raise Unsupported("a pool initialiser / task function this module knows nothing about")
    ASSUMED_USED["deletion-call"] = REG.get("deletion-call").note
    wm = w0.ghost.get(("global", "_model"))
    eng.oblige(st, z3.BoolVal(isinstance(info["initargs"], VTuple) and wm is info["initargs"].items[0]),
               "pool-task/worker-model-is-the-model", kind="side")
    s2, g, s = _record_result(st, item.t)
    return [("ok", s2, VTuple((item, g, s))), eng.raise_(st, "KeyError")]


def call_abstract(eng, st, f, pos, kw):
    if f.a == "product":
        return _product(eng, st, pos, kw)
    if f.a == "frozenset":
        if len(pos) == 1 and isinstance(pos[0], VRef) and pos[0].cls == "CombTuple":
            return [("ok", st, VRef(FS(pos[0].t), "Comb"))]
        return B.bi_set(eng, st, pos, kw)
    if f.a == "set":
        if len(pos) == 1 and isinstance(pos[0], VRef) and pos[0].cls == "Comb":
            return [("ok", st, VRef(SETOF(pos[0].t), "CombSet"))]
        return B.bi_set(eng, st, pos, kw)
    if f.a == "map":
        return _map(eng, st, pos, kw)
    if f.a == "ProcessPool":
        return _pool_create(eng, st, pos, kw)
    if f.a in ("add_moma", "add_room"):
        return _setup_call(eng, st, f.a, pos, kw)
    if f.a in ("_gene_deletion", "_reaction_deletion"):
        return _deletion_call(eng, st, f.a, pos, kw)
    return None


def getattr_hook(eng, st, v, name):
    if isinstance(v, VObj) and v.cls == "ProcessPool":
        return [("ok", st, VFunc("bound", v, name))]
    if name == "id" and (isinstance(v, VStr) or (isinstance(v, VConc) and isinstance(v.py, str))):
        return [eng.raise_(st, "AttributeError")]              # a str has no attribute `id`
    return None


def call_method_hook(eng, st, recv, name, pos, kw):
    if not (isinstance(recv, VObj) and recv.cls == "ProcessPool"):
        return None
    tr = st.ghost.get("pool_trace", ())
    if name == "__enter__":
        return [("ok", st.setghost("pool_trace", tr + (("enter", recv.oid, None),)), recv)]
    if name == "__exit__":
        return [("ok", st.setghost("pool_trace", tr + (("exit", recv.oid, None),)), VBool(False))]
    if name == "imap_unordered":
        return _imap(eng, st, recv, pos, kw)
    raise Unsupported(f"ProcessPool.{name}")


# ---------------------------------------------------------------- the consumer: induction over the arrival index
def _run_of(st):
    return st.ghost.get("md_run")


def _drain_inv(eng, lz, st, i, entry):
    """after i results have been handed over: the k-th of them (k < i) is (c, rec_g[c], rec_s[c]) for c = the perm[k]-th combination
    of the enumeration; the deletion function has been called exactly once for the combinations that arrived and never otherwise;
    the model's context stack is as it was when the consumer started (serial branch: every call closes the context it opens)"""
    _, order, pos, dom = lz.seq.src[:4]
    n = lz.seq.n
    permf = (lambda t: lz.perm[t]) if lz.perm is not None else (lambda t: t)
    invf = (lambda t: lz.inv[t]) if lz.inv is not None else (lambda t: t)
    rn, rg, rs = _rec(st)
    ac, ag, as_ = _arr(st)
    k, c, j = qv("dk"), qv("dc", Ref), qv("dj")
    cs = [FA([k], z3.Implies(z3.And(0 <= k, k < i), z3.And(ac[k] == order[permf(k)], ag[k] == rg[ac[k]], as_[k] == rs[ac[k]])), patterns=[ac[k]]),
          FA([c], rn[c] == z3.If(z3.And(dom[c], invf(pos[c]) < i), 1, 0), patterns=[rn[c]])]
    model = lz.model
    n0, e0 = C3._ctxs(entry, model)
    n1, e1 = C3._ctxs(st, model)
    if not (n0.eq(n1) and e0.eq(e1)):
        cs.append(z3.And(n1 == n0, FA([j], z3.Implies(z3.And(0 <= j, j < n0), e1[j] == e0[j]), patterns=[e1[j]])))
    return z3.And(*cs)


def _drain_mod(eng, lz, st):
    locs = [("ghost", "md_rec", lambda s: (fresh("rec_n", RefInt), fresh("rec_g", RefNP), fresh("rec_s", RefId))),
            ("ghost", "md_arr", lambda s: (fresh("arr_c", IntRef), fresh("arr_g", IntNP), fresh("arr_s", IntId)))]
    if lz.mode == "serial":
        con = REG.get("_gene_deletion")           # the larger of the two modifies clauses
        locs += con.modifies(Env({"model": lz.model}, st, eng=eng))
    return locs


def iter_hook(eng, st, v):
    if not (isinstance(v, VFunc) and v.kind == "lazyresults"):
        return None
    lz = v.a
    if st.ghost.get("md_run") is not None:
        raise Unsupported("a second lazy result sequence is consumed")
    if not (isinstance(lz.seq.src, tuple) and lz.seq.src[0] == "order"):
        raise Unsupported("lazy results over something that is not the enumeration of a set")
    # whose model: the first argument of the partial (serial) / the model of the pool's initargs (parallel)
    if lz.mode == "serial":
        if not (isinstance(lz.f, VFunc) and lz.f.kind == "partial" and len(lz.f.b) == 1 and not lz.f.c and isinstance(lz.f.b[0], VObj)):
            raise Unsupported("map over something else than partial(f, model)")
        lz.model = lz.f.b[0]
    else:
        ia = lz.pool["initargs"]
        if not (isinstance(ia, VTuple) and len(ia.items) == 1 and isinstance(ia.items[0], VObj)):
            raise Unsupported("pool with unknown initargs")
        lz.model = ia.items[0]
    n = lz.seq.n
    st = st.setghost("md_run", lz)
    res = []
    eng.oblige_split(st, _drain_inv(eng, lz, st, z3.IntVal(0), st), "drain/inv-init", kind="loop")
    locs = _drain_mod(eng, lz, st)
    sh = havoc_locations(eng, st, locs)
    i = fresh("arrival", z3.IntSort())
    sh = sh.assume(0 <= i, i < n, n >= 0)
    sh = sh.assume(_drain_inv(eng, lz, sh, i, st))
    can_iterate = True
    if not eng.feasible(sh):
        if eng.feasible(st.assume(0 <= i, i < n, n >= 0)):
            raise Unsupported("drain: no iteration is possible under the invariant (vacuous invariant?)")
        can_iterate = False
    if can_iterate:
        elems = _task(eng, sh, lz, i)
        if not any(ke == "ok" for ke, _, _ in elems):
            raise Unsupported("drain: the call producing the elements has no normal outcome")
        for ke, s_e, v_e in elems:
            if ke != "ok":
                res.append((ke, s_e, v_e))
                continue
            if not (isinstance(v_e, VTuple) and len(v_e.items) == 3 and isinstance(v_e.items[0], VRef) and isinstance(v_e.items[1], N.VNp)
                    and isinstance(v_e.items[2], VStr)):
                raise Unsupported("drain: a task result that is not (combination, growth, status)")
            ac, ag, as_ = _arr(s_e)
            s2 = s_e.setghost("md_arr", (z3.Store(ac, i, v_e.items[0].t), z3.Store(ag, i, v_e.items[1].t), z3.Store(as_, i, v_e.items[2].t)))
            eng.oblige_split(s2, _drain_inv(eng, lz, s2, i + 1, st), "drain/inv-preserve", kind="loop")
    se = havoc_locations(eng, st, locs)
    se = se.assume(n >= 0, _drain_inv(eng, lz, se, n, st))
    if eng.feasible(se):
        ac, ag, as_ = _arr(se)
        out = VSeq(n, lambda s, t: VTuple((VRef(ac[t], "Comb"), N.VNp(ag[t]), VStr(as_[t]))), tag="drained")
        res.append(("ok", se.setghost("md_drained", se), out))
    return res


HOOKS = chain_hooks({"global": global_hook, "call_abstract": call_abstract, "call_method": call_method_hook, "getattr": getattr_hook,
                     "iter": iter_hook, "contains": contains_hook, "len": len_hook}, C3.ALL_HOOKS, N.HOOKS)


# ---------------------------------------------------------------- specification
def _procs(E):
    p = E["processes"]
    if isinstance(p, VNone):
        p = E.s0.objs[E["configuration"].oid]["attr:processes"]
    return unwrap(p, "int")


def _ctx_closed(E):
    n0, e0 = C3._ctxs(E.s0, E["model"])
    n1, e1 = C3._ctxs(E.s1, E["model"])
    j = qv("cj")
    return z3.And(n1 == n0, FA([j], z3.Implies(z3.And(0 <= j, j < n0), e1[j] == e0[j])))


def _same_value(a, b):
    """the very same value (python identity, or the same z3 term)"""
    if a is b:
        return True
    if type(a) is not type(b):
        return False
    if isinstance(a, (VInt, VBool, VStr, VRef, N.VNp)):
        return a.t.eq(b.t)
    if isinstance(a, VObj):
        return a.oid == b.oid
    if isinstance(a, VConc):
        return a.py == b.py
    if isinstance(a, VNone):
        return True
    return False


def _kwargs_of(E):
    return {k: v for k, v in E["kwargs"].py.items() if k != "__kwargs__"}


def _setup_ok(E):
    """the set-up call the method asks for, with exactly the documented arguments, inside the function's own context"""
    tr = E.s1.ghost.get("md_setup", ())
    method = E["method"].py
    want = "add_moma" if "moma" in method else ("add_room" if "room" in method else None)
    if want is None:
        return z3.BoolVal(len(tr) == 0)
    if len(tr) != 1:
        return z3.BoolVal(False)
    name, pos, kw, st_call = tr[0]
    exp = {"solution": E["solution"], "linear": VBool("linear" in method)}
    if want == "add_room":
        exp.update(_kwargs_of(E))
    ok = (name == want and len(pos) == 1 and pos[0] is E["model"] and set(kw) == set(exp)
          and all(_same_value(kw[k], exp[k]) or (k == "linear" and isinstance(kw[k], VBool) and z3.simplify(kw[k].t).eq(z3.simplify(exp[k].t)))
                  for k in exp))
    n0, _ = C3._ctxs(E.s0, E["model"])
    nc, _ = C3._ctxs(st_call, E["model"])
    return z3.And(z3.BoolVal(bool(ok)), nc == n0 + 1)


def _C_is_the_comprehension(E, lz):
    """C = { frozenset_of(t) : t a tuple of product(*element_lists) } (both inclusions), and in terms of the REQUESTED ids: for every
    choice (a_0, ..) of one position per element list there is a combination in C whose members are exactly the ids at these
    positions (so it has a row, by `_rows_clauses`); two tuples of the product share a row exactly when they have the same SET of
    ids - one row per UNORDERED combination"""
    pr = E.s1.ghost.get("md_product")
    if pr is None:
        return z3.BoolVal(False)
    P, tup, lists, A, IDX = pr
    el = E["element_lists"]
    if not (isinstance(el, VTuple) and len(lists) == len(el.items) and all(a is b for a, b in zip(lists, el.items))):
        return z3.BoolVal(False)
    r = len(lists)
    ne = [L(E.s0, l) for l in lists]
    _, order, pos, dom = lz.seq.src[:4]
    invf = (lambda t: lz.inv[t]) if lz.inv is not None else (lambda t: t)
    i, c, i2, i3, i4, y = qv("ci"), qv("cc", Ref), qv("ci2"), qv("ci3"), qv("ci4"), qv("cy", Id)
    a, b = [qv(f"ca{k}") for k in range(r)], [qv(f"cb{k}") for k in range(r)]
    in_a = z3.And(*[z3.And(0 <= a[k], a[k] < ne[k][0]) for k in range(r)])
    in_b = z3.And(*[z3.And(0 <= b[k], b[k] < ne[k][0]) for k in range(r)])
    row = lambda t: invf(pos[FS(tup[t])])  # noqa
    return z3.And(FA([i], z3.Implies(z3.And(0 <= i, i < P), dom[FS(tup[i])]), patterns=[tup[i]]),
                  FA([c], z3.Implies(dom[c], z3.Exists([i2], z3.And(0 <= i2, i2 < P, FS(tup[i2]) == c))), patterns=[dom[c]]),
                  FA(a, z3.Implies(in_a, z3.And(0 <= IDX(*a), IDX(*a) < P, dom[FS(tup[IDX(*a)])])), patterns=[IDX(*a)]),
                  FA(b + [y], z3.Implies(in_b, MEM(FS(tup[IDX(*b)]), y) == z3.Or(*[y == ne[k][1][b[k]] for k in range(r)])),
                     patterns=[MEM(FS(tup[IDX(*b)]), y)]),
                  FA([i3, i4], z3.Implies(z3.And(0 <= i3, i3 < P, 0 <= i4, i4 < P), (row(i3) == row(i4)) == _sameset(tup, r, i3, i4)),
                     patterns=[z3.MultiPattern(tup[i3], tup[i4])]))


def _frame_rows(E):
    """(T, rec of the row list, state it was built in) of the frame that is returned, or None"""
    res = E.res
    if not isinstance(res, N.VNp) or res.t.num_args() != 2:
        return None
    T = res.t.arg(0)
    nm = T.decl().name()
    if nm not in N.NP_LISTS:
        return None
    tl, st_t = N.NP_LISTS[nm]
    rec = st_t.objs[tl.oid]
    if rec.get("kinds") != ["ref:CombSet", "np", "id"]:
        return None
    return T, rec


def _rows_clauses(dom, order, pos, permf, invf, n, ln, cols, rec):
    """the statement about the rows of the frame, over explicit terms (used by the post-condition and by the glue lemmas)"""
    col_c, col_g, col_s = cols
    rn, rg, rs = rec
    c, k, c2 = qv("rc", Ref), qv("rk"), qv("rc2", Ref)
    row = invf(pos[c])
    comb = order[permf(k)]
    return [
        ln == n,                                                                # exactly one row per combination ...
        FA([c], z3.Implies(dom[c], z3.And(0 <= row, row < ln, col_c[row] == SETOF(c), col_g[row] == rg[c], col_s[row] == rs[c])),
           patterns=[dom[c]]),                                                  # every combination has its row, with ITS result
        FA([k], z3.Implies(z3.And(0 <= k, k < ln), z3.And(dom[comb], col_c[k] == SETOF(comb), invf(pos[comb]) == k)),
           patterns=[col_c[k]]),                                                # every row belongs to a combination; nothing twice
        FA([c2], rn[c2] == z3.If(dom[c2], 1, 0), patterns=[rn[c2]])]            # one call of the deletion function per combination


def _rows_ok(E, lz):
    fr = _frame_rows(E)
    if fr is None:
        return z3.BoolVal(False)
    T, rec = fr
    _, order, pos, dom = lz.seq.src[:4]
    permf = (lambda t: lz.perm[t]) if lz.perm is not None else (lambda t: t)
    invf = (lambda t: lz.inv[t]) if lz.inv is not None else (lambda t: t)
    want = N.term("pandas.DataFrame(columns)", T, N.term("list", N.of_id(id_lit("ids")), N.of_id(id_lit("growth")), N.of_id(id_lit("status"))))
    return z3.And(E.res.t == want,                                              # the frame: DataFrame(rows, columns=[ids, growth, status])
                  *_rows_clauses(dom, order, pos, permf, invf, lz.seq.n, rec["len"], rec["cols"], _rec(E.s1)))


def _trace_ok(E, lz):
    tr = E.s1.ghost.get("pool_trace", ())
    n = lz.seq.n
    p = _procs(E)
    eff = z3.If(n < p, n, p)
    entity = E["entity"].py
    items_ok = isinstance(lz.items, VObj) and lz.items.kind == "set"
    if len(tr) == 0:
        # serial: the elements are produced by partial(<deletion function of the entity>, model) applied to the combinations
        f = lz.f
        ok = (lz.mode == "serial" and items_ok and isinstance(f, VFunc) and f.kind == "partial"
              and _is_fn(f.a, "abstract", DELETION_OF[entity]) and len(f.b) == 1 and f.b[0] is E["model"] and not f.c)
        return z3.And(z3.Not(eff > 1), z3.BoolVal(bool(ok)))
    if len(tr) != 4 or lz.mode != "pool":
        return z3.BoolVal(False)
    c, en, im, ex = tr
    if (c[0], en[0], im[0], ex[0]) != ("create", "enter", "imap_unordered", "exit") or len({c[1], en[1], im[1], ex[1]}) != 1:
        return z3.BoolVal(False)
    info, call = c[2], im[2]
    args = info["initargs"]
    cs = [eff > 1, z3.BoolVal(bool(items_ok))]
    cs.append(z3.BoolVal(_is_fn(info["initializer"], "repo", "_init_worker") and not info["extra_pos"] and not info["extra_kw"]))
    cs.append(z3.BoolVal(isinstance(args, VTuple) and len(args.items) == 1 and args.items[0] is E["model"]))
    cs.append(unwrap(info["processes"], "int") == eff if isinstance(info["processes"], (VInt, VBool)) else z3.BoolVal(False))
    # created inside the function's context, after the set-up call (the workers copy the prepared model)
    ps = info["state"]
    n0, _ = C3._ctxs(E.s0, E["model"])
    npc, _ = C3._ctxs(ps, E["model"])
    cs.append(z3.And(npc == n0 + 1, z3.BoolVal(len(ps.ghost.get("md_setup", ())) == len(E.s1.ghost.get("md_setup", ())))))
    cs.append(z3.BoolVal(_is_fn(call["f"], "repo", WORKER_OF[entity]) and not call["extra"] and call["items"] is lz.items))
    ck = unwrap(call["chunksize"], "int")
    cs.append(z3.And(ck >= 1, ck * eff <= n, n < (ck + 1) * eff))
    return z3.And(*cs)


def _post(E):
    lz = _run_of(E.s1)
    if lz is None:
        return z3.BoolVal(False)
    return z3.And(_rows_ok(E, lz), _C_is_the_comprehension(E, lz), _trace_ok(E, lz), _setup_ok(E), _ctx_closed(E))


RAISES = ("ValueError", "OptimizationError", "KeyError")


def _raise_post(E):
    """a set-up call or a task raised: every pool that was entered has been left, the function's context is closed again"""
    tr = E.s1.ghost.get("pool_trace", ())
    entered = [t[1] for t in tr if t[0] == "enter"]
    left = [t[1] for t in tr if t[0] == "exit"]
    return z3.And(z3.BoolVal(entered == left and E.exc in RAISES), _ctx_closed(E))


def _not_qp(E):
    """`solver not in sutil.qp_solvers` for solver = sutil.interface_to_str(model.problem.__name__) (opaque algebra)"""
    sutil = z3.Const("np:module:cobra.util.solver", NP)
    prob = E.s0.objs[E["model"].oid]["attr:problem"].t
    solver = N.term("call", N.term("attr.interface_to_str", sutil), N.term("attr.__name__", prob))
    return z3.Not(N.truthy(N.term("contains", N.term("attr.qp_solvers", sutil), solver)))


def _untouched(E):
    return z3.BoolVal(E.s1.ghost.get("md_run") is None and not E.s1.ghost.get("md_setup", ()) and not E.s1.ghost.get("pool_trace", ())
                      and E.s1.objs[E["model"].oid] is E.s0.objs[E["model"].oid])


def _mod(E):
    con = REG.get("_gene_deletion")
    return con.modifies(Env({"model": E["model"]}, E.s0, eng=E.eng)) + [
        ("ghost", "md_rec", lambda st: None), ("ghost", "md_arr", lambda st: None), ("ghost", "md_run", lambda st: None),
        ("ghost", "md_setup", lambda st: ()), ("ghost", "md_product", lambda st: None),
        ("ghost", "md_drained", lambda st: None), ("ghost", "pool_trace", lambda st: ())]


def _kwargs_t(names):
    def mk(st, name):
        d = {k: N.VNp(z3.Const(f"kwarg_{k}", NP)) for k in names}
        d["__kwargs__"] = True
        return st, VConc(d)
    return TCustom(mk)


def _cases():
    out = []
    for entity in ("reaction", "gene"):
        for arity in (1, 2):
            for method in METHODS:
                for proc in ("int", "none"):
                    with_kw = method in ("room", "linear room")
                    over = {"entity": TConc(entity), "element_lists": TTuple([TList("id")] * arity), "method": TConc(method),
                            "processes": TInt() if proc == "int" else TNone(), "kwargs": _kwargs_t(("delta", "epsilon") if with_kw else ())}
                    tag = f"{entity}:{'single' if arity == 1 else 'double'}:{method.replace(' ', '-')}" + (":processes=None" if proc == "none" else "")
                    if method == "moma":
                        c = Case(tag + ":qp-solver", requires=lambda E: z3.Not(_not_qp(E)), ensures=_post)
                        bad = Case(tag + ":no-qp-solver", requires=_not_qp, ensures=_untouched, raises="RuntimeError")
                        bad.params_override = over
                        out.append(bad)
                    else:
                        c = Case(tag, ensures=_post)
                    c.params_override = over
                    c.may_raise = "Exception"
                    c.ensures_on_raise = _raise_post
                    c.modifies_on_raise = _mod
                    out.append(c)
    return out


def _pre(E):
    return C3._ctx_nonnull(Env({"obj": E["model"]}, E.s0, eng=E.eng))


REG.add(Contract(MD, "_multi_deletion", "C06",
                 [("model", _model_t()), ("entity", TConc("reaction")), ("element_lists", TTuple([TList("id")])), ("method", TConc("fba")),
                  ("solution", N.TNp()), ("processes", TInt()), ("**kwargs", _kwargs_t(())),
                  ("configuration", TObj("Configuration", {"processes": TInt()}))], _cases(), pre=_pre, modifies=_mod,
                 key="_multi_deletion", axioms=lambda E: C3.run_axioms(), props=["C06", "C14"],
                 note="element_lists a sequence of one or two lists of ids (created as a tuple); `configuration` is a ghost parameter: the "
                      "module global of cobra.flux_analysis.deletion as seen at entry; the combinatorial library calls, map, the pool "
                      "and the per-combination call by the assumed contracts itertools.product+frozenset, builtins.map, "
                      "Pool.imap_unordered, deletion-call; add_moma / add_room recorded"))


# ================================================================ _entities_ids / _element_lists
def _ei_post_objects(E):
    n, e = L(E.s0, E["entities"])
    res = E.res
    if not (isinstance(res, VObj) and res.kind == "list" and E.s1.objs[res.oid].get("ekind") == "id"):
        return z3.BoolVal(False)
    n1, e1 = L(E.s1, res)
    ids = E.eng.heap_arr(E.s0, "_id")
    j = qv("ej")
    return z3.And(n1 == n, FA([j], z3.Implies(z3.And(0 <= j, j < n), e1[j] == ids[e[j]]), patterns=[e1[j]]))


def _ei_post_ids(E):
    n, e = L(E.s0, E["entities"])
    res = E.res
    if not (isinstance(res, VObj) and res.kind == "list"):
        return z3.BoolVal(False)
    n1, e1 = L(E.s1, res)
    if E.s1.objs[res.oid].get("ekind") != "id":
        return z3.And(n1 == 0, n == 0)                          # an empty list (of no particular element kind)
    j = qv("ej")
    return z3.And(n1 == n, FA([j], z3.Implies(z3.And(0 <= j, j < n), e1[j] == e[j]), patterns=[e1[j]]))


_ei_obj = Case("objects", ensures=_ei_post_objects)
_ei_obj.params_override = {"entities": TList("ref:Reaction")}
_ei_dl = Case("objects:DictList", ensures=_ei_post_objects)
_ei_dl.params_override = {"entities": TDictList("Gene")}
_ei_ids = Case("ids", ensures=_ei_post_ids)
_ei_ids.params_override = {"entities": TList("id")}
REG.add(Contract(MD, "_entities_ids", "C06", [("entities", TList("id"))], [_ei_obj, _ei_dl, _ei_ids], key="_entities_ids",
                 pre=lambda E: L(E.s0, E["entities"])[0] >= 0 if isinstance(E["entities"], VObj) and E["entities"].kind == "list" else z3.BoolVal(False),
                 props=["C06", "C14"],
                 note="a homogeneous list: cobra objects (their ids, position by position) or ids (a copy)"))


def _ids_of(E, src, res):
    """`res` (in the exit state) is a list holding the ids of the entries of `src` (objects) / its entries (ids)"""
    if not (isinstance(res, VObj) and res.kind == "list" and isinstance(src, VObj)):
        return z3.BoolVal(False)
    n, e = L(E.s0, src)
    n1, e1 = L(E.s1, res)
    if E.s1.objs[res.oid].get("ekind") != "id":
        return z3.And(n1 == 0, n == 0)
    j = qv("ej")
    if E.s0.objs[src.oid]["ekind"] == "id":
        return z3.And(n1 == n, FA([j], z3.Implies(z3.And(0 <= j, j < n), e1[j] == e[j]), patterns=[e1[j]]))
    ids = E.eng.heap_arr(E.s0, "_id")
    return z3.And(n1 == n, FA([j], z3.Implies(z3.And(0 <= j, j < n), e1[j] == ids[e[j]]), patterns=[e1[j]]))


def _ei_result(eng, st, E):
    return alloc_list(st, "id", base="entity_ids")


_ei_con = REG.get("_entities_ids")
_ei_con.result = _ei_result
_ei_obj.applies = lambda a, st: isinstance(a.get("entities"), VObj) and st.objs[a["entities"].oid].get("ekind", "").startswith("ref:") \
    and a["entities"].cls != "DictList"
_ei_dl.applies = lambda a, st: isinstance(a.get("entities"), VObj) and st.objs[a["entities"].oid].get("ekind", "").startswith("ref:") \
    and a["entities"].cls == "DictList"
_ei_ids.applies = lambda a, st: isinstance(a.get("entities"), VObj) and st.objs[a["entities"].oid].get("ekind") == "id"


def _items_of(st, v):
    """the entries of a python list of containers (concrete length)"""
    if isinstance(v, VTuple):
        return tuple(v.items)
    if isinstance(v, VObj) and v.kind in ("pylist", "list") and st.objs[v.oid].get("items") is not None:
        return tuple(st.objs[v.oid]["items"])
    return None


def _el_post(E):
    ids = E["ids"].items
    out = _items_of(E.s1, E.res)
    if out is None or len(out) != len(ids):
        return z3.BoolVal(False)
    first = E["entities"] if isinstance(ids[0], VNone) else ids[0]
    cs = [_ids_of(E, first, out[0])]
    for k in range(1, len(ids)):
        if isinstance(ids[k], VNone):
            cs.append(z3.BoolVal(isinstance(out[k], VObj) and isinstance(out[k - 1], VObj) and out[k].oid == out[k - 1].oid))   # the SAME list
        else:
            cs.append(_ids_of(E, ids[k], out[k]))
    return z3.And(*cs)


def _el_cases():
    out = []
    kinds = {"None": TNone(), "ids": TList("id"), "objects": TList("ref:Reaction")}
    for ent in ("DictList", "list"):
        for shape in [("None",), ("ids",), ("objects",), ("None", "None"), ("ids", "None"), ("None", "ids"), ("ids", "ids"), ("objects", "None"),
                      ("objects", "ids"), ("None", "objects")]:
            c = Case(f"entities={ent}:" + ",".join(shape), ensures=_el_post)
            c.params_override = {"entities": TDictList("Reaction") if ent == "DictList" else TList("ref:Reaction"),
                                 "ids": TTuple([kinds[k] for k in shape])}
            out.append(c)
    return out


REG.add(Contract(MD, "_element_lists", "C06", [("entities", TDictList("Reaction")), ("*ids", TTuple([TNone()]))], _el_cases(),
                 key="_element_lists", props=["C06", "C14"],
                 pre=lambda E: z3.And(L(E.s0, E["entities"])[0] >= 0, *[L(E.s0, x)[0] >= 0 for x in E["ids"].items if isinstance(x, VObj)]),
                 note="one or two id arguments, each None, a list of ids or a list of cobra objects; entities a list of cobra objects"))


# ================================================================ the four public wrappers
# single_reaction_deletion / single_gene_deletion / double_reaction_deletion / double_gene_deletion: `_element_lists` and
# `_multi_deletion` are RECORDED calls here (their own contracts are proved above); `_element_lists(entities, a[, b])` returns a list
# of as many fresh id lists as it got id arguments (its proved contract: one entry per argument).
WRAPPERS = {"single_reaction_deletion": ("reaction", "reactions", ("reaction_list",)),
            "single_gene_deletion": ("gene", "genes", ("gene_list",)),
            "double_reaction_deletion": ("reaction", "reactions", ("reaction_list1", "reaction_list2")),
            "double_gene_deletion": ("gene", "genes", ("gene_list1", "gene_list2"))}


def _w_global(eng, name):
    if name in ("_multi_deletion", "_element_lists"):
        return VFunc("abstract", name)
    return None


def _w_call_abstract(eng, st, f, pos, kw):
    tr = st.ghost.get("w_trace", ())
    if f.a == "_element_lists":
        outs = []
        for k in range(len(pos) - 1):
            st, l = alloc_list(st, "id", base=f"element_list_{k}")
            outs.append(l)
        _, st, res = B.list_from_values(eng, st, outs)          # a list of lists (concrete length)
        return [("ok", st.setghost("w_trace", tr + (("_element_lists", tuple(pos), dict(kw), res),)), res)]
    if f.a == "_multi_deletion":
        res = N.VNp(fresh("np:deletion_frame", NP))
        return [("ok", st.setghost("w_trace", tr + (("_multi_deletion", tuple(pos), dict(kw), res, st),)), res)]
    return None


HOOKS_W = chain_hooks({"global": _w_global, "call_abstract": _w_call_abstract}, N.HOOKS)


def _w_post(fname):
    entity, attr, lists = WRAPPERS[fname]

    def post(E):
        tr = E.s1.ghost.get("w_trace", ())
        if len(tr) != 2 or tr[0][0] != "_element_lists" or tr[1][0] != "_multi_deletion":
            return z3.BoolVal(False)
        _, epos, ekw, eres = tr[0]
        _, mpos, mkw, mres, mst = tr[1]
        ok = not ekw and len(epos) == 1 + len(lists) and epos[0] is E.s0.objs[E["model"].oid]["attr:" + attr] \
            and all(epos[1 + k] is E[nm] for k, nm in enumerate(lists))
        ok = ok and len(mpos) == 2 and mpos[0] is E["model"] and isinstance(mpos[1], VConc) and mpos[1].py == entity
        exp = {"method": E["method"], "solution": E["solution"], "processes": E["processes"]}
        exp.update(_kwargs_of(E))
        ok = ok and set(mkw) == set(exp) | {"element_lists"} and all(mkw[k] is exp[k] for k in exp)
        el = mkw.get("element_lists")
        made = _items_of(mst, eres)
        if len(lists) == 1:
            ok = ok and el is eres                                         # the result of _element_lists itself
        else:
            got = _items_of(mst, el) if el is not None else None           # the list display [list1, list2] of its two components
            ok = ok and got is not None and made is not None and len(got) == 2 and len(made) == 2 and got[0] is made[0] and got[1] is made[1]
        return z3.BoolVal(bool(ok and E.res is mres))
    return post


def _w_cases(fname):
    entity, attr, lists = WRAPPERS[fname]
    out = []
    import itertools
    for shape in itertools.product(("None", "given"), repeat=len(lists)):
        for proc in ("int", "none"):
            c = Case(",".join(f"{nm}={s}" for nm, s in zip(lists, shape)) + (":processes=None" if proc == "none" else ""), ensures=_w_post(fname))
            c.params_override = dict({nm: (TNone() if s == "None" else N.TNp()) for nm, s in zip(lists, shape)},
                                     processes=TInt() if proc == "int" else TNone())
            out.append(c)
    return out


for _fname, (_entity, _attr, _lists) in WRAPPERS.items():
    REG.add(Contract(MD, _fname, "C06",
                     [("model", TObj("Model", {"reactions": TDictList("Reaction"), "genes": TDictList("Gene")}))] + [(nm, TNone()) for nm in _lists]
                     + [("method", TStr()), ("solution", N.TNp()), ("processes", TInt()), ("**kwargs", _kwargs_t(("delta", "epsilon")))],
                     _w_cases(_fname), key=_fname, props=["C06", "C14"],
                     modifies=lambda E: [("ghost", "w_trace", lambda st: ())],
                     note="_element_lists / _multi_deletion as recorded calls (proved separately); any method string, any solution, "
                          "processes an int or None, two keyword arguments passed through"))


# ================================================================ glue lemmas (C14)
def _check_hyps(name, hyps):
    """guard against vacuous lemmas: no hypothesis is literally False and together they are not refutable"""
    if any(z3.is_false(z3.simplify(h)) for h in hyps):
        raise AssertionError(f"lemma {name}: a hypothesis is literally False")
    s = z3.Solver()
    s.set("timeout", 1500)
    s.add(*hyps)
    if s.check() == z3.unsat:
        raise AssertionError(f"lemma {name}: the hypotheses are contradictory (vacuous lemma)")


def lemmas():
    """Built from the very clauses of the proved post-condition of `_multi_deletion` (`_rows_clauses`) on synthetic exit states of two
    runs:
      serial-equals-parallel       a serial run (arrival order = enumeration order) and a run through the pool (any permutation, any
                                   process count / chunk size, any enumeration of the set) over the SAME set of combinations: for EVERY
                                   combination the row of that combination holds the same (ids, growth, status) in both frames;
      list-equals-single-item      a run over a set of combinations and a run over the one-element set {c} for any c of the set: the
                                   row of c holds the same values in both ("each item's result equals the result of asking for that
                                   item alone");
    both under the hypothesis `same combination -> same result of the deletion function` (what the function computes for a list of
    ids is the proved kernel of C06: exactly the listed knock-outs in force; that two such solves return the same numbers is the
    solver's determinism, C04)."""
    from pyvc.engine import Obl
    out = []

    def run(tag, dom, with_perm):
        order, pos = z3.Const(f"g_order_{tag}", IntRef), z3.Const(f"g_pos_{tag}", RefInt)
        n, ln = z3.Int(f"g_n_{tag}"), z3.Int(f"g_len_{tag}")
        perm, inv = z3.Const(f"g_perm_{tag}", IntInt), z3.Const(f"g_inv_{tag}", IntInt)
        permf = (lambda t: perm[t]) if with_perm else (lambda t: t)
        invf = (lambda t: inv[t]) if with_perm else (lambda t: t)
        cols = (z3.Const(f"g_col_c_{tag}", IntRef), z3.Const(f"g_col_g_{tag}", IntNP), z3.Const(f"g_col_s_{tag}", IntId))
        rec = (z3.Const(f"g_rec_n_{tag}", RefInt), z3.Const(f"g_rec_g_{tag}", RefNP), z3.Const(f"g_rec_s_{tag}", RefId))
        return _rows_clauses(dom, order, pos, permf, invf, n, ln, cols, rec), cols, rec, (lambda c: invf(pos[c]))

    def same_result(ra, rb, dom):
        c = qv("hc", Ref)
        return FA([c], z3.Implies(dom[c], z3.And(ra[1][c] == rb[1][c], ra[2][c] == rb[2][c])), patterns=[ra[1][c]])

    RefBool = z3.ArraySort(Ref, z3.BoolSort())
    dom = z3.Const("g_C", RefBool)
    c0 = z3.Const("g_c0", Ref)

    def goal(ca, rowa, cb, rowb):
        return z3.And(ca[0][rowa(c0)] == cb[0][rowb(c0)], ca[1][rowa(c0)] == cb[1][rowb(c0)], ca[2][rowa(c0)] == cb[2][rowb(c0)])
    h_ser, c_ser, r_ser, row_ser = run("serial", dom, False)
    h_par, c_par, r_par, row_par = run("parallel", dom, True)
    hyps = h_ser + h_par + [same_result(r_ser, r_par, dom), dom[c0]]
    _check_hyps("serial-equals-parallel", hyps)
    out.append(Obl("C14/lemma/multi_deletion/serial-equals-parallel-for-every-combination", hyps, goal(c_ser, row_ser, c_par, row_par), "lemma"))
    dom1 = z3.Store(z3.K(Ref, z3.BoolVal(False)), c0, z3.BoolVal(True))
    for with_perm in (False, True):
        h_lst, c_lst, r_lst, row_lst = run("list", dom, with_perm)
        h_one, c_one, r_one, row_one = run("single", dom1, with_perm)
        hyps = h_lst + h_one + [same_result(r_lst, r_one, dom1), dom[c0]]
        _check_hyps("list-equals-single-item", hyps)
        out.append(Obl("C14/lemma/multi_deletion/list-equals-single-item-request/" + ("parallel" if with_perm else "serial"), hyps,
                       goal(c_lst, row_lst, c_one, row_one), "lemma"))
    return out
