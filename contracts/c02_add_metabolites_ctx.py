"""C03 / C02 - Model.add_metabolites(metabolite_list) WITH a context open (`model._contexts` non-empty).

Documented: "Will add a list of metabolites to the model object and add new constraints accordingly.  The change is reverted upon
exit when using the model as a context."  C03: every context-aware operation registers an undo that reverses precisely what it did.
This module ADDS the in-context cases to what contracts/c02_add_metabolites.py proves without a context: it imports and reuses that
module's specification functions (`_pre`, `_post`, `_unchanged`, `_inv_pointers`, `_inv_constraints`, `_mod`, its hook table)
unchanged and registers a SECOND contract for the same function under the key `Model.add_metabolites[context]` (KEYS), hook table
`HOOKS`, glue lemmas `lemmas()`.

PROVED, for argument lists and models of any length, any depth of the context stack:
  (A) everything the no-context contract proves about the final state (the very same formulas): the joining metabolites (= those of
      the argument whose identifier is not yet in the model) are the new tail of model.metabolites (well formed), point at the model,
      list exactly those of their entry reactions that belong to the model; one add_cons_vars call with exactly the zero
      mass-balance constraints of the joining metabolites whose identifier names no constraint yet; frame; the two early exits
      (empty argument, empty identifier: ValueError) change nothing AND register nothing.
  (B) the undo registrations (symbolic ghost trace `amu`: entry j = (kind, metabolite, manager[, captured set]); witness maps
      updated at every registration).  With p = the number of UPD entries and m = the number of joining metabolites the trace is
        [0, p)       UPD   partial(x._reaction.update, outside)       one per joining metabolite x whose entry reaction set holds a
                           reaction that does not belong to the model (exactly where `x._reaction.difference_update(outside)` was
                           executed), x joining, THE entry for x (nothing twice), and the captured set is
                           EXACTLY {r in x._reaction at entry | r._model is not the model} - the set that was taken out - and is
                           not empty; no UPD entry for a joining metabolite that lost nothing;
        p            ISUB  partial(self.metabolites.__isub__, L)      registered on the model's own DictList object; L (read in
                           the EXIT state: the captured list object has not been touched after the registration) holds exactly the
                           joining metabolites in their order = the new tail of model.metabolites;
        p+1 .. p+m   SETN  partial(setattr, x, "_model", None)        entry p+1+k for the k-th joining metabolite;
      n = p + 1 + m: nothing else, nothing twice (the joining metabolites are pairwise different), and EVERY entry is made in the
      INNERMOST context (the manager get_context returned = the last element of model._contexts).
      The constraints added through Model.add_cons_vars are removed again by THAT callee's own registration (a recorded call here;
      add_cons_vars_to_problem is proved under C03 to register exactly partial(solver.remove, what) in the innermost context).
  (C) glue lemmas `undo-restores:{metabolites-content, back-references, model-pointers}` (closed formulas whose hypotheses are the
      very pre- and post-condition of this contract on a synthetic pair of states): replaying the registered undos on the exit state
      gives back the ENTRY views - membership in model.metabolites (as a set of objects), every `_reaction` set, and `_model` of every
      object.  The replay is taken in closed form (SETN writes `_model[x] := None`, ISUB clears `x in model.metabolites` for the
      members of L - DictList.__isub__ by its C15 contract -, UPD sets `r in x._reaction` for the r of the captured set; these writes
      commute).  NOT proved: the induction that connects HistoryManager.reset's recursive `run` (C03 kernel) with this closed form.
      `model-pointers` needs one MORE hypothesis, stated in the lemma: every joining metabolite had NO model at entry.  Without it
      the lemma is false and so is the code, see FINDING 1.

FINDINGS (reproduced natively, /venv/bin/python against /repo; m = a small model, `with m:` open):
  1. The inverse registered for `x._model = self` is `setattr(x, "_model", None)`, not `setattr(x, "_model", <old value>)`: a
     metabolite taken from ANOTHER model (o.metabolites.x, listed by o's reaction rx) that is added inside `with m:` has
     `_model is None` after the block although it is still a member of o.metabolites (before: `_model is o`).
  2. A change without a registered inverse when the call raises: m.add_metabolites([Metabolite("x"), Metabolite("x")]) inside
     `with m:` raises ValueError from DictList.__iadd__ AFTER both `_model` pointers were set and BEFORE anything but the UPD
     entries is registered; after the block both objects still point at m without being members (the no-context contract states
     this as `the pointers already set stay`; inside a context it contradicts `whether the block ends ... by an exception`).
     The raising path is therefore specified here as: only UPD entries exist (`ensures_on_raise`).

PRECONDITIONS (stated, not proved here): those of the no-context contract with `no context open` replaced by `at least one context
open, the stack holds managers (never None)`: model.metabolites well formed, the argument is a list of pairwise different objects,
none None, type discipline (a reaction listed by an argument metabolite is not itself an argument metabolite).
ASSUMED: everything the no-context contract assumes (add_cons_vars a recorded call, the optlang Constraint constructor
uninterpreted); `context(f)` = HistoryManager.__call__ by its proved contract (the operation is appended to that manager's
history), recorded in the ghost trace.
Engine: NO change of pyvc.

The trace clauses are stated under a FREE Boolean constant (`GATE -> clause`, see `_gated`): proved for both of its values, hence for
True; this keeps the trace quantifiers out of the way in the obligations that restate the no-context post-condition.  The
no-context loop invariants are reused without their conjunct `_is_filtered(E, fe, 0, m)` (not needed under the loops, see
`_without_filtered`); the post-condition itself is reused unchanged.

Mutation trials (tools/mutate_and_run.sh cobra/core/model.py ... contracts.c02_add_metabolites_ctx --hooks HOOKS
"Model.add_metabolites[context]"), each NOT verified (named obligations `unknown`), all in case `joining`:
  A1 the SETN registration skipped (`pass`)                                   loop#2/inv-preserve.2 .6 .7, exit=return#1/post.26
  A2 __isub__ registered with metabolite_list[1:] (off by one)                exit=return#1/post.16 .17 .18 .19
  A3 `if outside:` -> `if True:` (an update registered for nothing taken out) loop#0/inv-preserve.11 (captured set not empty)
  A4 __isub__ registered AFTER the setattr entries (two statements swapped)   exit=return#1/post.19 .23-.27
  A5 partial(x._reaction.update, x._reaction) (the remaining set captured
     instead of what was taken out)                                           loop#0/inv-preserve.11 .12
Lemma guards: `False` does not follow from the lemma hypotheses, the negated goals are not provable, `model-pointers` is not provable
without its extra hypothesis.
"""
import z3
import cobra  # noqa
from .common import *  # noqa
from . import c02_add_metabolites as AM
from . import c03_context as C3

MM = AM.MM
KEY = "Model.add_metabolites[context]"
KEYS = [KEY]
I_ = z3.IntSort()
B_ = z3.BoolSort()
Hh = AM.Hh


def A_(*sorts):
    s = sorts[-1]
    for d in reversed(sorts[:-1]):
        s = z3.ArraySort(d, s)
    return s


# ---------------------------------------------------------------- undo registrations: a symbolic ghost trace
K_UPD, K_ISUB, K_SETN = 1, 2, 3
CORE = (("n", I_), ("kind", A_(I_, I_)), ("arg", A_(I_, Ref)), ("ctx", A_(I_, Ref)), ("uset", A_(I_, Ref, B_)), ("uwit", A_(I_, Ref)))
WH = {"amu_whU": A_(Ref, I_), "amu_whN": A_(Ref, I_)}


def _g0(key):
    if key in WH:
        return z3.Const(key + "_0", WH[key])
    d = {nm: z3.Const(f"{key}0_{nm}", srt) for nm, srt in CORE}
    d["n"] = z3.IntVal(0)
    return d


_G0 = {k: _g0(k) for k in ["amu"] + list(WH)}


def gh(st, key):
    v = st.ghost.get(key)
    return v if v is not None else _G0[key]


def _havoc(key):
    def mk(st):
        if key in WH:
            return fresh(key, WH[key])
        return {nm: fresh(f"{key}_{nm}", srt) for nm, srt in CORE}
    return ("ghost", key, mk)


ALL_GHOST = [_havoc("amu"), _havoc("amu_whU"), _havoc("amu_whN"), ("ghost", "amu_isub", lambda st: None)]


def _mine(eng):
    return getattr(eng.cur_contract, "key", None) == KEY


def _classify(eng, st, f):
    """-> (kind, metabolite, payload) of a registered undo function, or Unsupported"""
    model = eng.entry_args.get("self")
    if isinstance(f, VFunc) and f.kind == "partial" and not f.c and isinstance(model, VObj):
        a, b = f.a, tuple(f.b)
        ml = st.objs[model.oid].get("attr:metabolites")
        if isinstance(a, VFunc) and a.kind == "builtin" and a.a == "setattr" and len(b) == 3 and isinstance(b[0], VRef) \
                and isinstance(b[1], VConc) and b[1].py == "_model" and isinstance(b[2], VNone):
            return K_SETN, b[0].t, None
        if isinstance(a, VFunc) and a.kind == "bound" and len(b) == 1:
            recv, name = a.a, a.b
            if isinstance(recv, VObj) and isinstance(ml, VObj) and recv.oid == ml.oid and name == "__isub__" \
                    and isinstance(b[0], VObj) and b[0].kind == "list":
                return K_ISUB, NULL, b[0]
            if isinstance(recv, VObj) and recv.kind == "set" and name == "update" and isinstance(b[0], VObj) and b[0].kind == "set":
                org, rec = st.objs[recv.oid].get("origin"), st.objs[b[0].oid]
                if org is not None and org[0] == "_reaction" and not rec.get("lazy") and "dom" in rec:
                    return K_UPD, org[1], rec["dom"]
    raise Unsupported(f"undo registration of an unrecognised function {f!r}"[:200])


def call_object_hook(eng, st, f, pos, kw):
    """context(undo): HistoryManager.__call__ by its contract (C03: the operation is appended to that manager's history); the event
    is recorded in the symbolic ghost trace"""
    if _mine(eng) and isinstance(f, VRef) and f.cls == "HistoryManager" and len(pos) == 1 and not kw:
        kind, x, payload = _classify(eng, st, pos[0])
        T = dict(gh(st, "amu"))
        n = T["n"]
        T.update(n=n + 1, kind=z3.Store(T["kind"], n, z3.IntVal(kind)), arg=z3.Store(T["arg"], n, x), ctx=z3.Store(T["ctx"], n, f.t))
        if kind == K_UPD:
            # a witness of `the captured set is not empty` (Skolem constant: if the set has an element, w is one)
            w, r = fresh("amu_w", Ref), qv("wr", Ref)
            st = st.assume(z3.Implies(z3.Exists([r], z3.Select(payload, r)), z3.Select(payload, w)))
            T.update(uset=z3.Store(T["uset"], n, payload), uwit=z3.Store(T["uwit"], n, w))
            st = st.setghost("amu_whU", z3.Store(gh(st, "amu_whU"), x, n))
        elif kind == K_SETN:
            st = st.setghost("amu_whN", z3.Store(gh(st, "amu_whN"), x, n))
        else:
            if st.ghost.get("amu_isub") is not None:
                raise Unsupported("a second __isub__ registration")
            st = st.setghost("amu_isub", {"at": n, "list": payload})
        return [("ok", st.setghost("amu", T), NONE)]
    return None


HOOKS = chain_hooks({"call_object": call_object_hook}, AM.HOOKS)


# ---------------------------------------------------------------- specification
def _top(E):
    nc, ec = C3._ctxs(E.s0, E["self"])
    return ec[nc - 1]


def _pre(E):
    nc = C3._ctxs(E.s0, E["self"])[0]
    base = AM._pre(E)
    kept = [c for c in base.children() if not c.eq(nc == 0)]
    assert z3.is_and(base) and len(kept) == base.num_args() - 1, "c02_add_metabolites._pre: the `no context` conjunct was not found"
    n, e = AM._arg(E)
    j = qv("aj")
    apos = FA([j], z3.Implies(z3.And(0 <= j, j < n), APOS[z3.Select(e, j)] == j), patterns=[z3.Select(e, j)])
    return z3.And(*(kept + [nc > 0, C3._ctx_nonnull(E, "self"), apos]))


def _outside(E, x, r):
    """r was taken out of x._reaction: listed at entry, not a reaction of the model"""
    return z3.And(Hh(E, E.s0, "_reaction")[x][r], Hh(E, E.s0, "_model")[r] != AM._me(E))


APOS = z3.Const("amc_argpos", A_(Ref, I_))      # ghost inverse of the argument list (exists iff the items are pairwise different)


GATE = z3.Bool("amc_trace_clauses")
from pyvc import solve as _solve  # noqa: E402
_solve.GATES.add("amc_trace_clauses")      # see pyvc/solve.py gate_filter
# Every clause about the ghost trace is stated as `GATE -> clause` with GATE a FREE Boolean constant that nothing constrains: the
# obligations are proved for both of its values, in particular for True (the lemmas below take the post-condition with GATE = True).
# Purpose: in the obligations that restate the no-context post-condition the solver may leave the trace quantifiers inactive
# (the no-context proof is close to its time limit and every further active quantifier over the lists makes it time out).


def _gated(cs):
    return [z3.Implies(GATE, c) for c in cs]


def _joins(E, x):
    """x is an element of the argument whose identifier is not in the model at entry (AM._joins without the existential)"""
    n, e = AM._arg(E)
    return z3.And(0 <= APOS[x], APOS[x] < n, z3.Select(e, APOS[x]) == x, AM._absent(E, x))


def _upd_entries(E, st, arr, lo, hi, p, ctx, upto=None):
    """entries [0, p) of the trace in state st are the UPD registrations of the joining metabolites arr[lo..hi); `upto`: the
    elements arr[hi..upto) have no entry yet (loop invariant)"""
    T, whU = gh(st, "amu"), gh(st, "amu_whU")
    kd, ar, cx, us, uw = (T[f] for f in ("kind", "arg", "ctx", "uset", "uwit"))
    j, k, r = qv("uj"), qv("uk"), qv("ur", Ref)
    ak = z3.Select(arr, k)
    has = z3.And(0 <= whU[ak], whU[ak] < p, ar[whU[ak]] == ak)
    cs = [
        p >= 0,
        FA([j], z3.Implies(z3.And(0 <= j, j < p), z3.And(kd[j] == K_UPD, cx[j] == ctx, _joins(E, ar[j]), whU[ar[j]] == j, us[j][uw[j]])),
           patterns=[kd[j]]),
        FA([j, r], z3.Implies(z3.And(0 <= j, j < p), us[j][r] == _outside(E, ar[j], r)), patterns=[us[j][r]]),
        FA([k, r], z3.Implies(z3.And(lo <= k, k < hi, _outside(E, ak, r)), has), patterns=[Hh(E, E.s0, "_reaction")[ak][r]])]
    if upto is not None:
        cs.append(FA([k], z3.Implies(z3.And(hi <= k, k < upto), z3.Not(has)), patterns=[ak]))
    return _gated(cs)


def _ctx_of(Lc):
    c = Lc.var("context")
    if not isinstance(c, VRef):
        raise Unsupported("the local `context` is not a manager")
    return c.t


def _without_filtered(f, idx, total):
    """the no-context invariant without its conjunct `_is_filtered(E, fe, 0, m)`: that closed form of the filtering comprehension is
    not needed under the loops (the list is not modified there; the comprehension's own facts stay in the path condition) and its
    pattern-less clause makes the proofs with the additional trace clauses time out"""
    cs = f.children()
    assert z3.is_and(f) and len(cs) == total and z3.is_and(cs[idx]) and cs[idx].num_args() == 3, "c02_add_metabolites: invariant shape"
    return cs[:idx] + cs[idx + 1:]


def _inv_pointers(E, Lc):
    m, fe = AM._flist(Lc)
    T = gh(Lc.st, "amu")
    return z3.And(*(_without_filtered(AM._inv_pointers(E, Lc), 2, 6)
                    + [_ctx_of(Lc) == _top(E), z3.BoolVal(Lc.st.ghost.get("amu_isub") is None)]
                    + _upd_entries(E, Lc.st, fe, 0, Lc.i, T["n"], _top(E), upto=m)))


def _inv_constraints(E, Lc):
    return z3.And(*_without_filtered(AM._inv_constraints(E, Lc), 1, 3))


def _prefix_kept(st, en):
    T, TA = gh(st, "amu"), gh(en, "amu")
    j, r = qv("pj"), qv("pr", Ref)
    fs = ("kind", "arg", "ctx", "uwit")
    return _gated([T["n"] >= TA["n"],
                   FA([j], z3.Implies(z3.And(0 <= j, j < TA["n"]), z3.And(*[T[f][j] == TA[f][j] for f in fs])), patterns=[T[f][j] for f in fs]),
                   FA([j, r], z3.Implies(z3.And(0 <= j, j < TA["n"]), T["uset"][j][r] == TA["uset"][j][r]), patterns=[T["uset"][j][r]])])


def _setn_entries(st, arr, lo, cnt, base, ctx):
    """entry base + k is the SETN registration of arr[lo + k], k < cnt (stated from the list and from the trace)"""
    T, whN = gh(st, "amu"), gh(st, "amu_whN")
    kd, ar, cx = T["kind"], T["arg"], T["ctx"]
    k, j = qv("nk"), qv("nj")
    ak = z3.Select(arr, k)
    w = whN[ak]
    return _gated([FA([k], z3.Implies(z3.And(lo <= k, k < lo + cnt), w == base + k - lo), patterns=[ak]),
                   FA([j], z3.Implies(z3.And(base <= j, j < base + cnt),
                                      z3.And(kd[j] == K_SETN, cx[j] == ctx, ar[j] == z3.Select(arr, j - base + lo), whN[ar[j]] == j)),
                      patterns=[kd[j]])])


def _inv_setn(E, Lc):
    m, fe = AM._flist(Lc)
    st, en = Lc.st, Lc.entry
    nA = gh(en, "amu")["n"]
    return z3.And(Lc.n == m, z3.Implies(GATE, gh(st, "amu")["n"] == nA + Lc.i), *(_prefix_kept(st, en) + _setn_entries(st, fe, 0, Lc.i, nA, _ctx_of(Lc))))


def _trace_post(E):
    st = E.s1
    isub = st.ghost.get("amu_isub")
    if not isinstance(isub, dict):
        return [z3.BoolVal(False)]
    p, lst = isub["at"], isub["list"]
    rec = st.objs[lst.oid]                                  # the captured list as it is in the EXIT state
    if rec.get("untyped") or not str(rec.get("ekind", "")).startswith("ref"):
        return [z3.BoolVal(False)]
    lm, le = rec["len"], rec["elem"]
    n0 = L(E.s0, AM._mets(E, E.s0))[0]
    n1, e1 = L(st, AM._mets(E, st))
    T = gh(st, "amu")
    k = qv("tk")
    return _gated([lm == n1 - n0, FA([k], z3.Implies(z3.And(0 <= k, k < lm), le[k] == e1[n0 + k]), patterns=[le[k]]),
                   FA([k], z3.Implies(z3.And(n0 <= k, k < n1), e1[k] == le[k - n0]), patterns=[e1[k]]),
                   T["n"] == p + 1 + lm, T["kind"][p] == K_ISUB, T["ctx"][p] == _top(E)]) \
        + _upd_entries(E, st, e1, n0, n1, p, _top(E)) + _setn_entries(st, e1, n0, lm, p + 1, _top(E))


def _post(E):
    return z3.And(AM._post(E), *_trace_post(E))


def _nothing_registered(E):
    return z3.And(gh(E.s1, "amu")["n"] == 0, z3.BoolVal(E.s1.ghost.get("amu_isub") is None))


def _unchanged(E):
    return z3.And(AM._unchanged(E), _nothing_registered(E))


def _on_raise(E):
    """DictList.__iadd__ raised (a repeated new identifier): only UPD entries exist (FINDING 2: nothing resets the `_model` pointers)"""
    T = gh(E.s1, "amu")
    j = qv("xj")
    return z3.And(z3.BoolVal(E.s1.ghost.get("amu_isub") is None),
                  z3.Implies(GATE, FA([j], z3.Implies(z3.And(0 <= j, j < T["n"]), z3.And(T["kind"][j] == K_UPD, T["ctx"][j] == _top(E))),
                                      patterns=[T["kind"][j]])))


def _mod(E):
    return AM._mod(E) + ALL_GHOST


_c_empty = Case("empty_argument", requires=lambda E: AM._arg(E)[0] == 0, ensures=_unchanged)
_c_bad = Case("empty_identifier", requires=lambda E: z3.And(AM._arg(E)[0] > 0, AM._some_bad(E)), raises="ValueError", ensures=_unchanged)
_c_ok = Case("joining", requires=lambda E: z3.And(AM._arg(E)[0] > 0, z3.Not(AM._some_bad(E))), ensures=_post)
_c_ok.may_raise = "ValueError"
_c_ok.ensures_on_raise = _on_raise
REG.add(Contract(MM, "Model.add_metabolites", "C03", [("self", AM._model_t()), ("metabolite_list", TList("ref:Metabolite"))],
                 [_c_empty, _c_bad, _c_ok], pre=_pre, modifies=_mod, key=KEY, props=["C03", "C02"],
                 loops={0: LoopSpec(_inv_pointers, lambda E, Lc: [("heap", "_model"), ("heap", "_reaction"), _havoc("amu"), _havoc("amu_whU")]),
                        1: LoopSpec(_inv_constraints, lambda E, Lc: [("list", Lc.var("to_add"), "np")]),
                        2: LoopSpec(_inv_setn, lambda E, Lc: [_havoc("amu"), _havoc("amu_whN")])},
                 note="a context is open (any depth; the stack holds managers); otherwise the preconditions of Model.add_metabolites: "
                      "model.metabolites well formed, the argument a list of pairwise different objects. add_cons_vars is a recorded "
                      "call (its own undo registration is that callee's business, C03 kernel)"))


# ---------------------------------------------------------------- glue lemmas: the registered undos reverse the change
def lemmas():
    """undo-restores: closed formulas over the very pre- and post-condition of the contract (case `joining`, GATE = True) on a
    synthetic pair of states"""
    from pyvc.engine import Engine, Obl, flatten_and
    from pyvc.state import State
    from pyvc.loops import havoc_locations
    from pyvc.state import alloc_list
    eng = Engine(REG, HOOKS)
    st, a = State(), {}
    for name, t in (("self", AM._model_t()), ("metabolite_list", TList("ref:Metabolite"))):
        st, a[name] = t.make(st, "lam_" + name)
    st = st.assume(*eng.kind_axioms(st))
    s1 = havoc_locations(eng, st, _mod(Env(a, st, eng=eng)))
    # exit-state ghosts the post-condition reads: the one add_cons_vars call, the captured list of the __isub__ registration
    s1, ta = alloc_list(s1, "np")
    s1, cap = alloc_list(s1, "ref:Metabolite")
    s1 = s1.setghost("am_trace", (("add_cons_vars", (ta,), s1),)).setghost("amu_isub", {"at": z3.Int("lam_isub_at"), "list": cap})
    E = Env(a, st, s1, eng=eng)
    ids = idarr(E, st)

    def member(s):
        n_, e_ = L(s, AM._mets(E, s))
        dom_, val_ = Dv(s, AM._mets(E, s))
        return lambda v: z3.And(z3.Select(dom_, ids[v]), z3.Select(e_, z3.Select(val_, ids[v])) == v)
    in0, in1 = member(st), member(s1)
    mo0, mo1 = Hh(E, st, "_model"), Hh(E, s1, "_model")
    R0, R1 = Hh(E, st, "_reaction"), Hh(E, s1, "_reaction")
    mo_f, in_f = z3.Const("lam_model_after_undo", mo0.sort()), z3.Const("lam_listed_after_undo", A_(Ref, B_))
    R_f = z3.Const("lam_reaction_after_undo", R0.sort())
    T = gh(s1, "amu")
    n, kd, ar, us = T["n"], T["kind"], T["arg"], T["uset"]
    lm, le = s1.objs[cap.oid]["len"], s1.objs[cap.oid]["elem"]
    j, k, x, r = qv("rj"), qv("rk"), qv("rx", Ref), qv("rr", Ref)
    in_n = z3.And(0 <= j, j < n)
    in_l = lambda v: z3.Exists([k], z3.And(0 <= k, k < lm, le[k] == v))  # noqa
    whN = gh(s1, "amu_whN")
    replay = [
        # SETN: `_model[x] := None`; a cell no entry writes is as at exit
        FA([j], z3.Implies(z3.And(in_n, kd[j] == K_SETN), mo_f[ar[j]] == NULL), patterns=[kd[j]]),
        FA([x], z3.Implies(mo_f[x] != mo1[x], z3.Exists([j], z3.And(in_n, kd[j] == K_SETN, ar[j] == x))), patterns=[mo_f[x]]),
        # ISUB (DictList.__isub__ by its C15 contract): the members of the captured list leave, the others stay
        FA([k], z3.Implies(z3.And(0 <= k, k < lm), z3.Not(in_f[le[k]])), patterns=[le[k]]),
        FA([x], z3.Implies(z3.Not(in_l(x)), in_f[x] == in1(x)), patterns=[in_f[x]]),
        # UPD: `r in x._reaction := True` for the r of the captured set
        FA([j, r], z3.Implies(z3.And(in_n, kd[j] == K_UPD, us[j][r]), R_f[ar[j]][r]), patterns=[us[j][r]]),
        FA([x, r], z3.Implies(R1[x][r], R_f[x][r]), patterns=[R_f[x][r]]),
        FA([x, r], z3.Implies(z3.And(R_f[x][r], z3.Not(R1[x][r])), z3.Exists([j], z3.And(in_n, kd[j] == K_UPD, ar[j] == x, us[j][r]))),
           patterns=[R_f[x][r]]),
        # term introduction (tautologies): the trace entries the witness maps point at
        FA([x], kd[whN[x]] == kd[whN[x]], patterns=[mo_f[x]]),
        FA([x, r], kd[gh(s1, "amu_whU")[x]] == kd[gh(s1, "amu_whU")[x]], patterns=[R_f[x][r]])]
    # a SUBSET of the post-condition's conjuncts is used (fewer hypotheses: a stronger lemma): the quantified conjuncts without a
    # trigger (closed forms of the filtering with an existential on the left) only slow the solver down
    post = [c for c in flatten_and(_post(E)) if not (z3.is_quantifier(c) and c.num_patterns() == 0)]
    n0_, e0_ = L(st, AM._mets(E, st))
    e1_ = L(s1, AM._mets(E, s1))[1]
    # the conjunct `the old members stay in place` once more, with the entry list as trigger
    post.append(FA([j], z3.Implies(z3.And(0 <= j, j < n0_), z3.Select(e1_, j) == z3.Select(e0_, j)), patterns=[z3.Select(e0_, j)]))
    # the SETN clause instantiated at entry p + 1 + k (an instance of the post-condition's clause over the trace positions)
    pp = s1.ghost["amu_isub"]["at"]
    post.append(FA([k], z3.Implies(z3.And(0 <= k, k < lm), z3.And(kd[pp + 1 + k] == K_SETN, ar[pp + 1 + k] == le[k])), patterns=[le[k]]))
    hyps = list(st.pc) + list(s1.pc) + flatten_and(_pre(E)) + [AM._arg(E)[0] > 0, z3.Not(AM._some_bad(E)), GATE] + post + replay
    n0 = L(st, AM._mets(E, st))[0]
    n1, e1 = L(s1, AM._mets(E, s1))
    no_model = FA([k], z3.Implies(z3.And(n0 <= k, k < n1), mo0[e1[k]] == NULL), patterns=[e1[k]])
    goals = {"metabolites-content": (FA([x], in_f[x] == in0(x), patterns=[in_f[x]]), []),
             "back-references": (FA([x, r], R_f[x][r] == R0[x][r], patterns=[R_f[x][r]]), []),
             "model-pointers": (FA([x], mo_f[x] == mo0[x], patterns=[mo_f[x]]), [no_model])}
    out = [Obl(f"C03/lemma/add_metabolites/undo-restores:{nm}", hyps + extra, g, "lemma") for nm, (g, extra) in goals.items()]
    # vacuity guard: the hypotheses must not be (cheaply) contradictory - `False` must NOT follow from them
    probe = z3.Solver()
    probe.set("timeout", 5000)
    probe.add(*(hyps + [no_model]))
    if probe.check() == z3.unsat:
        raise RuntimeError("c02_add_metabolites_ctx.lemmas: contradictory hypotheses (vacuous lemma)")
    return out
