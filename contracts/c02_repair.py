"""C02 - Model.repair(rebuild_index=True, rebuild_relationships=True)   (cobra/core/model.py), for models of ANY size.

STATEMENT (docstring: "Update all indexes and pointers in a model"; "rebuild the indices kept in reactions, metabolites and genes";
"reset all associations between genes, metabolites, model and then re-add them").  With R / M / G / P the four DictLists:

PROVED - the case rebuild_relationships=False, rebuild_index True or False (2 paths, 110 obligations; materialised model;
DictList._generate_index by its PROVED C15 contract; the inner `entity._model = self` loop - one source loop - used four times under one
invariant):
  (index)   rebuild_index: each of the four lists (reactions, metabolites, genes, groups) holds the same objects at the same positions
            and its index is REGENERATED and well formed (every member found under its identifier at its position, every key of the
            index names the member at that position) - the `_generate_index` contract, whose precondition is stated here: THE
            IDENTIFIERS OF EACH LIST ARE PAIRWISE DIFFERENT (with repeated identifiers the index is last-wins and nothing is claimed).
            Without rebuild_index the lists must be well formed at entry (stated) and are left alone.
  (model)   every member of the four lists points at the model (`_model`) afterwards - groups included -, and nothing that pointed
            at this model loses its pointer.
  (frame)   no `_reaction` / `_genes` set, no identifier, no list changes; nothing is registered (repair never calls get_context).

NOT PROVED - the case rebuild_relationships=True (the default).  The specification and the four loop invariants are written below
(_rel, _inv_clear, _inv_rxns, _inv_inner; intended statement: for every member m of model.metabolites  x in m._reaction <=> x is a
member of model.reactions and m is a key of x._metabolites - cleared first, refilled from the forward half -, a metabolite outside the
list gains these entries and loses none; for every member g of model.genes at exit  x in g._reaction <=> x is a member of
model.reactions and g in x._genes, with Reaction.update_genes_from_gpr applied by its PROVED C02 contract to a temporary
materialisation of the receiver as in contracts/c02_add_reactions.py).  Path generation for that case did not finish within this
session's time limit (> 20 min in the first run; not diagnosed), so the case is NOT registered (it is only added when the environment
variable REPAIR_DRAFT is set) and NOTHING is claimed for it.  What the attempt did establish is the precondition the proof needs at the
call site `call:Reaction.update_genes_from_gpr/pre` - every member of model.reactions points at the model - and that repair() does not
establish it itself:

FINDING (outside the precondition `every member of model.reactions points at the model`; reported, not absorbed).  repair() rebuilds the relationships BEFORE it re-points `_model`
(the last loop), but update_genes_from_gpr reads `self._model`: for a listed reaction whose model pointer is lost - the very damage
"update all ... pointers in a model" is documented to fix - the genes of the rule are created as NEW free-floating Gene objects.
Native reproduction (/venv/bin/python against /repo):
    m = cobra.Model("m"); a = cobra.Metabolite("a_c", compartment="c")
    r = cobra.Reaction("R1"); r.add_metabolites({a: -1}); r.gene_reaction_rule = "g1"; m.add_reactions([r])
    r._model = None; m.repair()
    -> r.model is m, but m.genes.g1._reaction == set() although R1's rule names g1, and r.genes == {<another Gene g1>} whose
       _model is None and which is not m.genes.g1: the cross-reference invariant does NOT hold after repair().
    m.repair() a second time -> consistent (m.genes.g1 lists R1): repair is not idempotent on such a model.
The call-site obligation `call:Reaction.update_genes_from_gpr/pre` is where the proof needs the precondition.

CONTEXT.  repair() itself never calls get_context: the clears, `met._reaction.add(rxn)`, the regenerated indices and the `_model`
assignments are NOT registered.  The only registrations are the callee's (update_genes_from_gpr, proved in-context case of
c02_update_genes: `model.genes -= [new gene]` / `new_gene._model = None` for a gene it created and `_dissociate_gene(g)` only for a gene
that was NOT in the reaction's gene set before - the repair 3bab4d1; before it every gene of the rule was dissociated on exit, so
`with model: model.repair()` left every reaction without genes).  Native observation at the current commit: `with model:
model.repair()` on a consistent model leaves it consistent after the context; on a damaged model the metabolite half stays repaired
and the gene associations the call had to ADD are taken back.  The contract below is stated for NO open context (the case
in_model:no_context of the callee: nothing is registered anywhere - post-condition `trace empty`).

STATED PRECONDITION (proved case): identifiers pairwise different per list (or, without rebuild_index, well-formed lists).  (The
draft's further clauses - class tags, listed reactions point at the model, no open context - are NOT part of the proved case's
precondition.)

MUTATION TRIALS (tools/mutate_and_run.sh cobra/core/model.py ... contracts.c02_repair --hooks HOOKS Model.repair): all fail:
  `self.metabolites._generate_index()` dropped                       -> post.8 / post.9 unknown (well-formedness of metabolites, exit #1)
  tuple of the last loop without `self.groups`                       -> post.19 unknown on both exits (members of groups point at the model)
  `if not rebuild_index:`                                            -> post.2 / post.3 sat (exit #2: index of reactions not regenerated)
  `self.groups._generate_index()` -> `self.genes._generate_index()`    -> post.11 / post.12 unknown (well-formedness of groups, exit #1)
  (`entity._model = None`: no verdict - path generation for this mutant did not terminate within 15 min, run stopped; not counted)
"""
import z3
from .common import *  # noqa
from . import c15_dictlist as C15  # noqa
from . import c02_update_genes as U
from . import c02_add_reactions as AR
from . import c02_groups as GR
from pyvc.state import alloc_obj
from pyvc.values import ident_of

MM = "cobra/core/model.py"
KEY = "Model.repair"
KEYS = [KEY]
tag = GR.class_tag
MET, RXN, GENE = GR.TAGS["Metabolite"], GR.TAGS["Reaction"], GR.TAGS["Gene"]
_LISTS = ("reactions", "genes", "metabolites", "groups")
EMPTY = z3.K(Ref, z3.BoolVal(False))


def Hh(E, st, f):
    return E.eng.heap_arr(st, f)


def _cur(eng):
    return getattr(getattr(eng, "cur_contract", None), "key", None)


def _model(eng):
    return (getattr(eng, "entry_args", None) or {}).get("self")


def _model_t():
    return TObj("Model", {"_contexts": TList("ref:HistoryManager"), "reactions": TDictList("Reaction"), "metabolites": TDictList("Metabolite"),
                          "genes": TDictList("Gene"), "groups": TDictList("Group")})


def dl(E, st, name):
    return st.objs[E["self"].oid]["attr:" + name]


def inl(E, st, name, x, ida=None):
    """x is a member of the (well-formed) DictList: found under its identifier"""
    v = dl(E, st, name)
    n, e = L(st, v)
    dom, val = Dv(st, v)
    ida = Hh(E, st, "_id") if ida is None else ida
    return z3.And(x != NULL, z3.Select(dom, ida[x]), e[val[ida[x]]] == x)


def posl(E, st, name, x, ida=None):
    dom, val = Dv(st, dl(E, st, name))
    ida = Hh(E, st, "_id") if ida is None else ida
    return val[ida[x]]


# ---------------------------------------------------------------- hooks
def call_method_hook(eng, st, recv, name, pos, kw):
    if _cur(eng) != KEY:
        return None
    if isinstance(recv, VObj) and recv.kind == "set" and name == "clear" and not pos and not kw and st.objs[recv.oid].get("origin"):
        # set.clear() on a set-valued heap field: the field holds the empty set (writes through, like add / discard in pyvc.builtins)
        f, ref = st.objs[recv.oid]["origin"]
        s = st.updobj(recv.oid, dom=EMPTY)
        return [("ok", s.setheap(f, z3.Store(eng.heap_arr(s, f), ref, EMPTY)), NONE)]
    if isinstance(recv, VRef) and recv.cls == "Reaction" and name == "update_genes_from_gpr" and not pos and not kw:
        return _apply_update_genes(eng, st, recv)
    return None


def _apply_update_genes(eng, st, recv):
    """rxn.update_genes_from_gpr() by its PROVED contract (c02_update_genes), applied to a temporary materialisation of the receiver
    (identity = the reaction reference, `_model` = THIS model - that the heap's pointer agrees is the contract's precondition, obliged -,
    `_gpr` = the heap field)"""
    model = _model(eng)
    con = eng.reg.get("Reaction.update_genes_from_gpr")
    r = recv.t
    eng.oblige(st, z3.And(r != NULL, r != ident_of(model.oid)), "call:Reaction.update_genes_from_gpr/receiver", kind="callpre")
    st1, tmp = alloc_obj(st, "Reaction", {"attr:_model": model, "attr:_gpr": VRef(z3.Select(eng.heap_arr(st, "_gpr"), r), "GPR")})
    st1 = st1.assume(ident_of(tmp.oid) == r)
    if not eng.feasible(st1):
        raise Unsupported("materialising the receiver of update_genes_from_gpr contradicts what is known")
    outs = []
    for k, s2, v in eng.apply_contract(st1, con, [tmp], {}):
        if k == "ok":
            # ASSUMED (allocation, as in c02_add_reactions): the Gene objects the callee created carry the class tag Gene
            E = Env({"self": tmp}, st1, s2, eng=eng)
            g = qv("cg", Ref)
            G1 = eng.heap_arr(s2, "_genes")
            s2 = s2.assume(FA([g], z3.Implies(U.new_here(E, G1[r], g), tag(g) == GENE), patterns=[G1[r][g]]))
            # call-site lemma (OBLIGED, then used): the index of model.genes keeps every old key at its position
            mg = st1.objs[model.oid]["attr:genes"]
            dg0, vg0 = Dv(st1, mg)
            dg1, vg1 = Dv(s2, mg)
            kk = qv("uk", Id)
            lem = FA([kk], z3.Implies(z3.Select(dg0, kk), z3.And(z3.Select(dg1, kk), vg1[kk] == vg0[kk])), patterns=[z3.Select(dg0, kk)])
            eng.oblige(s2, lem, "call:Reaction.update_genes_from_gpr/lemma:index", kind="side")
            s2 = s2.assume(lem)
            s2 = s2.setghost("rp_calls", s2.ghost.get("rp_calls", 0) + 1)
        outs.append((k, s2, v))
    return outs


HOOKS = {"call_method": call_method_hook}


# ---------------------------------------------------------------- specification
def _me(E):
    return ident_of(E["self"].oid)


def _typed(E, st):
    """class tags: members of the lists, keys of stoichiometries, members of gene sets"""
    cs = []
    j, x, y = qv("tj"), qv("tx", Ref), qv("ty", Ref)
    for name, t in (("reactions", RXN), ("metabolites", MET), ("genes", GENE)):
        n, e = L(st, dl(E, st, name))
        cs.append(FA([j], z3.Implies(z3.And(0 <= j, j < n), z3.And(e[j] != NULL, tag(e[j]) == t)), patterns=[e[j]]))
    M, G = Hh(E, st, "_metabolites"), Hh(E, st, "_genes")
    cs.append(FA([x, y], z3.Implies(M[x][y], tag(y) == MET), patterns=[M[x][y]]))
    cs.append(FA([x, y], z3.Implies(G[x][y], tag(y) == GENE), patterns=[G[x][y]]))
    return cs


def _pre(E):
    s0 = E.s0
    ri = E["rebuild_index"].t
    cs = [_me(E) != NULL]
    for name in _LISTS:
        n, e = L(s0, dl(E, s0, name))
        cs.append(z3.If(ri, z3.And(n >= 0, distinct_ids(E, s0, n, e)), WF(E, s0, dl(E, s0, name))))
    rr = E["rebuild_relationships"]
    if isinstance(rr, VConc) and not rr.py:
        return z3.And(*cs)                      # the PROVED case needs nothing more
    # ---- DRAFT (rebuild_relationships=True, not proved): class tags, listed reactions point at the model, no open context
    cs += list(_typed(E, s0))
    n, e = L(s0, dl(E, s0, "reactions"))
    j = qv("pj")
    cs.append(FA([j], z3.Implies(z3.And(0 <= j, j < n), Hh(E, s0, "_model")[e[j]] == _me(E)), patterns=[e[j]]))     # see FINDING
    nc, ec = C3_ctxs(E)
    cs.append(nc == 0)
    return z3.And(*cs)


def C3_ctxs(E):
    rec = E.s0.objs[E.s0.objs[E["self"].oid]["attr:_contexts"].oid]
    return rec["len"], rec["elem"]


def _listed_same(E, st, names):
    """the lists `names` hold the entry members at the entry positions; their identifiers are the entry ones"""
    cs = []
    for name in names:
        cs.append(same_list(E, E.s0, st, dl(E, st, name)))
    return cs


def _done_r(E, st, x, i):
    return z3.And(inl(E, st, "reactions", x, Hh(E, E.s0, "_id")), posl(E, st, "reactions", x, Hh(E, E.s0, "_id")) < i)


def _ids_kept(E, st):
    """identifiers change only for Genes (the ones update_genes_from_gpr creates)"""
    x = qv("kx", Ref)
    a, a0 = Hh(E, st, "_id"), Hh(E, E.s0, "_id")
    return FA([x], z3.Implies(tag(x) != GENE, a[x] == a0[x]), patterns=[a[x]])


def _rel(E, st, i, rx_cleared):
    """the relationships after the first i reactions of the list have been handled (rx_cleared: the `_reaction` field right after
    the two clearing loops)"""
    M = Hh(E, E.s0, "_metabolites")
    G, Rx, Mo = Hh(E, st, "_genes"), Hh(E, st, "_reaction"), Hh(E, st, "_model")
    m, x, g = qv("rm", Ref), qv("rx", Ref), qv("rg", Ref)
    done = lambda y: _done_r(E, st, y, i)  # noqa
    gl = dl(E, st, "genes")
    ng, eg = L(st, gl)
    ng0, eg0 = L(E.s0, gl)
    j = qv("rj")
    nr, er = L(st, dl(E, st, "reactions"))
    return [
        # metabolite half: a Metabolite's set = what it held after the clearing, plus the handled reactions that use it
        FA([m, x], z3.Implies(tag(m) == MET, Rx[m][x] == z3.Or(rx_cleared[m][x], z3.And(done(x), M[x][m]))), patterns=[Rx[m][x]]),
        # gene half: a member of model.genes lists exactly the handled reactions whose gene set holds it
        FA([g, x], z3.Implies(inl(E, st, "genes", g), Rx[g][x] == z3.And(done(x), G[x][g])), patterns=[Rx[g][x]]),
        # model.genes: well formed, entry members in place, every member a Gene
        WF(E, st, gl), ng >= ng0,
        FA([j], z3.Implies(z3.And(0 <= j, j < ng0), eg[j] == eg0[j]), patterns=[eg[j]]),
        FA([j], z3.Implies(z3.And(0 <= j, j < ng), z3.And(eg[j] != NULL, tag(eg[j]) == GENE)), patterns=[eg[j]]),
        # gene sets hold Genes; listed reactions still point at the model; only Genes got another identifier / model pointer
        FA([x, g], z3.Implies(G[x][g], tag(g) == GENE), patterns=[G[x][g]]),
        FA([j], z3.Implies(z3.And(0 <= j, j < nr), Mo[er[j]] == _me(E)), patterns=[er[j]]),
        _ids_kept(E, st),
        FA([x], z3.Implies(Hh(E, E.s0, "_model")[x] == _me(E), Mo[x] == _me(E)), patterns=[Mo[x]]),
    ]


def _cleared(E, st_after):
    return Hh(E, st_after, "_reaction")


def _inv_clear(which):
    def inv(E, Lc):
        """loop 0 / 1: the first i members' sets are empty, every other set is as at loop entry"""
        n, e = L(Lc.st, dl(E, Lc.st, which))
        Rx, Rxe = Hh(E, Lc.st, "_reaction"), Hh(E, Lc.entry, "_reaction")
        x, j = qv("cx", Ref), qv("cj")
        cs = [FA([j], z3.Implies(z3.And(0 <= j, j < Lc.i), Rx[e[j]] == EMPTY), patterns=[e[j]]),
              FA([x], z3.Or(Rx[x] == EMPTY, Rx[x] == Rxe[x]), patterns=[Rx[x]]),
              FA([x], z3.Implies(z3.Not(inl(E, Lc.st, which, x, Hh(E, E.s0, "_id"))), Rx[x] == Rxe[x]), patterns=[Rx[x]])]
        return z3.And(*cs)
    return inv


def _rx_mod(E, Lc):
    return [("heap", "_reaction")]


def _after_clear(E, st):
    """the state right after the two clearing loops, described against the entry state: members of metabolites / genes hold the
    empty set, everything else holds what it held"""
    Rx, Rx0 = Hh(E, st, "_reaction"), Hh(E, E.s0, "_reaction")
    x = qv("ax", Ref)
    id0 = Hh(E, E.s0, "_id")
    listed = lambda y: z3.Or(inl(E, st, "metabolites", y, id0), inl(E, st, "genes", y, id0))  # noqa
    return [FA([x], Rx[x] == z3.If(listed(x), EMPTY, Rx0[x]), patterns=[Rx[x]])]


def _inv_rxns(E, Lc):
    """loop 2 over model.reactions"""
    return z3.And(*(_rel(E, Lc.st, Lc.i, _cleared(E, Lc.entry)) + _after_clear(E, Lc.entry)))


def _rxns_mod(E, Lc):
    mg = dl(E, Lc.entry, "genes")
    return [("heap", "_genes"), ("heap", "_id"), ("heap", "_model"), ("heap", "_reaction"), ("list", mg), ("dict", dict_of(Lc.entry, mg)),
            ("ghost", "utrace", U.havoc_utrace)]


def _inv_inner(E, Lc):
    """loop 3 over rxn._metabolites (any enumeration order): the keys handled so far list the reaction, nothing else changes"""
    _, order, pos, D = Lc.seq.src[:4]
    r = Lc.var("rxn").t
    Rx, Rxe = Hh(E, Lc.st, "_reaction"), Hh(E, Lc.entry, "_reaction")
    y, x = qv("iy", Ref), qv("ix", Ref)
    return FA([y, x], Rx[y][x] == z3.If(z3.And(x == r, D[y], pos[y] < Lc.i), z3.BoolVal(True), Rxe[y][x]), patterns=[Rx[y][x]])


def _inv_point(E, Lc):
    """loop 5 `for entity in dict_list` (one source loop, run once per list): what pointed here at loop entry still does, the members
    handled so far do, nothing else is written"""
    me = _me(E)
    mo, mo_in = Hh(E, Lc.st, "_model"), Hh(E, Lc.entry, "_model")
    x, j = qv("ox", Ref), qv("oj")
    return z3.And(FA([x], z3.Or(mo[x] == me, mo[x] == mo_in[x]), patterns=[mo[x]]),
                  FA([x], z3.Implies(mo_in[x] == me, mo[x] == me), patterns=[mo[x]]),
                  FA([j], z3.Implies(z3.And(0 <= j, j < Lc.i), mo[unwrap(Lc.seq.get(Lc.st, j), "ref")] == me)))


def _post(E):
    s0, s1 = E.s0, E.s1
    ri = E["rebuild_index"].t
    rr = E["rebuild_relationships"]
    rr = z3.BoolVal(bool(rr.py)) if isinstance(rr, VConc) else rr.t
    me = _me(E)
    cs = []
    # (index)
    for name in _LISTS:
        v = dl(E, s1, name)
        cs.append(WF(E, s1, v))
        if name != "genes":
            cs.append(same_list(E, s0, s1, v))
    gl = dl(E, s1, "genes")
    ng, eg = L(s1, gl)
    ng0, eg0 = L(s0, gl)
    j, x, m, g = qv("qj"), qv("qx", Ref), qv("qm", Ref), qv("qg", Ref)
    cs += [ng >= ng0, FA([j], z3.Implies(z3.And(0 <= j, j < ng0), eg[j] == eg0[j]), patterns=[eg[j]]),
           z3.Implies(z3.Not(rr), ng == ng0)]
    # (model)
    Mo1, Mo0 = Hh(E, s1, "_model"), Hh(E, s0, "_model")
    for name in _LISTS:
        n, e = L(s1, dl(E, s1, name))
        cs.append(FA([j], z3.Implies(z3.And(0 <= j, j < n), Mo1[e[j]] == me), patterns=[e[j]]))
    cs.append(FA([x], z3.Implies(Mo0[x] == me, Mo1[x] == me), patterns=[Mo1[x]]))
    # (mets) / (genes)
    M = Hh(E, s0, "_metabolites")
    cs.append(Hh(E, s1, "_metabolites") == M)
    Rx1, Rx0, G1, G0 = Hh(E, s1, "_reaction"), Hh(E, s0, "_reaction"), Hh(E, s1, "_genes"), Hh(E, s0, "_genes")
    id0 = Hh(E, s0, "_id")
    in_r = lambda y: inl(E, s1, "reactions", y, id0)  # noqa
    nm, em = L(s1, dl(E, s1, "metabolites"))
    cs.append(z3.Implies(rr, FA([j, x], z3.Implies(z3.And(0 <= j, j < nm), Rx1[em[j]][x] == z3.And(in_r(x), M[x][em[j]])),
                                patterns=[Rx1[em[j]][x]])))
    cs.append(z3.Implies(rr, FA([m, x], z3.Implies(z3.And(tag(m) == MET, z3.Not(inl(E, s1, "metabolites", m, id0))),
                                                   Rx1[m][x] == z3.Or(Rx0[m][x], z3.And(in_r(x), M[x][m]))), patterns=[Rx1[m][x]])))
    cs.append(z3.Implies(rr, FA([j, x], z3.Implies(z3.And(0 <= j, j < ng), Rx1[eg[j]][x] == z3.And(in_r(x), G1[x][eg[j]])),
                                patterns=[Rx1[eg[j]][x]])))
    cs.append(z3.Implies(rr, FA([j], z3.Implies(z3.And(0 <= j, j < ng), tag(eg[j]) == GENE), patterns=[eg[j]])))
    # (frame)
    cs.append(z3.Implies(z3.Not(rr), z3.And(Rx1 == Rx0, G1 == G0, Hh(E, s1, "_id") == id0)))
    cs.append(U.utrace(s1)[0] == 0)                                                   # nothing is registered
    # update_genes_from_gpr: applied once per reaction
    return z3.And(*cs)


# PROVED: the case rebuild_relationships=False (both values of rebuild_index).  The case rebuild_relationships=True (loops 0 - 3, the
# invariants above) is a DRAFT that is NOT PROVED: path generation did not finish within the session's time limit - see the docstring.
_case = Case("rebuild_relationships=False", ensures=_post)
_case.params_override = {"rebuild_relationships": TConc(False)}
_case_draft = Case("rebuild_relationships=True:DRAFT", ensures=_post)
_case_draft.params_override = {"rebuild_relationships": TConc(True)}
import os as _os  # noqa
_CASES = [_case] + ([_case_draft] if _os.environ.get("REPAIR_DRAFT") else [])

REG.add(Contract(MM, "Model.repair", "C02", [("self", _model_t()), ("rebuild_index", TBool()), ("rebuild_relationships", TBool())],
                 _CASES, pre=_pre, key=KEY,
                 modifies=lambda E: [("heap", "_genes"), ("heap", "_id"), ("heap", "_model"), ("heap", "_reaction"),
                                     ("list", dl(E, E.s0, "genes")), ("dict", dict_of(E.s0, dl(E, E.s0, "genes"))),
                                     ("ghost", "utrace", U.havoc_utrace)]
                 + [("attr", dl(E, E.s0, nm_), "_dict", lambda st: alloc_dict_id_int(st)) for nm_ in _LISTS],
                 loops={0: LoopSpec(_inv_clear("metabolites"), _rx_mod), 1: LoopSpec(_inv_clear("genes"), _rx_mod),
                        2: LoopSpec(_inv_rxns, _rxns_mod), 3: LoopSpec(_inv_inner, _rx_mod),
                        5: LoopSpec(_inv_point, lambda E, Lc: [("heap", "_model")])}))
