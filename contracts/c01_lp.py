"""C01 (kernel) — Reaction bounds <-> forward/reverse variable bounds.

Views: lb,ub = heap fields `_lower_bound`,`_upper_bound` (extended reals); fwd(r), rev(r) = the reaction's optlang variables
(uninterpreted functions, distinct: the md5-based reverse id is assumed injective and different from every reaction id);
var_lb / var_ub = bounds held by an optlang Variable (None = unbounded is encoded as -inf / +inf).
The top-level postcondition is the statement's: the net flux f - r ranges over exactly [lb, ub].
"""
import z3
from .common import *  # noqa
from pyvc.values import xr_le, xr_lt, xr_eq, xr_const, VReal, id_lit, VSlice, VFunc, Unsupported, unwrap

M = "cobra/core/reaction.py"
REG.fields.update({"_lower_bound": "real", "_upper_bound": "real", "_model": "ref:Model", "var_lb": "real", "var_ub": "real"})
REG.inline.add("Reaction.model@getter")
REG.inline.add("Reaction.lower_bound@getter")
REG.inline.add("Reaction.upper_bound@getter")
REG.inline.add("Reaction.bounds@getter")

fwd = z3.Function("fwd", Ref, Ref)
rev = z3.Function("rev", Ref, Ref)

RXN = ("self", TRef("Reaction"))


def hreal(E, st, field, ref):
    ka, va = E.eng.heap_arr(st, field)
    return VReal(ka[ref], va[ref])


def lbub(E, st, r):
    return hreal(E, st, "_lower_bound", r), hreal(E, st, "_upper_bound", r)


def model_of(E, st, r):
    return E.eng.heap_arr(st, "_model")[r]


def vars_distinct(r):
    return z3.And(fwd(r) != rev(r), fwd(r) != NULL, rev(r) != NULL)


def in_rng(v, lo, hi):
    """finite real v within extended-real bounds [lo, hi]"""
    return z3.And(z3.Or(lo.k == -1, z3.And(lo.k == 0, lo.v <= v)), z3.Or(hi.k == 1, z3.And(hi.k == 0, v <= hi.v)))


def xr_is(a, kind, val=None):
    if kind != 0:
        return a.k == kind
    return z3.And(a.k == 0, a.v == val)


def heap_real_unchanged_except(E, field, refs):
    k0, v0 = E.eng.heap_arr(E.s0, field)
    k1, v1 = E.eng.heap_arr(E.s1, field)
    if k0.eq(k1) and v0.eq(v1):
        return TRUE()
    x = qv("hx", Ref)
    return FA([x], z3.Implies(z3.And(*[x != r for r in refs]), z3.And(k1[x] == k0[x], v1[x] == v0[x])))


# ---------------------------------------------------------------- assumed contracts on optlang (trusted base)
def _sb_val(v, default_kind):
    if isinstance(v, VNone):
        return VReal(default_kind, 0)
    return v


def _sb_bad(E):
    lb, ub = E["lb"], E["ub"]
    if isinstance(lb, VNone) or isinstance(ub, VNone):
        return z3.BoolVal(False)
    lb, ub = E.eng.to_real(lb), E.eng.to_real(ub)
    return xr_lt(ub, lb)


def _sb_post(E):
    x = E["self"].t
    lb = _sb_val(E["lb"], -1)
    ub = _sb_val(E["ub"], 1)
    lb = lb if isinstance(lb, VReal) else E.eng.to_real(lb)
    ub = ub if isinstance(ub, VReal) else E.eng.to_real(ub)
    return z3.And(xr_eq(hreal(E, E.s1, "var_lb", x), lb), xr_eq(hreal(E, E.s1, "var_ub", x), ub),
                  heap_real_unchanged_except(E, "var_lb", [x]), heap_real_unchanged_except(E, "var_ub", [x]))


REG.add(Contract("optlang/interface.py", "Variable.set_bounds", "C01", [("self", TRef("Variable")), ("lb", TReal()), ("ub", TReal())], [
    Case("ok", requires=lambda E: z3.Not(_sb_bad(E)), ensures=_sb_post),
    Case("lb_gt_ub", requires=_sb_bad, raises="ValueError"),
], modifies=lambda E: [("heap", "var_lb"), ("heap", "var_ub")], assumed=True, key="Variable.set_bounds",
    note="optlang Variable.set_bounds(lb, ub): None = unbounded; raises ValueError iff both given and lb > ub"))
REG.classes["Variable"] = []


def _var_result(which):
    def r(eng, st, E):
        return st, VRef(which(E["self"].t), "Variable")
    return r


# ---------------------------------------------------------------- the reaction's solver variables: PROVED getters over assumed leaves
# (until round 5 the three getters below were assumed contracts; now their real bodies are verified, hook table GETTER_HOOKS)
#   leaves (external code / C01 invariant), everything that stays ASSUMED about them:
#   (L1) optlang Container lookup: `container[name]` returns lp_var_registered(container, name), KeyError when that is NULL
#        (assumed contract "VarContainer.__getitem__"); `solver.variables` is the container lp_variables_of(solver);
#   (L2) solver in step (the C01 invariant, established by the proved Model._populate_solver (2) and kept by the proved rename):
#        for a reaction r of a model, the object registered in its model's solver under id(r) is the one the contracts call
#        fwd(r), the object registered under reverse_id_of(id(r)) is rev(r); both exist and are different objects (different names:
#        the md5-based reverse id is assumed different from every reaction id) - `_in_step_axioms`, the `axioms=` of the two getters;
#   (L3) hashlib.md5(<id>.encode("utf-8")).hexdigest()[0:5] is a function md5_utf8_hexdigest_0_5 of the id, `sep.join((a, b, c))` a
#        function str_join3 of its four strings (uninterpreted; GETTER_HOOKS); reverse_id_of(k) is DEFINED as
#        str_join3("_", k, "reverse", md5_utf8_hexdigest_0_5(k)) - the documented shape (`_revid_axioms`).
#   proved from the bodies: the detached / in-model decision on `self.model`, that the look-up goes to the variables container of the
#   solver of the reaction's OWN model (through the real Model.variables / Model.solver getters, inlined) under the key `self.id`
#   resp. `self.reverse_id` (the proved getter), that nothing is written, and that reverse_id has the documented shape.
#   Mutation trials (tools/mutate_and_run.sh cobra/core/reaction.py ... contracts.c01_lp --hooks GETTER_HOOKS <key>), each NOT verified:
#     forward_variable: `self.model.variables[self.id]` -> `[self.reverse_id]`: in_model exit=return#1/post.2 sat;
#     forward_variable: `is not None` -> `is None` (first occurrence is flux_expression; second mutated): detached post sat / in_model;
#     reverse_variable: `[self.reverse_id]` -> `[self.id]`: in_model post.2 sat;
#     reverse_variable: `self.model.variables` -> `self.model.constraints`: unsupported (no such look-up is known: undecided);
#     reverse_id: "reverse" -> "reversed": post sat;  `[0:5]` -> `[0:6]`: unsupported slice (undecided);
#     reverse_id: (self.id, "reverse", h) -> ("reverse", self.id, h): post sat.
REG.fields.update({"_solver": "ref:LPSolver"})
REG.classes.setdefault("LPSolver", [])
REG.classes.setdefault("VarContainer", [])
REG.inline.add("Model.variables@getter")
REG.inline.add("Model.solver@getter")
GETTER_KEYS = ["Reaction.reverse_id@getter", "Reaction.forward_variable@getter", "Reaction.reverse_variable@getter",
               "VarContainer.__getitem__"]
var_at = z3.Function("lp_var_registered", Ref, Id, Ref)       # (container, name) -> registered object, NULL if none
lp_vars = z3.Function("lp_variables_of", Ref, Ref)            # solver -> its `variables` container
REVID = z3.Function("reverse_id_of", Id, Id)                  # the reverse id belonging to an id (same symbol as c02_rename.REVID)
str_join3 = z3.Function("str_join3", Id, Id, Id, Id, Id)      # sep.join((a, b, c))
md5_hex5 = z3.Function("md5_utf8_hexdigest_0_5", Id, Id)      # hashlib.md5(s.encode("utf-8")).hexdigest()[0:5]

_gi = Case("present", requires=lambda E: var_at(E["self"].t, unwrap(E["name"], "id")) != NULL)
_gi.result = lambda eng, st, E: (st, VRef(var_at(E["self"].t, unwrap(E["name"], "id")), "Variable"))
REG.add(Contract("optlang/container.py", "Container.__getitem__", "C01", [("self", TRef("VarContainer")), ("name", TStr())], [
    _gi, Case("absent", requires=lambda E: var_at(E["self"].t, unwrap(E["name"], "id")) == NULL, raises="KeyError"),
], assumed=True, key="VarContainer.__getitem__",
    note="optlang Container look-up by name, model.variables[name]: the object registered under that name (ghost function "
         "lp_var_registered of container and name), KeyError when there is none; reads only"))


def revid_def(k):
    return REVID(k) == str_join3(id_lit("_"), k, id_lit("reverse"), md5_hex5(k))


def _revid_axioms(E):
    if not _verifying_getter(E):
        return []
    return [revid_def(E.eng.heap_arr(E.s0, "_id")[E["self"].t])]


def _verifying_getter(E):
    """the axioms below are needed (and applied) only while one of the getter BODIES is verified; at call sites the post-conditions
    say everything the callers use, and the callers' proofs see exactly the facts they saw when the getters were assumed"""
    cur = getattr(E.eng, "cur_contract", None)
    return cur is not None and cur.key in GETTER_KEYS


def _in_step_axioms(E):
    if not _verifying_getter(E):
        return []
    r = E["self"].t
    m = model_of(E, E.s0, r)
    c = lp_vars(E.eng.heap_arr(E.s0, "_solver")[m])
    i = E.eng.heap_arr(E.s0, "_id")[r]
    return [z3.Implies(m != NULL, z3.And(var_at(c, i) == fwd(r), var_at(c, REVID(i)) == rev(r), vars_distinct(r)))]


REG.add(Contract(M, "Reaction.reverse_id@getter", "C04", [RXN],
                 [Case("any", ensures=lambda E: E.res.t == REVID(E.eng.heap_arr(E.s0, "_id")[E["self"].t]))],
                 axioms=_revid_axioms, key="Reaction.reverse_id@getter", result="id", props=["C04", "C01"],
                 note="PROVED (was assumed): the result is reverse_id_of(current id) = '_'.join((id, 'reverse', md5 prefix of the id))"))


def _with_res(E, base, t):
    """at a call site (the result IS the term t, built by the case's result builder) exactly the clause the assumed contract had"""
    if isinstance(E.res, VRef) and E.res.t.eq(t):
        return base
    return z3.And(base, _res_is(E, t))


def _res_is(E, t):
    if not isinstance(E.res, VRef):
        return z3.BoolVal(False)
    return TRUE() if E.res.t.eq(t) else E.res.t == t


for _name, _fn in (("forward_variable", fwd), ("reverse_variable", rev)):
    c1 = Case("in_model", requires=lambda E: model_of(E, E.s0, E["self"].t) != NULL,
              ensures=(lambda fn: lambda E: _with_res(E, vars_distinct(E["self"].t), fn(E["self"].t)))(_fn))
    c1.result = _var_result(_fn)
    c2 = Case("detached", requires=lambda E: model_of(E, E.s0, E["self"].t) == NULL,
              ensures=lambda E: z3.BoolVal(isinstance(E.res, VNone)))
    c2.result = lambda eng, st, E: (st, NONE)
    REG.add(Contract(M, f"Reaction.{_name}@getter", "C01", [RXN], [c1, c2], axioms=_in_step_axioms, key=f"Reaction.{_name}@getter",
                     note="PROVED (was assumed): None without a model, else model.variables[id] resp. [reverse_id], which is fwd / rev of "
                          "the reaction by the in-step assumption (L2 in contracts/c01_lp.py): the two optlang variables of a reaction "
                          "are registered under id / reverse id and are distinct objects (md5-based reverse_id assumed different from "
                          "all reaction ids)"))


# hooks for VERIFYING the three getter bodies (call sites need none)
def _g_getattr(eng, st, v, name):
    if isinstance(v, VRef) and v.cls == "LPSolver" and name == "variables":
        return [("ok", st, VRef(lp_vars(v.t), "VarContainer"))]
    if isinstance(v, VConc) and v.py == ("module", "hashlib") and name == "md5":
        return [("ok", st, VFunc("abstract", "hashlib.md5"))]
    if isinstance(v, VTuple) and len(v.items) == 2 and isinstance(v.items[0], VConc) and v.items[0].py == "<md5 object>" \
            and name == "hexdigest":
        return [("ok", st, VFunc("abstract", "md5.hexdigest", v.items[1]))]
    return None


def _g_call_abstract(eng, st, f, pos, kw):
    if f.a == "hashlib.md5" and len(pos) == 1 and not kw and isinstance(pos[0], VTuple) and len(pos[0].items) == 2 \
            and isinstance(pos[0].items[0], VConc) and pos[0].items[0].py == "<utf-8 bytes>":
        return [("ok", st, VTuple((VConc("<md5 object>"), pos[0].items[1])))]
    if f.a == "md5.hexdigest" and not pos and not kw:
        return [("ok", st, VTuple((VConc("<md5 hexdigest>"), f.b)))]
    raise Unsupported(f"abstract call {f.a}")


def _g_call_method(eng, st, recv, name, pos, kw):
    if isinstance(recv, VStr) and name == "encode" and len(pos) == 1 and isinstance(pos[0], VConc) and pos[0].py == "utf-8" and not kw:
        return [("ok", st, VTuple((VConc("<utf-8 bytes>"), recv)))]
    if isinstance(recv, VConc) and isinstance(recv.py, str) and name == "join" and len(pos) == 1 and isinstance(pos[0], VTuple) \
            and len(pos[0].items) == 3 and all(isinstance(x, VStr) or (isinstance(x, VConc) and isinstance(x.py, str)) for x in pos[0].items):
        a, b, c = [unwrap(x, "id") for x in pos[0].items]
        return [("ok", st, VStr(str_join3(id_lit(recv.py), a, b, c)))]
    return None


def _g_getitem(eng, st, obj, idx):
    if isinstance(obj, VTuple) and len(obj.items) == 2 and isinstance(obj.items[0], VConc) and obj.items[0].py == "<md5 hexdigest>":
        if isinstance(idx, VSlice) and isinstance(idx.lo, VInt) and isinstance(idx.hi, VInt) and isinstance(idx.step, VNone) \
                and z3.is_int_value(idx.lo.t) and z3.is_int_value(idx.hi.t) and idx.lo.t.as_long() == 0 and idx.hi.t.as_long() == 5:
            return [("ok", st, VStr(md5_hex5(unwrap(obj.items[1], "id"))))]
        raise Unsupported("a slice of the md5 hexdigest other than [0:5]")
    return None


GETTER_HOOKS = {"getattr": _g_getattr, "call_abstract": _g_call_abstract, "call_method": _g_call_method, "getitem": _g_getitem}


# ---------------------------------------------------------------- Reaction._check_bounds (staticmethod)
REG.add(Contract(M, "Reaction._check_bounds", "C01", [("lb", TReal()), ("ub", TReal())], [
    Case("valid", requires=lambda E: z3.Not(xr_lt(E.eng.to_real(E["ub"]), E.eng.to_real(E["lb"])))),
    Case("lb_gt_ub", requires=lambda E: xr_lt(E.eng.to_real(E["ub"]), E.eng.to_real(E["lb"])), raises="ValueError"),
], key="Reaction._check_bounds"))
REG.static = getattr(REG, "static", set())
REG.static.add("Reaction._check_bounds")


# ---------------------------------------------------------------- update_variable_bounds
def _valid(E, st=None):
    st = st or E.s0
    lb, ub = lbub(E, st, E["self"].t)
    return z3.And(xr_le(lb, ub), lb.k != 1, ub.k != -1)


def _uvb_map(E):
    """the documented three-branch map F(lb,ub)"""
    r = E["self"].t
    lb, ub = lbub(E, E.s0, r)
    flb, fub = hreal(E, E.s1, "var_lb", fwd(r)), hreal(E, E.s1, "var_ub", fwd(r))
    rlb, rub = hreal(E, E.s1, "var_lb", rev(r)), hreal(E, E.s1, "var_ub", rev(r))
    zero = VReal(0, 0)
    nlb, nub = VReal(-lb.k, -lb.v), VReal(-ub.k, -ub.v)
    pos = z3.And(xr_eq(flb, lb), xr_eq(fub, ub), xr_eq(rlb, zero), xr_eq(rub, zero))
    neg = z3.And(xr_eq(flb, zero), xr_eq(fub, zero), xr_eq(rlb, nub), xr_eq(rub, nlb))
    mid = z3.And(xr_eq(flb, zero), xr_eq(fub, ub), xr_eq(rlb, zero), xr_eq(rub, nlb))
    return z3.If(xr_lt(zero, lb), pos, z3.If(xr_lt(ub, zero), neg, mid))


RangeOK = z3.Function("RangeOK", *([z3.IntSort(), z3.RealSort()] * 6 + [z3.BoolSort()]))


def range_lemma(E, st_b, st_v, r, reveal=False):
    """{ f - r | f in bounds(fwd), r in bounds(rev) } = [lb, ub]  (both inclusions; the right-to-left one has an exists).

    Opaque by default: the atom RangeOK(lb, ub, fwd bounds, rev bounds) abbreviates the quantified statement; only
    update_variable_bounds, which establishes it, proves the revealed form (opaque/reveal idiom)."""
    lb, ub = lbub(E, st_b, r)
    flb, fub = hreal(E, st_v, "var_lb", fwd(r)), hreal(E, st_v, "var_ub", fwd(r))
    rlb, rub = hreal(E, st_v, "var_lb", rev(r)), hreal(E, st_v, "var_ub", rev(r))
    if not reveal:
        return RangeOK(lb.k, lb.v, ub.k, ub.v, flb.k, flb.v, fub.k, fub.v, rlb.k, rlb.v, rub.k, rub.v)
    v, f, b = z3.Real("rl_v"), z3.Real("rl_f"), z3.Real("rl_b")
    # revealed form, stated without an inner exists: (1) every admissible pair of variable values gives a net flux in [lb, ub];
    # (2) every v in [lb, ub] is reached by the explicit witness f = max(v, 0), b = max(-v, 0) (f - b = v).  (1) and (2) imply
    #     forall v. v in [lb, ub] <-> exists f, b in bounds. f - b = v
    # and, negated, are quantifier-free linear real arithmetic (z3 needed cvc5's help for the forall-exists form).
    vp, vn = z3.If(v >= 0, v, 0), z3.If(v <= 0, -v, 0)
    return z3.And(z3.ForAll([f, b], z3.Implies(z3.And(in_rng(f, flb, fub), in_rng(b, rlb, rub)), in_rng(f - b, lb, ub))),
                  z3.ForAll([v], z3.Implies(in_rng(v, lb, ub), z3.And(in_rng(vp, flb, fub), in_rng(vn, rlb, rub)))))


def _uvb_post(E):
    r = E["self"].t
    flb = hreal(E, E.s1, "var_lb", fwd(r))
    rlb = hreal(E, E.s1, "var_lb", rev(r))
    return z3.And(range_lemma(E, E.s0, E.s1, r, reveal=(E.role == "goal")), _uvb_map(E),
                  z3.And(flb.k == 0, flb.v >= 0, rlb.k == 0, rlb.v >= 0),
                  heap_real_unchanged_except(E, "var_lb", [fwd(r), rev(r)]),
                  heap_real_unchanged_except(E, "var_ub", [fwd(r), rev(r)]))


def _in_model(E):
    return model_of(E, E.s0, E["self"].t) != NULL


VAR_HEAP = lambda E: [("heap", "var_lb"), ("heap", "var_ub")]  # noqa

REG.add(Contract(M, "Reaction.update_variable_bounds", "C01", [RXN], [
    Case("detached", requires=lambda E: z3.Not(_in_model(E)),
         ensures=lambda E: z3.And(heap_real_unchanged_except(E, "var_lb", []), heap_real_unchanged_except(E, "var_ub", []))),
    Case("in_model_valid_bounds", requires=lambda E: z3.And(_in_model(E), _valid(E)), ensures=_uvb_post),
], pre=lambda E: z3.Or(z3.Not(_in_model(E)), _valid(E)), modifies=VAR_HEAP, key="Reaction.update_variable_bounds"))


# ---------------------------------------------------------------- the three bounds setters (bodies under @resettable)
def _set_post(new_lb, new_ub):
    def post(E):
        r = E["self"].t
        lb1, ub1 = lbub(E, E.s1, r)
        nl, nu = new_lb(E), new_ub(E)
        s_mid = E.s1
        detached = model_of(E, E.s0, r) == NULL
        return z3.And(xr_eq(lb1, nl), xr_eq(ub1, nu),
                      heap_real_unchanged_except(E, "_lower_bound", [r]), heap_real_unchanged_except(E, "_upper_bound", [r]),
                      z3.If(detached,
                            z3.And(heap_real_unchanged_except(E, "var_lb", []), heap_real_unchanged_except(E, "var_ub", [])),
                            z3.And(range_lemma(E, E.s1, E.s1, r),
                                   heap_real_unchanged_except(E, "var_lb", [fwd(r), rev(r)]),
                                   heap_real_unchanged_except(E, "var_ub", [fwd(r), rev(r)]))))
    return post


def _cur_lb(E):
    return lbub(E, E.s0, E["self"].t)[0]


def _cur_ub(E):
    return lbub(E, E.s0, E["self"].t)[1]


def _val(E):
    return E.eng.to_real(E["value"])


def _ok(lo, hi):
    """new pair valid: lo <= hi, and (when in a model) lo < +inf, hi > -inf  -- the validity precondition of C01"""
    def f(E):
        l, h = lo(E), hi(E)
        return z3.And(xr_le(l, h), l.k != 1, h.k != -1)
    return f


SET_MOD = lambda E: [("heap", "_lower_bound"), ("heap", "_upper_bound"), ("heap", "var_lb"), ("heap", "var_ub")]  # noqa


def _setter(name, params, lo, hi):
    REG.add(Contract(M, f"Reaction.{name}@setter", "C01", params, [
        Case("valid", requires=_ok(lo, hi), ensures=_set_post(lo, hi)),
        Case("lb_gt_ub", requires=lambda E: xr_lt(hi(E), lo(E)), raises="ValueError"),
    ], pre=lambda E: z3.And(_valid(E), z3.Or(xr_lt(hi(E), lo(E)), _ok(lo, hi)(E))), modifies=SET_MOD,
        key=f"Reaction.{name}@setter"))


_setter("lower_bound", [RXN, ("value", TReal())], _val, _cur_ub)
_setter("upper_bound", [RXN, ("value", TReal())], _cur_lb, _val)


def _pair(i):
    return lambda E: E.eng.to_real(E["value"].items[i])


_setter("bounds", [RXN, ("value", TTuple([TReal(), TReal()]))], _pair(0), _pair(1))

# Reaction.knock_out: exactly its own bounds become (0, 0)
REG.add(Contract(M, "Reaction.knock_out", "C07", [RXN], [
    Case("any", ensures=_set_post(lambda E: VReal(0, 0), lambda E: VReal(0, 0))),
], pre=_valid, modifies=SET_MOD, key="Reaction.knock_out", props=["C07", "C01"]))
