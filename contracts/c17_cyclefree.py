"""C17 (kernel) — loopless._add_cycle_free: the bounds it imposes, and the lemma 'no reversal, no growth in magnitude'.

Per reaction with finite starting flux v0: boundary -> bounds (v0, v0); internal: v = v0 clipped into [lb, ub] (the solver may
report a flux outside the bounds within its tolerance - without the clip lb' > ub' and the bounds setter raised: defect found by
the C05/C13 bounded drivers, repaired in /repo), then v >= 0 -> (max(0, lb), min(v, ub));  v < 0 -> (max(v, lb), min(0, ub)).
"""
import z3
import cobra  # noqa
from .common import *  # noqa
from . import c15_dictlist  # noqa  (DictList contracts used at call sites)
from . import c01_lp as C1
from . import c04_status as C4
from . import c05_fva as C5
from pyvc.values import VReal, xr_eq, xr_le, xr_lt

ML = "cobra/flux_analysis/loopless.py"
REG.fields.update({"is_boundary": "bool"})
REG.add(Contract("cobra/core/reaction.py", "Reaction.boundary@getter", "C17", [("self", TRef("Reaction"))],
                 [Case("any", ensures=lambda E: E.res.t == E.eng.heap_arr(E.s0, "is_boundary")[E["self"].t])], assumed=True,
                 key="Reaction.boundary@getter", result="bool", note="ghost flag: the reaction is a boundary reaction (abstraction of the value PROVED on the real body in contracts/w_reaction_sides.py: exactly one stored metabolite)"))
REG.inline.update({"Reaction.lower_bound@getter", "Reaction.upper_bound@getter"})


def _model_t():
    return TObj("Model", {"reactions": TDictList("Reaction"), "objective": C4.OBJ_T()})


def rx(E):
    return E.s0.objs[E["model"].oid]["attr:reactions"]


def fl(E):
    rec = E.s0.objs[E["fluxes"].oid]
    return rec["dom"], rec["val"]


def xmax(a, b):
    c = xr_lt(a, b)
    return VReal(z3.If(c, b.k, a.k), z3.If(c, b.v, a.v))


def xmin(a, b):
    c = xr_lt(b, a)
    return VReal(z3.If(c, b.k, a.k), z3.If(c, b.v, a.v))


ZERO = VReal(0, 0)


def new_bounds(E, r):
    """the documented bounds of reaction r given its starting flux"""
    dom, val = fl(E)
    v0 = VReal(0, val[idarr(E, E.s0)[r]])
    lb, ub = C1.lbub(E, E.s0, r)
    bnd = E.eng.heap_arr(E.s0, "is_boundary")[r]
    # internal reactions: the start is first clipped into the reaction's bounds (solver tolerance), boundary ones keep it
    vc = xmin(xmax(v0, lb), ub)
    v = VReal(z3.If(bnd, v0.k, vc.k), z3.If(bnd, v0.v, vc.v))
    nonneg = z3.Not(xr_lt(v, ZERO))
    lo = VReal(z3.If(bnd, v.k, z3.If(nonneg, xmax(ZERO, lb).k, xmax(v, lb).k)), z3.If(bnd, v.v, z3.If(nonneg, xmax(ZERO, lb).v, xmax(v, lb).v)))
    hi = VReal(z3.If(bnd, v.k, z3.If(nonneg, xmin(v, ub).k, xmin(ZERO, ub).k)), z3.If(bnd, v.v, z3.If(nonneg, xmin(v, ub).v, xmin(ZERO, ub).v)))
    return lo, hi


def _effect(E, st, upto):
    """reactions at positions < upto have the documented new bounds, every other reaction its old ones"""
    n, e = L(E.s0, rx(E))
    dom, val = Dv(E.s0, rx(E))
    idA = idarr(E, E.s0)
    x = qv("cx", Ref)
    lo, hi = new_bounds(E, x)
    lb0, ub0 = C1.lbub(E, E.s0, x)
    lb1, ub1 = C1.lbub(E, st, x)
    inlist = z3.And(z3.Select(dom, idA[x]), e[val[idA[x]]] == x)
    done = z3.And(inlist, val[idA[x]] < upto)
    return FA([x], z3.If(done, z3.And(xr_eq(lb1, lo), xr_eq(ub1, hi)), z3.And(xr_eq(lb1, lb0), xr_eq(ub1, ub0))),
              patterns=[E.eng.heap_arr(st, "_lower_bound")[0][x]])


def _pre(E):
    n, e = L(E.s0, rx(E))
    dom, val = fl(E)
    idA = idarr(E, E.s0)
    j = qv("pj")
    lbk, lbv = E.eng.heap_arr(E.s0, "_lower_bound")
    ubk, ubv = E.eng.heap_arr(E.s0, "_upper_bound")
    r = e[j]
    v = VReal(0, val[idA[r]])
    lb, ub = VReal(lbk[r], lbv[r]), VReal(ubk[r], ubv[r])
    return z3.And(WF(E, E.s0, rx(E)),
                  FA([j], z3.Implies(z3.And(0 <= j, j < n),
                                     z3.And(z3.Select(dom, idA[r]), xr_le(lb, ub), lb.k != 1, ub.k != -1,
                                            C1.vars_distinct(r), C1.model_of(E, E.s0, r) != NULL)), patterns=[e[j]]))


def chosen(E, r):
    """the variable that carries |v| for the kept sign of reaction r: forward for v >= 0, reverse for v < 0 (v clipped)"""
    dom, val = fl(E)
    v0 = VReal(0, val[idarr(E, E.s0)[r]])
    lb, ub = C1.lbub(E, E.s0, r)
    v = xmin(xmax(v0, lb), ub)
    return z3.If(z3.Not(xr_lt(v, ZERO)), C1.fwd(r), C1.rev(r))


def _objvars(E, st, ov, upto):
    """objective_vars holds exactly the chosen variable of every internal reaction at a position < upto"""
    n, e = L(E.s0, rx(E))
    bnd = E.eng.heap_arr(E.s0, "is_boundary")
    rec = st.objs[ov.oid]
    if rec["ekind"] != "ref:Variable":
        return z3.And(rec["len"] == 0, upto == 0) if False else (rec["len"] == 0)
    m, oe = rec["len"], rec["elem"]
    k, j, wj, wk = qv("ok"), qv("oj"), qv("owj"), qv("owk")
    return z3.And(m >= 0,
                  FA([k], z3.Implies(z3.And(0 <= k, k < m),
                                     z3.Exists([wj], z3.And(0 <= wj, wj < upto, z3.Not(bnd[e[wj]]), oe[k] == chosen(E, e[wj])))), patterns=[oe[k]]),
                  FA([j], z3.Implies(z3.And(0 <= j, j < upto, z3.Not(bnd[e[j]])),
                                     z3.Exists([wk], z3.And(0 <= wk, wk < m, oe[wk] == chosen(E, e[j])))), patterns=[e[j]]))


def _inv(E, Lc):
    ov = Lc.var("objective_vars")
    base = _effect(E, Lc.st, Lc.i)
    if Lc.st.objs[ov.oid]["ekind"] != "ref:Variable":
        # still the untyped empty literal: nothing chosen yet, i.e. no internal reaction processed
        n, e = L(E.s0, rx(E))
        bnd = E.eng.heap_arr(E.s0, "is_boundary")
        j = qv("ej")
        return z3.And(base, Lc.st.objs[ov.oid]["len"] == 0,
                      FA([j], z3.Implies(z3.And(0 <= j, j < Lc.i), bnd[e[j]]), patterns=[e[j]]))
    return z3.And(base, _objvars(E, Lc.st, ov, Lc.i))


def _post(E):
    """bounds as documented; the objective coefficient is 1 on exactly the chosen variables (others as the objective reset left them)"""
    n, e = L(E.s0, rx(E))
    bnd = E.eng.heap_arr(E.s0, "is_boundary")
    o0, o1 = C5.objc(E.s0), C5.objc(E.s1)
    x, wj = qv("px", Ref), qv("pw")
    is_chosen = z3.Exists([wj], z3.And(0 <= wj, wj < n, z3.Not(bnd[e[wj]]), x == chosen(E, e[wj])))
    return z3.And(_effect(E, E.s1, n), FA([x], o1[x] == z3.If(is_chosen, z3.RealVal(1), o0[x]), patterns=[o1[x]]))


# assumed: the objective setter and optlang constructors used around the loop
def getattr_hook(eng, st, v, name):
    if isinstance(v, VObj) and v.cls == "Model" and name in ("solver", "problem"):
        return [("ok", st, VOpaque("solver"))]
    return None


def setattr_hook(eng, st, v, name, val):
    if isinstance(v, VObj) and v.cls == "Model" and name == "objective":
        return [("ok", st, NONE)]      # Model.objective setter: solver-side only (assumed; objective part not claimed here)
    return None


def global_hook(eng, name):
    if name == "Zero":
        return VOpaque("Zero")
    return None


HOOKS = {"getattr": getattr_hook, "setattr": setattr_hook, "global": global_hook}

BMOD = lambda E: [("heap", "_lower_bound"), ("heap", "_upper_bound"), ("heap", "var_lb"), ("heap", "var_ub"),  # noqa
                  ("ghost", "objc", lambda st: fresh("objc", C5.CoefMap))]


def _loop_mod(E, Lc):
    ov = Lc.var("objective_vars")
    return [l for l in BMOD(E) if l[0] != "ghost"] + [("list", ov, "ref:Variable")]


REG.add(Contract(ML, "_add_cycle_free", "C17", [("model", _model_t()), ("fluxes", TDict("id", "real"))],
                 [Case("feasible_start", ensures=_post)], pre=_pre, modifies=BMOD, key="_add_cycle_free",
                 loops={0: LoopSpec(_inv, _loop_mod)}))


def lemmas():
    """from the new bounds: every admissible flux w has the sign of the start v (or is 0) and |w| <= |v| (internal reactions);
    boundary reactions keep exactly v"""
    from pyvc.engine import Obl
    v, w = z3.Real("c_v"), z3.Real("c_w")
    lb, ub = VReal(z3.Int("c_lbk"), z3.Real("c_lbv")), VReal(z3.Int("c_ubk"), z3.Real("c_ubv"))
    vr = VReal(0, v)
    dom = [lb.k >= -1, lb.k <= 1, ub.k >= -1, ub.k <= 1, xr_le(lb, vr), xr_le(vr, ub)]
    lo_p, hi_p = xmax(ZERO, lb), xmin(vr, ub)
    lo_n, hi_n = xmax(vr, lb), xmin(ZERO, ub)
    inr = lambda x, lo, hi: C1.in_rng(x, lo, hi)  # noqa
    out = [
        Obl("C17/lemma/no-reversal-no-growth/nonnegative-start", dom + [v >= 0, inr(w, lo_p, hi_p)], z3.And(w >= 0, w <= v), "lemma"),
        Obl("C17/lemma/no-reversal-no-growth/negative-start", dom + [v < 0, inr(w, lo_n, hi_n)], z3.And(w <= 0, w >= v), "lemma"),
        Obl("C17/lemma/start-remains-admissible/nonnegative", dom + [v >= 0], inr(v, lo_p, hi_p), "lemma"),
        Obl("C17/lemma/start-remains-admissible/negative", dom + [v < 0], inr(v, lo_n, hi_n), "lemma"),
        Obl("C17/lemma/new-bounds-within-old", dom + [v >= 0, inr(w, lo_p, hi_p)], inr(w, lb, ub), "lemma"),
        Obl("C17/lemma/new-bounds-within-old/negative", dom + [v < 0, inr(w, lo_n, hi_n)], inr(w, lb, ub), "lemma"),
    ]
    return out
