"""Small kernels for C19, C20, C12, C16: functions within the verifier's reach in otherwise numpy/pandas-heavy modules."""
import z3
import cobra  # noqa
from .common import *  # noqa
from . import c01_lp as C1
from pyvc.values import VReal, xr_eq, xr_lt

# ---------------------------------------------------------------- C19: flux_analysis/helpers.normalize_cutoff
def _tol(E, name="model"):
    return E.s0.objs[E[name].oid]["attr:tolerance"]


def _nc_cases():
    out = []
    c = Case("none", ensures=lambda E: xr_eq(E.eng.to_real(E.res), _tol(E)))
    c.params_override = {"zero_cutoff": TNone()}
    c.applies = lambda a, st: isinstance(a["zero_cutoff"], VNone)
    out.append(c)
    c = Case("at_least_tolerance", requires=lambda E: z3.Not(xr_lt(E["zero_cutoff"], _tol(E))),
             ensures=lambda E: xr_eq(E.eng.to_real(E.res), E["zero_cutoff"]))
    c.params_override = {"zero_cutoff": TReal()}
    c.applies = lambda a, st: not isinstance(a["zero_cutoff"], VNone)
    out.append(c)
    c = Case("below_tolerance", requires=lambda E: xr_lt(E["zero_cutoff"], _tol(E)), raises="ValueError")
    c.params_override = {"zero_cutoff": TReal()}
    c.applies = lambda a, st: not isinstance(a["zero_cutoff"], VNone)
    out.append(c)
    return out


REG.add(Contract("cobra/flux_analysis/helpers.py", "normalize_cutoff", "C19",
                 [("model", TObj("Model", {"tolerance": TReal()})), ("zero_cutoff", TNone())], _nc_cases(), key="normalize_cutoff",
                 result="real"))


# ---------------------------------------------------------------- C20: summary.Summary._normalize_threshold
def _nt_cases():
    tol = lambda E: E.s0.objs[E["self"].oid]["attr:_tolerance"]  # noqa
    out = []
    c = Case("none", ensures=lambda E: xr_eq(E.eng.to_real(E.res), tol(E)))
    c.params_override = {"threshold": TNone()}
    c.applies = lambda a, st: isinstance(a["threshold"], VNone)
    out.append(c)
    c = Case("given", ensures=lambda E: xr_eq(E.eng.to_real(E.res), VReal(z3.If(xr_lt(E["threshold"], tol(E)), tol(E).k, E["threshold"].k),
                                                                        z3.If(xr_lt(E["threshold"], tol(E)), tol(E).v, E["threshold"].v))))
    c.params_override = {"threshold": TReal()}
    c.applies = lambda a, st: not isinstance(a["threshold"], VNone)
    out.append(c)
    return out


REG.inline.add("Summary.tolerance@getter")
REG.modules.append("cobra/summary/summary.py")
REG.add(Contract("cobra/summary/summary.py", "Summary._normalize_threshold", "C20",
                 [("self", TObj("Summary", {"_tolerance": TReal()})), ("threshold", TNone())], _nt_cases(),
                 key="Summary._normalize_threshold", result="real"))


# ---------------------------------------------------------------- C12: Reaction.copy leaves its operand's model pointers as found
REG.fields.update({"_metabolites": "set:ref:Metabolite", "_genes": "set:ref:Gene", "_model": "ref:Model"})
MR = "cobra/core/reaction.py"


def Hh(E, st, f):
    return E.eng.heap_arr(st, f)


def _rc_pre(E):
    """a reaction is not among its own metabolites / genes (type discipline); nothing is assumed about the members' models:
    they may belong to a model that the reaction itself has been removed from"""
    r = E["self"].t
    return z3.And(z3.Not(Hh(E, E.s0, "_metabolites")[r][r]), z3.Not(Hh(E, E.s0, "_genes")[r][r]))


def _rc_post(E):
    mo0, mo1 = Hh(E, E.s0, "_model"), Hh(E, E.s1, "_model")
    x = qv("px", Ref)
    return z3.And(FA([x], z3.Implies(x != E.res.t, mo1[x] == mo0[x])),          # every model pointer as found (operand unchanged)
                  mo1[E.res.t] == NULL, E.res.t != E["self"].t)                    # the copy is detached and a different object


def deepcopy_result(eng, st, E):
    return st, VRef(fresh("copy", Ref), "Reaction")


# assumed: copy.deepcopy of a reaction whose model pointers are None: a fresh, detached object; nothing else changes
def _dc_post(E):
    mo0, mo1 = Hh(E, E.s0, "_model"), Hh(E, E.s1, "_model")
    x = qv("dx", Ref)
    r = E.res.t
    return z3.And(r != NULL, r != E["x"].t, mo1[r] == NULL, FA([x], z3.Implies(x != r, mo1[x] == mo0[x])),
                  z3.Not(Hh(E, E.s0, "_metabolites")[E["x"].t][r]), z3.Not(Hh(E, E.s0, "_genes")[E["x"].t][r]))


REG.add(Contract("copy.py", "deepcopy", "C12", [("x", TRef("Reaction"))], [Case("any", ensures=_dc_post)], assumed=True,
                 key="deepcopy", result=deepcopy_result, modifies=lambda E: [("heap", "_model")],
                 note="copy.deepcopy(reaction): returns a new object (not among the reaction's metabolites/genes) that is detached when "
                      "the reaction's own model pointer is None; existing objects are not modified"))


def _members(E, x):
    r = E["self"].t
    return z3.Or(Hh(E, E.s0, "_metabolites")[r][x], Hh(E, E.s0, "_genes")[r][x])


def _mm(Lc):
    rec = Lc.st.objs[Lc.var("member_models").oid]
    return rec["len"], rec["cols"][0], rec["cols"][1]


def _mm_ok(E, Lc):
    """member_models lists exactly the metabolites and genes, each with the model it had at entry"""
    n, objs, mods = _mm(Lc)
    mo0 = Hh(E, E.s0, "_model")
    j, x, w = qv("mj"), qv("mx", Ref), qv("mw")
    return z3.And(n >= 0,
                  FA([j], z3.Implies(z3.And(0 <= j, j < n), z3.And(_members(E, objs[j]), mods[j] == mo0[objs[j]])), patterns=[objs[j]]),
                  FA([x], z3.Implies(_members(E, x), z3.Exists([w], z3.And(0 <= w, w < n, objs[w] == x)))))


def _listed_before(Lc, x, t):
    n, objs, mods = _mm(Lc)
    w = qv("lw")
    return z3.Exists([w], z3.And(0 <= w, w < t, objs[w] == x))


def _inv_clear(E, Lc):
    r = E["self"].t
    mo0, mo = Hh(E, E.s0, "_model"), Hh(E, Lc.st, "_model")
    x = qv("ix", Ref)
    return z3.And(_mm_ok(E, Lc), mo[r] == NULL,
                  FA([x], z3.Implies(x != r, mo[x] == z3.If(_listed_before(Lc, x, Lc.i), NULL, mo0[x])), patterns=[mo[x]]))


def _inv_restore(E, Lc):
    r = E["self"].t
    mo0, mo = Hh(E, E.s0, "_model"), Hh(E, Lc.st, "_model")
    c = Lc.var("new_reaction").t
    x = qv("ix", Ref)
    return z3.And(_mm_ok(E, Lc), mo[r] == mo0[r], mo[c] == NULL, c != r, z3.Not(_members(E, c)),
                  FA([x], z3.Implies(z3.And(x != r, x != c),
                                     mo[x] == z3.If(z3.And(_members(E, x), z3.Not(_listed_before(Lc, x, Lc.i))), NULL, mo0[x])), patterns=[mo[x]]))


_loop_mod = lambda E, Lc: [("heap", "_model")]  # noqa

REG.add(Contract(MR, "Reaction.copy", "C12", [("self", TRef("Reaction"))], [Case("any", ensures=_rc_post)], pre=_rc_pre,
                 key="Reaction.copy", result=deepcopy_result, modifies=lambda E: [("heap", "_model")],
                 loops={0: LoopSpec(_inv_clear, _loop_mod), 1: LoopSpec(_inv_restore, _loop_mod)}))


# ---------------------------------------------------------------- C12: Model.__setstate__ (deepcopy / pickle re-attach the members)
# After unpickling / deep-copying, every reaction, gene, metabolite and group of the restored lists points at the restored model
# (the `_model` pointers are blanked by Object.__getstate__), the attributes of the state are installed, and - when a solver came
# with the state - every reaction's solver variables again encode its bounds (infinite bounds do not survive optlang's
# serialisation; range lemma of C01).
from . import c01_lp as C1  # noqa
from pyvc.values import ident_of  # noqa
MMOD = "cobra/core/model.py"
_SS_LISTS = ("reactions", "genes", "metabolites", "groups")


def _ss_state(with_solver):
    def mk(st, name):
        from pyvc.state import alloc_obj
        items = []
        for y, cls in zip(_SS_LISTS, ("Reaction", "Gene", "Metabolite", "Group")):
            st, dl = TDictList(cls).make(st, f"state_{y}")
            items.append((y, dl))
        if with_solver:
            st, sol = TObj("Solver", {}).make(st, "state_solver")
            items.append(("_solver", sol))
        else:
            items.append(("_solver", NONE))
        st, tol = TReal().make(st, "state_tolerance")
        items.append(("_tolerance", tol))
        st, nm = TStr().make(st, "state_name")
        items.append(("name", nm))
        st, o = alloc_obj(st, "dict", {"pure": True, "pyitems": tuple(items)})
        return st, VObj(o.oid, "dict", "dict")
    return mk


def _ss_items(E):
    return dict(E.s0.objs[E["state"].oid]["pyitems"])


def _ss_members_point_here(E, st, upto=None):
    """every element of the (first `upto`) restored lists points at the restored model"""
    me = ident_of(E["self"].oid)
    mo = Hh(E, st, "_model")
    cs = []
    for y in _SS_LISTS[:upto]:
        n, e = L(E.s0, _ss_items(E)[y])
        j = qv("sj")
        cs.append(FA([j], z3.Implies(z3.And(0 <= j, j < n), mo[e[j]] == me), patterns=[mo[e[j]]]))
    return z3.And(*cs)


def _ss_inv_members(E, Lc):
    """inner loop `for x in getattr(self, y, [])` (one source loop, run once per list): what pointed here at loop entry still does,
    and the elements handled so far do"""
    me = ident_of(E["self"].oid)
    mo, mo_in = Hh(E, Lc.st, "_model"), Hh(E, Lc.entry, "_model")
    x, j = qv("ix", Ref), qv("ij")
    return z3.And(FA([x], z3.Implies(mo_in[x] == me, mo[x] == me), patterns=[mo[x]]),
                  FA([j], z3.Implies(z3.And(0 <= j, j < Lc.i), mo[unwrap(Lc.seq.get(Lc.st, j), "ref")] == me)))


def _ss_rxn_ok(E, st, r):
    return C1.range_lemma(E, st, st, r)


def _ss_inv_bounds(E, Lc):
    n, e = L(E.s0, _ss_items(E)["reactions"])
    j = qv("bj")
    return z3.And(_ss_members_point_here(E, Lc.st),
                  FA([j], z3.Implies(z3.And(0 <= j, j < Lc.i), _ss_rxn_ok(E, Lc.st, e[j])), patterns=[e[j]]))


def _ss_post(with_solver):
    def post(E):
        rec = E.s1.objs[E["self"].oid]
        it = _ss_items(E)
        cs = [_ss_members_point_here(E, E.s1)]
        cs.append(z3.BoolVal(all(rec.get("attr:" + k) is v for k, v in it.items() if k != "_tolerance")))   # state installed
        if with_solver:
            n, e = L(E.s0, it["reactions"])
            j = qv("pj")
            cs.append(FA([j], z3.Implies(z3.And(0 <= j, j < n), _ss_rxn_ok(E, E.s1, e[j])), patterns=[e[j]]))
        return z3.And(*cs)
    return post


def _ss_pre(E):
    """the reactions that come with the state are distinct objects with valid bounds (lb <= ub, lb < inf, ub > -inf) and two distinct
    solver variables each"""
    n, e = L(E.s0, _ss_items(E)["reactions"])
    j, j2 = qv("qj"), qv("qj2")
    lbk, lbv = Hh(E, E.s0, "_lower_bound")
    ubk, ubv = Hh(E, E.s0, "_upper_bound")
    from pyvc.values import xr_le
    x = qv("qx", Ref)
    lb, ub = VReal(lbk[x], lbv[x]), VReal(ubk[x], ubv[x])
    y = qv("qy", Ref)
    return z3.And(FA([x], z3.And(xr_le(lb, ub), lb.k != 1, ub.k != -1, C1.vars_distinct(x)), patterns=[lbk[x]]),
                  FA([j], z3.Implies(z3.And(0 <= j, j < n), e[j] != NULL), patterns=[e[j]]),
                  # the solver variables of different reactions are different objects (distinct reaction ids; reverse_id injective)
                  FA([x, y], z3.Implies(x != y, z3.And(C1.fwd(x) != C1.fwd(y), C1.fwd(x) != C1.rev(y), C1.rev(x) != C1.rev(y))),
                     patterns=[z3.MultiPattern(C1.fwd(x), C1.fwd(y)), z3.MultiPattern(C1.fwd(x), C1.rev(y)),
                               z3.MultiPattern(C1.rev(x), C1.rev(y))]))


from . import w_tolerance as WT  # noqa  Model.tolerance@setter: PROVED there (was an assumed contract here until round 5)
_ss_cases = []
for _ws in (True, False):
    _c = Case("with_solver" if _ws else "without_solver", ensures=_ss_post(_ws))
    _c.params_override = {"state": TCustom(_ss_state(_ws))}
    _ss_cases.append(_c)
REG.add(Contract(MMOD, "Model.__setstate__", "C12", [("self", TObj("Model", {})), ("state", TRef("dict"))], _ss_cases,
                 pre=_ss_pre, key="Model.__setstate__",
                 modifies=lambda E: [("heap", "_model"), ("heap", "var_lb"), ("heap", "var_ub"), ("obj", E["self"])],
                 loops={1: LoopSpec(_ss_inv_members, lambda E, Lc: [("heap", "_model")]),
                        2: LoopSpec(_ss_inv_bounds, lambda E, Lc: [("heap", "var_lb"), ("heap", "var_ub")])}))
