"""C09 (kernel) — util.solver.fix_objective_as_constraint, through the opaque algebra.

Proved (data flow): the constraint handed to add_cons_vars_to_problem is
    Constraint(model.objective.expression, name=<fix name>, lb=bound, ub=None)   if model.objective.direction == "max"
    Constraint(model.objective.expression, name=<fix name>, lb=None, ub=bound)   otherwise
with bound = model.slim_optimize(error_value=None) * fraction when no bound is given (else the given bound); an older constraint
of the same name is removed first THROUGH remove_cons_vars_from_problem (i.e. reversibly in a context - the original code removed
it directly from the solver: defect found by the C13 frame check and the C03 bounded driver, repaired in /repo); the bound is
returned.
"""
import z3
import cobra  # noqa
from .common import *  # noqa
from pyvc import npalg as N

MS = "cobra/util/solver.py"


def global_hook(eng, name):
    if name in ("add_cons_vars_to_problem", "remove_cons_vars_from_problem"):
        return VFunc("abstract", name)
    return None


def call_abstract(eng, st, f, pos, kw):
    if f.a not in ("add_cons_vars_to_problem", "remove_cons_vars_from_problem"):
        return None
    tr = st.ghost.get("trace", ())
    return [("ok", st.setghost("trace", tr + ((f.a, tuple(pos), tuple(sorted(kw.items(), key=lambda x: x[0]))),)), NONE)]


def contains_hook(eng, st, cont, item):
    if isinstance(cont, N.VNp):
        return [("ok", st, VBool(N.truthy(N.app("contains", cont, item).t)))]
    return None


def str_call_method(eng, st, recv, name, pos, kw):
    if isinstance(recv, (VStr, VConc)) and name == "format":
        return [("ok", st, N.app("str.format", recv, *pos))]
    return None


HOOKS = chain_hooks({"global": global_hook, "call_abstract": call_abstract, "contains": contains_hook, "call_method": str_call_method},
                    N.HOOKS)


def _bound_term(E):
    m = E["model"].t
    if isinstance(E["bound"], VNone):
        opt = N.term("call(error_value)", N.term("attr.slim_optimize", m), N.lift(NONE))
        return N.term("mul", opt, N.lift(E["fraction"]))
    return N.lift(E["bound"])


def _post(E):
    tr = E.s1.ghost.get("trace", ())
    if len(tr) not in (1, 2) or tr[-1][0] != "add_cons_vars_to_problem":
        return z3.BoolVal(False)
    older = z3.BoolVal(True)
    if len(tr) == 2:
        # an older constraint of the same name is removed through the context-aware helper (reversibly), and only then
        nm0, pos0, kw0 = tr[0]
        if nm0 != "remove_cons_vars_from_problem" or len(pos0) != 2 or not all(isinstance(x, N.VNp) for x in pos0):
            return z3.BoolVal(False)
        m_ = E["model"].t
        name_ = N.term("str.format", N.lift(E["name"]), N.term("attr.name", N.term("attr.objective", m_)))
        older = z3.And(pos0[0].t == m_, pos0[1].t == N.term("getitem", N.term("attr.constraints", m_), name_),
                       N.truthy(N.term("contains", N.term("attr.constraints", m_), name_)))
    _, pos, kw = tr[-1]
    if len(pos) != 2 or not isinstance(pos[1], N.VNp) or not isinstance(pos[0], N.VNp):
        return z3.BoolVal(False)
    m = E["model"].t
    b = _bound_term(E)
    none = N.lift(NONE)
    expr = N.term("attr.expression", N.term("attr.objective", m))
    name = N.term("str.format", N.lift(E["name"]), N.term("attr.name", N.term("attr.objective", m)))
    ctor = N.term("attr.Constraint", N.term("attr.problem", m))
    mk = lambda lb, ub: N.term("call(lb,name,ub)", ctor, expr, lb, name, ub)  # noqa
    is_max = N.truthy(N.term("eq", N.term("attr.direction", N.term("attr.objective", m)), N.lift(VConc("max"))))
    want = z3.If(is_max, mk(b, none), mk(none, b))
    return z3.And(older, pos[0].t == m, pos[1].t == want, N.lift(E.res) == b)


_fr = N.TNp()
_nm = TConc("fixed_objective_{}")


def _cases():
    out = []
    for tag, t in (("bound_from_optimum", TNone()), ("bound_given", N.TNp())):
        c = Case(tag, ensures=_post)
        c.params_override = {"bound": t}
        out.append(c)
    return out


REG.add(Contract(MS, "fix_objective_as_constraint", "C09", [("model", N.TNp()), ("fraction", _fr), ("bound", TNone()), ("name", _nm)],
                 _cases(), key="fix_objective_as_constraint", modifies=lambda E: [("ghost", "trace", lambda st: ())],
                 result=lambda eng, st, E: (st, N.VNp(fresh("np:res", N.NP)))))
