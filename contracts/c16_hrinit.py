"""C16 — HRSampler.__init__ (cobra/sampling/hr_sampler.py): the sampler's index maps reaction -> solver variable, its private model
copy and its documented fields.  The constructor that contracts/c16_samplers.py only ASSUMED (`HRSampler.__init__@samplers`) is verified here
against its real body.

Vocabulary (the sampler `self` is a MATERIALISED object, as in c16_samplers; the argument model and the copy are materialised too)
  COPY        the object `model.copy()` returned (ghost trace `copy_calls`: exactly one call, receiver = the argument, no arguments)
  e[0..n)     COPY.reactions (a well-formed DictList), ve[0..nv) COPY.variables: the solver's variable list as a ghost sequence of
              DISTINCT objects; position_of (z3 function `hr:position_of`) its inverse:  position_of(ve[j]) = j  for j in [0, nv)
  fwd(r), rev(r)   the reaction's optlang variables: what `r.forward_variable` / `r.reverse_variable` return for an attached reaction by
              their PROVED contracts (contracts/c01_lp.py)
  ENTRY(a, i) the integer in position i of the index array `a` = np.array(<python list of ints>): ASSUMED semantics of numpy.array on a
              list of ints (contract `numpy.array@intlist`): same length, entry i = list[i]

PROVED (for every model; no precondition on the arguments - thinning / nproj / seed are arbitrary ints, nproj / seed may be None):
  (1) `model.solver.is_integer` true: TypeError, and NOTHING was done before: no copy made, no attribute of self set.
      Otherwise exactly ONE model.copy(); self.model IS that copy; the argument model is never written (frame condition: every attribute,
      list and index of the argument object is unchanged, no heap field is written) - all later reads (variables, reactions) go to the copy.
  (2) INDEX MAPS.  len(fwd_idx) = len(rev_idx) = n and for every i in [0, n):
          0 <= ENTRY(fwd_idx, i) < nv   and   ve[ENTRY(fwd_idx, i)] = fwd(e[i])      [ENTRY(fwd_idx, i) = position_of(fwd(e[i]))]
          0 <= ENTRY(rev_idx, i) < nv   and   ve[ENTRY(rev_idx, i)] = rev(e[i])      [ENTRY(rev_idx, i) = position_of(rev(e[i]))]
      i.e. entry i is the POSITION, in the solver's variable list, of the i-th reaction's OWN forward / reverse variable - whatever else
      the solver holds and in whatever order.  (The dict comprehension `{v: idx for idx, v in enumerate(variables)}` and the two list
      comprehensions are characterised by the engine's quantified comprehension axioms over the ghost sequences; no KeyError is possible.)
  (3) FIELDS.  feasibility_tol = bounds_tol = model.tolerance (of the ARGUMENT, read before anything else is set); thinning = the argument;
      nproj = the argument, or when None  min(nv**3, 10**6) as an int (nv = number of solver variables of the COPY);  n_samples = 0;
      retries = 0;  warmup = None;  problem = the value of ONE recorded call self.__build_problem() (name-mangled _HRSampler__build_problem;
      made when self.model was already the copy and self.feasibility_tol already model.tolerance - the two fields it reads);
      _seed = seed % (2**31 - 1) when a seed is given, else int(time()) % (2**31 - 1) with time() called exactly once (ghost `clock`):
      the stored value is in [0, 2**31 - 1) and is a function of the given seed only - it is the field optgp._sample_chain
      (proved: np.random.seed((sampler._seed + idx) % (2**31 - 1))) and ACHRSampler.__init__ seed numpy with.
  lemmas()  GLUE with the proved post-conditions of ACHRSampler.sample / OptGPSampler.sample (c16_samplers: the returned frame is
      DataFrame(A[:, fwd_idx] - A[:, rev_idx], columns = [reaction ids in model order])): under the ASSUMED column-selection semantics of
      numpy (`A[:, idx]` has column i = column ENTRY(idx, i) of A; `-` acts entry by entry: axioms in `glue_axioms`, stated over spec
      functions CELL / ENTRY) the value in row k, column i of the frame's data is
          CELL(A, k, position_of(fwd(e[i]))) - CELL(A, k, position_of(rev(e[i])))
      = the sample value of reaction i's own forward variable minus that of its own reverse variable; and the column label i is e[i].id.
      The lemma is built FROM the two post-conditions (the `data == flux_columns(..)` clause of c16_samplers and clause (2) above) on a
      synthetic state, with a vacuity guard (the hypotheses are satisfiable).

  ACHRSampler.__init__ / OptGPSampler.__init__ (hooks HOOKS_SUB / HOOKS_OPT)  `super().__init__(model, thinning, nproj=nproj, seed=seed, **kwargs)` is
      applied by the contract proved above AT THE CALL SITE (its `modifies` creates the attributes, the copy with the assumed facts and the
      ghost traces; the post-condition is then assumed), so clauses (1)-(3) hold for the new ACHR / OptGP sampler with the constructor's own
      arguments (passed on unchanged); generate_fva_warmup() is a RECORDED call (sets warmup / n_warmup or raises ValueError), made exactly
      once, AFTER every HRSampler field exists, and fwd_idx / rev_idx / model / problem / _seed are not written afterwards;
      ACHR: prev = center = warmup.mean(axis=0); np.random.seed called exactly once, with the STORED self._seed (not the raw argument);
      OptGP: processes = the argument, or configuration.processes (opaque) when None; center = shared_np_array((len(self.model.variables),),
      warmup.mean(axis=0)); numpy is NOT seeded by the constructor.  TypeError (integer problem) before anything; ValueError only from the
      one generate_fva_warmup call.

ASSUMED (listed in evidence)
  Model.copy@hrinit   what the copy looks like (the copy ITSELF is proved separately under C12/C13, contracts/c12_model_copy.py; here only its
      shape is needed): a NEW model object; its reaction DictList is well-formed and every reaction in it is attached to a model (so
      forward_variable / reverse_variable are in their `in_model` case); its solver is in step (the C01 invariant L2): fwd(r), rev(r) of
      every reaction r of the copy are members of copy.variables; copy.variables is a sequence of distinct objects (optlang Container).
  numpy.array@intlist   np.array(<list of ints>)[i] = list[i], same length.
  time() returns a float; int() truncates; np.iinfo(np.int32).max = 2**31 - 1 (as in c16_samplers).
  __build_problem is only RECORDED (constraint_matrices / null space: numerics, not proved).

MUTANTS (tools/mutate_and_run.sh cobra/sampling/hr_sampler.py ... contracts.c16_hrinit --hooks HOOKS HRSampler.__init__; each NOT verified)
  M1  the SEEDED change: `fwd_idx = 2 * np.arange(len(self.model.reactions)); rev_idx = self.fwd_idx + 1`     post.1 sat (len), post.2 unknown, post.3 sat
  M2  rev_idx from `r.forward_variable`                                               post.4 (index map of rev_idx) unknown, all four cases
  M3  `enumerate(model.variables)` (the ORIGINAL model's variables)                   undecided: the look-ups var_idx[r.forward_variable] may raise
                                                                                      KeyError (nothing places the copy's variables in the argument's list)
  M4  `self.model = model` (copy dropped)                                             undecided: nothing is known about the argument's reactions / solver
                                                                                      (and post (1) `exactly one copy` is literally false)
  M5  `self.n_samples = 1`                                                            post.8 sat
  M6  `len(self.model.reactions) ** 3` for the nproj default                          post.10 sat (nproj_default cases)
  M7  `self._seed = thinning`                                                         post.15 sat (seed_given cases)
  M8  the `% np.iinfo(np.int32).max` dropped                                          post.13 / post.14 sat (range of the stored seed)
  M9  `self.problem = None`                                                           post sat (shape: problem is not the recorded call's value)
  M10 `enumerate(self.model.variables, 1)` (positions off by one)                     post.2, post.4 unknown, all four cases
  M11 `if not model.solver.is_integer`                                                expected-TypeError sat / unexpected-exception sat
  M12 `self.problem = self.__build_problem()` moved before `self.model = model.copy()`   post.11 sat (the call saw no model)
  M13 `self.bounds_tol = self.model.tolerance` (the copy's, not the argument's)       post.6 sat
  achr.py (ACHRSampler.__init__, HOOKS_SUB)
  A1  `np.random.seed(seed)` (the raw argument)                                       post.18, post.19 sat
  A2  `nproj=None` passed on                                                          post.10 sat (nproj_given cases)
  A3  `self.warmup.mean(axis=1)`                                                      post.16, post.17 sat
  A4  generate_fva_warmup() before super().__init__                                   unexpected AttributeError / ValueError in the TypeError case
  A5  `super().__init__(model, 1, ...)`                                               post.7 sat
  A6  the seeding dropped                                                             post.18, post.19 sat
  optgp.py (OptGPSampler.__init__, HOOKS_OPT)
  O1  `self.processes = 1`                                                            post.16 sat (processes_given cases)
  O2  `(len(self.model.reactions),)` for the shared centre                            post.17 sat / unknown
  O3  `seed=None` passed on                                                           post.15, post.16 sat (seed_given cases)
  O4  `if processes is not None`                                                      post sat (shape of processes)
  O5  nproj / seed swapped in the super call                                          post.10, post.15 sat
"""
import ast
import z3
import cobra  # noqa
from .common import *  # noqa
from . import c15_dictlist  # noqa
from . import c01_lp as C1
from . import c16_samplers as CX
from pyvc import npalg as N
from pyvc import builtins as B
from pyvc.values import VReal

MH = CX.MH
KEY = "HRSampler.__init__"
INT32_MAX = CX.INT32_MAX
POS = z3.Function("hr:position_of", Ref, z3.IntSort())              # inverse of the solver's variable list
ENTRY = z3.Function("hr:entry", N.NP, z3.IntSort(), z3.IntSort())   # ENTRY(a, i): the int in position i of an index array
MILLION = 1000000


def _verifying(eng):
    return getattr(getattr(eng, "cur_contract", None), "key", None) == KEY


def _trace(st, key):
    return st.ghost.get(key, ())


def at(st, obj, name):
    return st.objs[obj.oid].get("attr:" + name)


# ---------------------------------------------------------------- the models
def _arg_model_t():
    return TObj("Model", {"solver": N.TNp(), "tolerance": N.TNp(), "reactions": TDictList("Reaction"), "variables": TList("ref:Variable")})


def _copy_t():
    return TObj("Model", {"solver": N.TNp(), "tolerance": N.TNp(), "reactions": TDictList("Reaction"), "variables": TList("ref:Variable")})


def copy_facts(eng, st, cp):
    """ASSUMED about the object model.copy() returns (contract Model.copy@hrinit)"""
    E = Env({}, st, eng=eng)
    n, e = L(st, at(st, cp, "reactions"))
    nv, ve = L(st, at(st, cp, "variables"))
    i, j = qv("cr"), qv("cv")
    mdl = eng.heap_arr(st, "_model")
    in_list = lambda x: z3.And(0 <= POS(x), POS(x) < nv, ve[POS(x)] == x)          # noqa
    return [WF(E, st, at(st, cp, "reactions")), nv >= 0,
            FA([j], z3.Implies(z3.And(0 <= j, j < nv), POS(ve[j]) == j), patterns=[ve[j]]),            # distinct objects; POS the inverse
            FA([i], z3.Implies(z3.And(0 <= i, i < n), z3.And(mdl[e[i]] != NULL, C1.vars_distinct(e[i]), in_list(C1.fwd(e[i])), in_list(C1.rev(e[i])))),
               patterns=[e[i]])]


REG.add(Contract("cobra/core/model.py", "Model.copy", "C16", [("self", TNone())], [Case("any")], assumed=True, key="Model.copy@hrinit",
                 note="the SHAPE of the object model.copy() returns (the copy itself is proved under C12 / C13): a new Model whose reaction "
                      "DictList is well-formed, whose reactions are attached to a model, whose solver is in step (C01 invariant L2: the "
                      "forward / reverse variable of every reaction is a member of copy.variables) and whose variable container is a "
                      "sequence of distinct objects; the argument is not written"))
REG.add(Contract("numpy", "array", "C16", [("self", TNone())], [Case("any")], assumed=True, key="numpy.array@intlist",
                 note="np.array(<python list of ints>): an integer array of the same length whose entry i is list[i]"))


# ---------------------------------------------------------------- hooks
def global_hook(eng, name):
    if not _verifying(eng):
        return None
    if name in ("time", "int", "min"):
        return VFunc("abstract", "hr:" + name)
    return None


def _trunc(x):
    """int(x) of a real: truncation towards zero"""
    return z3.If(x >= 0, z3.ToInt(x), -z3.ToInt(-x))


def call_abstract(eng, st, f, pos, kw):
    if f.a == "hr:time":
        if pos or kw:
            return None
        c = fresh("clock", z3.RealSort())
        return [("ok", st.setghost("clock", _trace(st, "clock") + (c,)), VReal(z3.IntVal(0), c))]
    if f.a == "hr:int":
        if len(pos) == 1 and not kw and isinstance(pos[0], VReal):
            # a finite float (time(), min(<int>, 1e6)): truncation
            return [("ok", st, VInt(_trunc(pos[0].v)))]
        return B.bi_int(eng, st, pos, kw)
    if f.a == "hr:min":
        if len(pos) == 2 and not kw and isinstance(pos[0], VInt) and isinstance(pos[1], (VReal, VConc)):
            b = eng.to_real(pos[1])
            a = z3.ToReal(pos[0].t)
            if not z3.is_true(z3.simplify(b.k == 0)):
                raise Unsupported("min(int, non-finite)")
            # Python's min returns the FIRST minimal argument; as numbers both are the same value
            return [("ok", st, VReal(z3.IntVal(0), z3.If(b.v < a, b.v, a)))]
        return B.BUILTINS["min"](eng, st, pos, kw)
    if f.a == "numpy.array":
        lst = pos[0] if len(pos) == 1 and not kw else None
        rec = st.objs[lst.oid] if isinstance(lst, VObj) and lst.kind == "list" else None
        if rec is not None and "elem" in rec and rec["elem"].sort().range() == z3.IntSort():
            from pyvc.apply import ASSUMED_USED
            ASSUMED_USED["numpy.array@intlist"] = REG.get("numpy.array@intlist").note
            arr = fresh("np:index_array", N.NP)
            j = qv("aj")
            st = st.assume(N.np_len(arr) == rec["len"],
                           FA([j], z3.Implies(z3.And(0 <= j, j < rec["len"]), ENTRY(arr, j) == rec["elem"][j]), patterns=[ENTRY(arr, j)]))
            return [("ok", st, N.VNp(arr))]
        return N.call_npfunc(eng, st, VFunc("npfunc", "numpy.array"), pos, kw)
    return None


def getattr_hook(eng, st, v, name):
    if _verifying(eng) and isinstance(v, VConc) and isinstance(v.py, tuple) and v.py[0] == "module" and v.py[1] == "numpy" and name == "array":
        return [("ok", st, VFunc("abstract", "numpy.array"))]
    if _verifying(eng) and isinstance(v, VObj) and v.cls in ("HRSampler", "ACHRSampler", "OptGPSampler") and name == "__build_problem":
        return [("ok", st, VFunc("bound", v, name))]          # the private method: its call is recorded (call_method hook)
    return CX.c_getattr(eng, st, v, name)              # np.iinfo(np.int32).max


def binop_hook(eng, st, op, a, b):
    if _verifying(eng) and isinstance(op, ast.Pow) and isinstance(a, VInt) and isinstance(b, (VInt, VConc)):
        k = b.py if isinstance(b, VConc) else (z3.simplify(b.t).as_long() if z3.is_int_value(z3.simplify(b.t)) else None)
        if k == 3:
            return [("ok", st, VInt(a.t * a.t * a.t))]
    return None


def call_method_hook(eng, st, recv, name, pos, kw):
    if not _verifying(eng):
        return None
    if isinstance(recv, VObj) and recv.cls == "Model" and name == "copy":
        from pyvc.apply import ASSUMED_USED
        ASSUMED_USED["Model.copy@hrinit"] = REG.get("Model.copy@hrinit").note
        st, cp = _copy_t().make(st, fresh_name("model_copy"))
        st = st.assume(*copy_facts(eng, st, cp))
        call = {"recv": recv, "pos": tuple(pos), "kw": dict(kw), "res": cp}
        return [("ok", st.setghost("copy_calls", _trace(st, "copy_calls") + (call,)), cp)]
    if isinstance(recv, VObj) and recv.cls in ("HRSampler", "ACHRSampler", "OptGPSampler") and name == "__build_problem":
        res = N.VNp(fresh("np:problem", N.NP))
        call = {"recv": recv, "pos": tuple(pos), "kw": dict(kw), "res": res, "model": at(st, recv, "model"),
                "feasibility_tol": at(st, recv, "feasibility_tol")}
        return [("ok", st.setghost("bp_calls", _trace(st, "bp_calls") + (call,)), res)]
    return None


def c_call_abstract(eng, st, f, pos, kw):
    if f.a == "numpy.iinfo":
        return CX.c_call_abstract(eng, st, f, pos, kw)
    return None


HOOKS = chain_hooks({"global": global_hook, "call_abstract": call_abstract, "getattr": getattr_hook, "binop": binop_hook,
                     "call_method": call_method_hook}, {"call_abstract": c_call_abstract}, N.HOOKS)


# ---------------------------------------------------------------- specification
def is_integer(E):
    return N.truthy(N.term("attr.is_integer", at(E.s0, E["model"], "solver").t))


def index_map(st, cp, arr, which):
    """entry i of `arr` is the position of reaction i's own forward / reverse variable in the variable list of the copy"""
    n, e = L(st, at(st, cp, "reactions"))
    nv, ve = L(st, at(st, cp, "variables"))
    i = qv("ix")
    x = which(e[i])
    return z3.And(N.np_len(arr) == n,
                  FA([i], z3.Implies(z3.And(0 <= i, i < n),
                                     z3.And(0 <= ENTRY(arr, i), ENTRY(arr, i) < nv, ve[ENTRY(arr, i)] == x, ENTRY(arr, i) == POS(x))),
                     patterns=[ENTRY(arr, i)]))


def pymod(x, y):
    return x - y * (x / y)


def _post(nproj_given, seed_given, fresh_object=True):
    """fresh_object: the post-condition of HRSampler.__init__ itself (warmup is None); False: the same clauses read off a sampler whose
    subclass constructor has already produced the warmup points"""
    def post(E):
        me, s0, s1 = E["self"], E.s0, E.s1
        copies, bps, clock = _trace(s1, "copy_calls"), _trace(s1, "bp_calls"), _trace(s1, "clock")
        # (1) one copy of the argument; self.model is that copy
        if not (len(copies) == 1 and copies[0]["recv"] is E["model"] and not copies[0]["pos"] and not copies[0]["kw"]):
            return z3.BoolVal(False)
        cp = copies[0]["res"]
        get = lambda k: at(s1, me, k)                                                       # noqa
        shapes = (get("model") is cp and all(isinstance(get(k), N.VNp) for k in ("feasibility_tol", "bounds_tol", "fwd_idx", "rev_idx", "problem"))
                  and all(isinstance(get(k), VInt) for k in ("thinning", "nproj", "n_samples", "retries", "_seed"))
                  and (isinstance(get("warmup"), VNone) or not fresh_object))
        if not shapes:
            return z3.BoolVal(False)
        tol = at(s0, E["model"], "tolerance").t
        nv = L(s1, at(s1, cp, "variables"))[0]
        cs = [index_map(s1, cp, get("fwd_idx").t, C1.fwd),                                   # (2)
              index_map(s1, cp, get("rev_idx").t, C1.rev),
              get("feasibility_tol").t == tol, get("bounds_tol").t == tol,                   # (3)
              get("thinning").t == E["thinning"].t,
              get("n_samples").t == 0, get("retries").t == 0]
        if nproj_given:
            cs.append(get("nproj").t == E["nproj"].t)
        else:
            cube = nv * nv * nv
            cs.append(get("nproj").t == z3.If(cube < MILLION, cube, z3.IntVal(MILLION)))
        # self.problem = self.__build_problem(): one recorded call, made when the fields it reads were already set
        ok = (len(bps) == 1 and bps[0]["recv"] is me and not bps[0]["pos"] and not bps[0]["kw"] and bps[0]["model"] is cp
              and isinstance(bps[0]["feasibility_tol"], N.VNp))
        cs.append(z3.BoolVal(bool(ok)))
        if ok:
            cs += [get("problem").t == bps[0]["res"].t, bps[0]["feasibility_tol"].t == tol]
        # the seed
        sd = get("_seed").t
        cs += [0 <= sd, sd < INT32_MAX]
        if seed_given:
            cs += [z3.BoolVal(len(clock) == 0), sd == pymod(E["seed"].t, z3.IntVal(INT32_MAX))]
        else:
            cs.append(z3.BoolVal(len(clock) == 1))
            if len(clock) == 1:
                cs.append(sd == pymod(_trunc(clock[0]), z3.IntVal(INT32_MAX)))
        return z3.And(*cs)
    return post


def _raise_post(E):
    # nothing was done: no copy, no attribute of self
    me = E.s1.objs[E["self"].oid]
    return z3.BoolVal(not _trace(E.s1, "copy_calls") and not _trace(E.s1, "bp_calls") and not any(k.startswith("attr:") for k in me))


def _cases():
    out = []
    for ng in (False, True):
        for sg in (False, True):
            c = Case(("nproj_given" if ng else "nproj_default") + "/" + ("seed_given" if sg else "seed_from_clock"),
                     requires=lambda E: z3.Not(is_integer(E)), ensures=_post(ng, sg))
            c.params_override = {"nproj": TInt() if ng else TNone(), "seed": TInt() if sg else TNone()}
            c.applies = (lambda a, st, ng=ng, sg=sg: isinstance(a["nproj"], VNone) != ng and isinstance(a["seed"], VNone) != sg)
            c.domain = lambda E: z3.Not(is_integer(E))       # the complement is the case `integer_problem` (its own parameter group)
            out.append(c)
    r = Case("integer_problem", requires=is_integer, ensures=_raise_post, raises="TypeError")
    r.domain = is_integer
    out.append(r)
    return out


NP_FIELDS = ("feasibility_tol", "bounds_tol", "fwd_idx", "rev_idx", "problem")
INT_FIELDS = ("thinning", "nproj", "n_samples", "retries", "_seed")


def _mk_copy(eng):
    def mk(st):
        st, cp = _copy_t().make(st, fresh_name("model_copy"))
        return st.assume(*copy_facts(eng, st, cp)), cp
    return mk


def _mod(E):
    """the attributes the constructor creates (at a call site: created with arbitrary values of the right shape, the post-condition then
    says what they are; the copy comes with the assumed facts of Model.copy@hrinit, as in the body), and the ghost traces"""
    me = E["self"]
    locs = [("attr", me, "model", _mk_copy(E.eng))]
    locs += [("attr", me, k, (lambda k: lambda st: (st, N.VNp(fresh("np:" + k, N.NP))))(k)) for k in NP_FIELDS]
    locs += [("attr", me, k, (lambda k: lambda st: (st, VInt(fresh(k, z3.IntSort()))))(k)) for k in INT_FIELDS]
    locs.append(("attr", me, "warmup", lambda st: (st, NONE)))
    # ghost traces as the body leaves them, built from the attributes just created
    locs.append(("ghost", "copy_calls", lambda st: ({"recv": E["model"], "pos": (), "kw": {}, "res": at(st, me, "model")},)))
    locs.append(("ghost", "bp_calls", lambda st: ({"recv": me, "pos": (), "kw": {}, "res": at(st, me, "problem"), "model": at(st, me, "model"),
                                                    "feasibility_tol": at(st, me, "feasibility_tol")},)))
    locs.append(("ghost", "clock", lambda st: () if not isinstance(E["seed"], VNone) else (fresh("clock", z3.RealSort()),)))
    return locs


def _kwargs_t():
    t = TConc({"__kwargs__": True})
    t.default = VConc({"__kwargs__": True})
    return t


_none = TNone()
_none.default = NONE
_none2 = TNone()
_none2.default = NONE
REG.add(Contract(MH, "HRSampler.__init__", "C16",
                 [("self", TObj("HRSampler", {})), ("model", _arg_model_t()), ("thinning", TInt()), ("nproj", _none), ("seed", _none2),
                  ("**kwargs", _kwargs_t())],
                 _cases(), modifies=_mod, key=KEY,
                 note="no precondition on the arguments; the shape of model.copy() by the assumed contract Model.copy@hrinit, np.array of a list of "
                      "ints by numpy.array@intlist; __build_problem is a recorded call"))


# ================================================================ glue: the constructor's index maps + the samplers' frame
CELL = z3.Function("hr:cell", N.NP, z3.IntSort(), z3.IntSort(), z3.RealSort())     # CELL(A, k, i): the number in row k, column i of A


def glue_axioms(A, F, R, k, i):
    """ASSUMED numpy semantics, as ground instances for the row k / column i under consideration: `A[:, idx]` has as column i the
    column ENTRY(idx, i) of A; `X - Y` acts entry by entry"""
    selF, selR = N.term("getitem", A, N.term("tuple", CX.FULL, F)), N.term("getitem", A, N.term("tuple", CX.FULL, R))
    return [CELL(selF, k, i) == CELL(A, k, ENTRY(F, i)), CELL(selR, k, i) == CELL(A, k, ENTRY(R, i)),
            CELL(N.term("sub", selF, selR), k, i) == CELL(selF, k, i) - CELL(selR, k, i)]


def _check_hyps(name, hyps):
    """guard against vacuous lemmas: no hypothesis is literally False and together they are not refutable"""
    if any(z3.is_false(z3.simplify(h)) for h in hyps):
        raise AssertionError(f"lemma {name}: a hypothesis is literally False (the post-conditions do not fit the synthetic shape)")
    s = z3.Solver()
    s.set("timeout", 3000)
    s.add(*hyps)
    if s.check() == z3.unsat:
        raise AssertionError(f"lemma {name}: the hypotheses are contradictory (vacuous lemma)")


def lemmas():
    """column i of the frame ACHRSampler.sample / OptGPSampler.sample (serial) returns = the sample value of reaction i's own forward
    variable minus that of its own reverse variable, and is labelled with reaction i's id - from the POST-CONDITION proved above
    (evaluated on a synthetic pair of states: before / after the constructor) and the POST-CONDITIONS of the two sample methods
    (c16_samplers, evaluated on the state the sampler is in later: warmup / center / prev / n_samples / retries arbitrary, fwd_idx / rev_idx /
    model AS THE CONSTRUCTOR LEFT THEM - that no method in between writes these three is a hypothesis: the subclass constructors set
    warmup / center / prev only)"""
    from pyvc.engine import Engine, Obl
    from pyvc.state import State
    out = []
    for cls, post_of, tag in (("ACHRSampler", CX._sample_post, "achr"), ("OptGPSampler", CX._osample_post, "optgp-serial")):
        eng = Engine(REG)
        st = State()
        st, arg = _arg_model_t().make(st, "g_model")
        st, me = TObj(cls, {}).make(st, "g_self")
        th, sd = VInt(z3.Int("g_thinning")), VInt(z3.Int("g_seed"))
        a1 = {"self": me, "model": arg, "thinning": th, "nproj": NONE, "seed": sd}
        s0 = st
        # ---- the state the constructor leaves (shape as its post-condition demands), by its post-condition
        s1, cp = _copy_t().make(s0, "g_copy")
        F, R, prob, tol = (z3.Const("g_" + k, N.NP) for k in ("fwd_idx", "rev_idx", "problem", "tol"))
        s1 = s1.updobj(me.oid, **{"attr:model": cp, "attr:feasibility_tol": N.VNp(tol), "attr:bounds_tol": N.VNp(tol), "attr:fwd_idx": N.VNp(F),
                                   "attr:rev_idx": N.VNp(R), "attr:problem": N.VNp(prob), "attr:thinning": th, "attr:nproj": VInt(z3.Int("g_nproj")),
                                   "attr:n_samples": VInt(z3.Int("g_ns")), "attr:retries": VInt(z3.Int("g_retries")),
                                   "attr:_seed": VInt(z3.Int("g__seed")), "attr:warmup": NONE})
        s1 = s1.setghost("copy_calls", ({"recv": arg, "pos": (), "kw": {}, "res": cp},)) \
            .setghost("bp_calls", ({"recv": me, "pos": (), "kw": {}, "res": N.VNp(prob), "model": cp, "feasibility_tol": N.VNp(tol)},))
        ctor = _post(False, True)(Env(a1, s0, s1, eng=eng, role="goal"))
        facts = copy_facts(eng, s1, cp)
        # ---- later: the sampler at the entry of sample(n, fluxes=True)
        upd = {"attr:" + k: N.VNp(z3.Const("g2_" + k, N.NP)) for k in ("warmup", "center", "prev", "np")}
        upd.update({"attr:" + k: VInt(z3.Int("g2_" + k)) for k in ("n_samples", "retries", "n_warmup", "processes")})
        t0 = s1.updobj(me.oid, **upd).setghost("the_sampler", me)
        n = VInt(z3.Int("g_n"))
        a2 = {"self": me, "n": n, "fluxes": VBool(True)}
        A = (CX.samples_array if cls == "ACHRSampler" else CX.chain_array)(n.t, at(t0, me, "warmup" if cls == "ACHRSampler" else "center").t)
        D, res = z3.Const("g_data", N.NP), N.VNp(z3.Const("g_frame", N.NP))
        from pyvc.state import alloc_list
        n_r, e_r = L(t0, at(t0, cp, "reactions"))
        t1, cols = alloc_list(t0, "id", base="g_cols")
        t1 = t1.setghost("df_calls", ({"data": N.VNp(D), "columns": cols, "state": t1, "res": res, "extra": [], "npos": 1},))
        upd1 = {"attr:n_samples": VInt(z3.Int("g3_n_samples")), "attr:center": N.VNp(z3.Const("g3_center", N.NP))}
        if cls == "OptGPSampler":
            t1 = t1.setghost("chain_calls", ({"pos": (VTuple((n, VInt(0))),), "kw": {}, "res": NONE},)).setghost(("global", "sampler"), me)
        t1 = t1.updobj(me.oid, **upd1)
        smp = post_of(True)(Env(a2, t0, t1, res=res, eng=eng, role="goal"))
        i0, k0 = z3.Int("g_column"), z3.Int("g_row")
        hyps = eng.kind_axioms(s0) + facts + [ctor, smp, 0 <= i0, i0 < n_r] + glue_axioms(A, F, R, k0, i0)
        name = f"C16/lemma/{tag}/column-i-is-forward-minus-reverse-of-reaction-i"
        _check_hyps(name, hyps)
        nv, ve = L(t0, at(t0, cp, "variables"))
        pf, pr = POS(C1.fwd(e_r[i0])), POS(C1.rev(e_r[i0]))
        rec = t1.objs[cols.oid]
        out.append(Obl(name, hyps, CELL(D, k0, i0) == CELL(A, k0, pf) - CELL(A, k0, pr), "lemma"))
        out.append(Obl(f"C16/lemma/{tag}/these-are-the-positions-of-two-different-solver-variables", hyps,
                       z3.And(0 <= pf, pf < nv, ve[pf] == C1.fwd(e_r[i0]), 0 <= pr, pr < nv, ve[pr] == C1.rev(e_r[i0]), pf != pr), "lemma"))
        if cls == "ACHRSampler":
            # what the dispatcher sampling.sample ASSUMES about a freshly constructed sampler (contract HRSampler.__init__@samplers in
            # c16_samplers: thinning = the argument, n_samples = 0, the model a private copy with a well-formed reaction DictList,
            # nproj >= 1) follows from the constructor's proved post-condition - nproj >= 1 for the default provided the solver holds a variable
            Ec = Env({}, s1, eng=eng)
            out.append(Obl("C16/lemma/dispatch/what-sampling.sample-assumes-of-a-new-sampler-follows-from-the-constructor", eng.kind_axioms(s0) + facts + [ctor],
                           z3.And(at(s1, me, "thinning").t == th.t, at(s1, me, "n_samples").t == 0, WF(Ec, s1, at(s1, cp, "reactions")),
                                  z3.BoolVal(at(s1, me, "model") is cp and cp.oid != arg.oid),
                                  z3.Implies(nv >= 1, at(s1, me, "nproj").t >= 1)), "lemma"))
        out.append(Obl(f"C16/lemma/{tag}/column-i-is-labelled-with-the-id-of-reaction-i", hyps,
                       z3.And(rec["len"] == n_r, rec["elem"][i0] == eng.heap_arr(t0, "_id")[e_r[i0]]), "lemma"))
    return out


# ================================================================ the subclass constructors: HRSampler.__init__ by its PROVED contract + warmup
SUB_KEYS = ("ACHRSampler.__init__", "OptGPSampler.__init__")


def _verifying_sub(eng):
    return getattr(getattr(eng, "cur_contract", None), "key", None) in SUB_KEYS


def sub_getattr(eng, st, v, name):
    if _verifying_sub(eng) and isinstance(v, VObj) and v.cls in ("ACHRSampler", "OptGPSampler") and name == "generate_fva_warmup":
        return [("ok", st, VFunc("bound", v, name))]
    return None


def sub_call_method(eng, st, recv, name, pos, kw):
    if _verifying_sub(eng) and isinstance(recv, VObj) and recv.cls in ("ACHRSampler", "OptGPSampler") and name == "generate_fva_warmup":
        # RECORDED (LP solves: not proved): sets self.warmup / self.n_warmup; ValueError for a model that cannot be sampled
        call = {"recv": recv, "pos": tuple(pos), "kw": dict(kw), "fields": st.objs[recv.oid]}
        s2 = st.setghost("warmup_calls", _trace(st, "warmup_calls") + (call,))
        ok = s2.updobj(recv.oid, **{"attr:warmup": N.VNp(fresh("np:warmup", N.NP)), "attr:n_warmup": VInt(fresh("n_warmup", z3.IntSort()))})
        return [("ok", ok, NONE), ("raise", s2, VExc("ValueError"))]
    return None


def sub_call_abstract(eng, st, f, pos, kw):
    if f.a == "numpy.random.seed":
        return CX.c_call_abstract(eng, st, f, pos, kw)
    return None


HOOKS_SUB = chain_hooks({"getattr": sub_getattr, "call_method": sub_call_method, "call_abstract": sub_call_abstract}, HOOKS)


def warm_mean(w):
    """warmup.mean(axis=0)"""
    return N.term("call(axis)", N.term("attr.mean", w), N.of_int(0))


def _achr_post(ng, sg):
    base = _post(ng, sg, fresh_object=False)

    def post(E):
        me, s1 = E["self"], E.s1
        b = base(E)
        if z3.is_false(b):
            return b
        wc = _trace(s1, "warmup_calls")
        w, prev, center = at(s1, me, "warmup"), at(s1, me, "prev"), at(s1, me, "center")
        # ONE generate_fva_warmup(), on self, AFTER HRSampler.__init__ finished (all its fields were there; the index maps are what the
        # warmup objectives are built from)
        ok = (len(wc) == 1 and wc[0]["recv"] is me and not wc[0]["pos"] and not wc[0]["kw"]
              and all("attr:" + k in wc[0]["fields"] for k in NP_FIELDS + INT_FIELDS + ("model",))
              and all(wc[0]["fields"]["attr:" + k] is at(s1, me, k) for k in ("fwd_idx", "rev_idx", "model", "problem", "_seed"))
              and isinstance(w, N.VNp) and isinstance(prev, N.VNp) and isinstance(center, N.VNp))
        if not ok:
            return z3.BoolVal(False)
        seed = s1.ghost.get("rng_seed")
        return z3.And(b, prev.t == warm_mean(w.t), center.t == warm_mean(w.t),                      # start = centre = mean of the warmup points
                      z3.BoolVal(seed is not None and not s1.ghost.get("rng_bad")),                 # numpy seeded exactly once ...
                      (seed == at(s1, me, "_seed").t) if seed is not None else z3.BoolVal(False))   # ... with the STORED seed
    return post


def _sub_cases(post_of, exc="ValueError"):
    out = []
    for ng in (False, True):
        for sg in (False, True):
            c = Case(("nproj_given" if ng else "nproj_default") + "/" + ("seed_given" if sg else "seed_from_clock"),
                     requires=lambda E: z3.Not(is_integer(E)), ensures=post_of(ng, sg))
            c.params_override = {"nproj": TInt() if ng else TNone(), "seed": TInt() if sg else TNone()}
            c.domain = lambda E: z3.Not(is_integer(E))
            c.may_raise = exc                                 # generate_fva_warmup gives up on a model that cannot be sampled
            c.ensures_on_raise = lambda E: z3.BoolVal(len(_trace(E.s1, "warmup_calls")) == 1)     # only there
            c.modifies_on_raise = _sub_mod
            out.append(c)
    r = Case("integer_problem", requires=is_integer, raises="TypeError",
             ensures=lambda E: z3.BoolVal(not _trace(E.s1, "warmup_calls") and _raise_post(E) is not None and z3.is_true(_raise_post(E))))
    r.domain = is_integer
    out.append(r)
    return out


def _sub_mod(E):
    return [("obj", E["self"])] + [("ghost", k, lambda st: ()) for k in ("copy_calls", "bp_calls", "clock", "warmup_calls")] + \
        [("ghost", "rng_seed", lambda st: fresh("rng_seed", z3.IntSort())), ("ghost", "rng_bad", lambda st: None), ("ghost", "rng_drawn", lambda st: None)]


_th = TInt()
_th.default = VInt(100)
_n3, _n4 = TNone(), TNone()
_n3.default = NONE
_n4.default = NONE
REG.add(Contract(CX.MA, "ACHRSampler.__init__", "C16",
                 [("self", TObj("ACHRSampler", {})), ("model", _arg_model_t()), ("thinning", _th), ("nproj", _n3), ("seed", _n4),
                  ("**kwargs", _kwargs_t())],
                 _sub_cases(_achr_post), modifies=_sub_mod, key="ACHRSampler.__init__",
                 note="super().__init__ by the PROVED contract of HRSampler.__init__ (applied at the call site); generate_fva_warmup is a recorded "
                      "call that sets warmup / n_warmup or raises ValueError"))


# ---------------------------------------------------------------- OptGPSampler.__init__
CONFIG = z3.Const("np:cobra.Configuration()", N.NP)          # the module global `configuration` of cobra.sampling.optgp (opaque)


def o_global(eng, name):
    if getattr(getattr(eng, "cur_contract", None), "key", None) != "OptGPSampler.__init__":
        return None
    if name == "configuration":
        return N.VNp(CONFIG)
    if name == "shared_np_array":
        return VFunc("abstract", "shared_np_array")
    return None


def o_call_abstract(eng, st, f, pos, kw):
    if f.a == "shared_np_array" and len(pos) == 2 and not kw:
        return [("ok", st, N.app("shared_np_array", *pos))]          # a copy of the data in shared memory: opaque
    return None


HOOKS_OPT = chain_hooks({"global": o_global, "call_abstract": o_call_abstract}, HOOKS_SUB)


def _optgp_post(pg):
    def of(ng, sg):
        base = _post(ng, sg, fresh_object=False)

        def post(E):
            me, s1 = E["self"], E.s1
            b = base(E)
            if z3.is_false(b):
                return b
            wc = _trace(s1, "warmup_calls")
            w, center, procs = at(s1, me, "warmup"), at(s1, me, "center"), at(s1, me, "processes")
            ok = (len(wc) == 1 and wc[0]["recv"] is me and not wc[0]["pos"] and not wc[0]["kw"]
                  and all("attr:" + k in wc[0]["fields"] for k in NP_FIELDS + INT_FIELDS + ("model",))
                  and all(wc[0]["fields"]["attr:" + k] is at(s1, me, k) for k in ("fwd_idx", "rev_idx", "model", "problem", "_seed"))
                  and isinstance(w, N.VNp) and isinstance(center, N.VNp) and isinstance(procs, VInt if pg else N.VNp)
                  and s1.ghost.get("rng_seed") is None)         # the constructor does NOT seed numpy: every chain seeds itself (_sample_chain)
            if not ok:
                return z3.BoolVal(False)
            nv = L(s1, at(s1, at(s1, me, "model"), "variables"))[0]
            return z3.And(b, procs.t == (E["processes"].t if pg else N.term("attr.processes", CONFIG)),
                          center.t == N.term("shared_np_array", N.term("tuple", N.of_int(nv)), warm_mean(w.t)))
        return post
    return of


def _optgp_cases():
    out = []
    for pg in (False, True):
        for c in _sub_cases(_optgp_post(pg)):
            if c.raises is not None and pg:
                continue                                   # the TypeError case does not depend on `processes`: listed once
            if c.raises is None:
                c.name = c.name + "/" + ("processes_given" if pg else "processes_from_configuration")
                c.params_override = dict(c.params_override, processes=TInt() if pg else TNone())
                c.modifies_on_raise = _optgp_mod
            out.append(c)
    return out


def _optgp_mod(E):
    return [loc for loc in _sub_mod(E) if loc[1] not in ("rng_seed", "rng_bad", "rng_drawn")]


_th2 = TInt()
_th2.default = VInt(100)
_n5, _n6, _n7 = TNone(), TNone(), TNone()
_n5.default = _n6.default = _n7.default = NONE
REG.add(Contract(CX.MO, "OptGPSampler.__init__", "C16",
                 [("self", TObj("OptGPSampler", {})), ("model", _arg_model_t()), ("thinning", _th2), ("processes", _n5), ("nproj", _n6),
                  ("seed", _n7), ("**kwargs", _kwargs_t())],
                 _optgp_cases(), modifies=_optgp_mod, key="OptGPSampler.__init__",
                 note="as ACHRSampler.__init__; `configuration.processes` and shared_np_array are opaque"))
