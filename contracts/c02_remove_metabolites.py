"""C02 — Model.remove_metabolites(metabolite_list, destructive) with NO context open.

Documented: "Remove a list of metabolites from the the object. ... destructive: If False then the metabolite is removed from all
associated reactions.  If True then all associated reactions are removed from the Model."

Shape of the objects: the model `self` is MATERIALISED (model.metabolites, model.groups are DictLists with the C15 contracts);
metabolites, reactions, groups are symbolic references whose fields live in the heap (`_id`, `_model`, `_reaction` : set,
`_members` : set).  Ghost state:
  stoich = (S_dom, S_val)   S_dom[r][x] <=> x is a key of r._metabolites, S_val[r][x] its coefficient (what `r._metabolites[x]` reads);
  rm_calls[r]               how often r.remove_from_model() was called (Reaction.remove_from_model is PROVED in c02_rename to make
                            exactly the call model.remove_reactions([r], remove_orphans=False) on r's own model);
  rm_trace                  the calls self.remove_cons_vars(<list>) with a snapshot of the list;
  mass_balance(k)           the constraint `self.solver.constraints[k]` (uninterpreted function of the name).
With "handled" = the listed metabolites whose identifier is in model.metabolites at entry, PROVED for lists, models, groups and
reaction sets of any size (the two values of `destructive` are two cases; the argument is a list, or ONE metabolite that the function
wraps itself):
  * model.metabolites is well formed again; every remaining key was a key before and still finds the same object; the keys that are
    gone are exactly the identifiers of the handled metabolites; the remaining metabolites keep their relative order
    (DictList.__isub__ by its C15 contract, whose precondition - every handled metabolite is found, none twice - is proved);
  * `_model` of every handled metabolite is None;
  * exactly one call self.remove_cons_vars(L) is made and L holds the mass-balance constraints mass_balance(id) of the handled
    metabolites: every element of L is one of them, every one of them is an element of L;
  * groups: afterwards no group of model.groups contains a handled metabolite; apart from that nothing is added to any group and
    nothing else is removed from any group (destructive: except the entries of the removed reactions, see below) - through
    Model.get_associated_groups and Group.remove_members by their proved contracts (c02_xref);
  * a listed metabolite whose identifier is not in the model is not touched; no identifier changes (frame);
  * destructive=False: every reaction r that listed a handled metabolite x at entry (r in x._reaction; a copy of the set is
    iterated, in any enumeration order) is sent r.subtract_metabolites({x: <the coefficient r._metabolites[x] read just before>}) -
    a call that is modelled by its ASSUMED effect, not counted - so that afterwards x is no key of r._metabolites and x._reaction is
    EMPTY; no other entry of any `_metabolites` dictionary and no other object's reaction set changes; no `_model` pointer other
    than those of the handled metabolites changes; no reaction is removed (rm_calls stays 0 everywhere);
  * destructive=True: r.remove_from_model() is called EXACTLY ONCE for every reaction r that listed some handled metabolite at entry
    and for nothing else (a reaction shared by two handled metabolites is not handed over twice: by the assumed effect it has left
    the second metabolite's reaction set); `_model` pointers change only for the handled metabolites and those reactions (None);
    `_reaction` sets lose exactly those reactions; no `_metabolites` dictionary changes.
STATED precondition: no context open (the undo registrations are NOT covered); model.metabolites and model.groups well formed; the
  argument holds pairwise different objects, none None; a listed metabolite whose identifier is in the model IS the model's
  metabolite of that identifier (otherwise DictList.__isub__ raises ValueError after the loop has run: outside the contract);
  destructive=False: cross-reference consistency for the listed metabolites - a reaction in x._reaction has x among the keys of its
  `_metabolites` (so that `the_reaction._metabolites[x]` cannot raise KeyError: proved as a side obligation under this precondition);
  solver in step (C01): `self.solver.constraints[m.id]` finds a constraint for every metabolite of the model (KeyError not modelled).
ASSUMED callee contracts (abstract, external to this function; each is the documented behaviour):
  * Reaction.subtract_metabolites({x: c}) (combine=True): the coefficient of x in r becomes old - c; if that is 0, x leaves
    r._metabolites and r leaves x._reaction (Reaction.add_metabolites: "If the final coefficient for a metabolite is 0 then it is
    removed from the reaction"), otherwise x stays / becomes a key with the new coefficient and r is in x._reaction; nothing else in any
    `_metabolites` dictionary, reaction set, model pointer or group changes;
  * Reaction.remove_from_model() (= Model.remove_reactions([r]), remove_orphans=False): r._model becomes None, r leaves the reaction
    set of EVERY object (metabolites and genes: "removes all associations between a reaction the associated model, metabolites and
    genes"), the only entries of member sets of groups that may change are those FOR r (removed, never added); no `_metabolites`
    dictionary, no identifier, no other model pointer changes; model.metabolites and model.groups (the lists) do not change;
  * Model.remove_cons_vars: a recorded call (C03 proves remove_cons_vars_from_problem).
NOT covered: an open context (the undo registrations of this function), lists that name the same object twice, a foreign object
  with the identifier of a metabolite of the model, what subtract_metabolites / remove_reactions do inside (solver side: C01).
Engine: NO change of pyvc (an EMPTY list produced by an unrolled comprehension has the engine's default element kind int; the
  call_method hook gives it the kind Metabolite before DictList.__isub__ is applied by its contract).
Wiring: key KEYS = ["Model.remove_metabolites"], hook table HOOKS.
"""
import z3
import cobra  # noqa
from .common import *  # noqa
from . import c15_dictlist as C15  # noqa
from . import c02_xref  # noqa  (Group.remove_members, Model.get_associated_groups: proved there)
from . import c03_context as C3
from pyvc.values import ident_of, Value

MM = "cobra/core/model.py"
REG.fields.update({"_reaction": "set:ref:Reaction", "_model": "ref:Model", "_members": "set:ref:Object"})
REG.classes.setdefault("Group", ["Object"])
REG.classes.setdefault("Constraint", [])
REG.classes.setdefault("Container", [])
I_ = z3.IntSort()
RefBoolMat = z3.ArraySort(Ref, z3.ArraySort(Ref, z3.BoolSort()))
RefRealMat = z3.ArraySort(Ref, z3.ArraySort(Ref, z3.RealSort()))
S0 = (z3.Const("S_dom_entry", RefBoolMat), z3.Const("S_val_entry", RefRealMat))
CALLS0 = z3.K(Ref, z3.IntVal(0))
mass_balance = z3.Function("mass_balance_constraint", Id, Ref)


def Hh(E, st, f):
    return E.eng.heap_arr(st, f)


def stoich(st):
    return st.ghost.get("stoich", S0)


def calls(st):
    return st.ghost.get("rm_calls", CALLS0)


def _model_t():
    return TObj("Model", {"_contexts": TList("ref:HistoryManager"), "metabolites": TDictList("Metabolite"), "groups": TDictList("Group"),
                          "_solver": TObj("Solver", {"constraints": TRef("Container")})})


# ---------------------------------------------------------------- hooks
class VStoich(Value):
    """the value of `reaction._metabolites` (only subscripted)"""

    def __init__(self, r):
        self.r = r

    def __repr__(self):
        return f"VStoich({self.r})"


def _is_rm(eng):
    # also the in-context contract of the same function (contracts/c02_remove_metabolites_ctx.py)
    return getattr(eng.cur_contract, "key", None) in ("Model.remove_metabolites", "Model.remove_metabolites[context]")


def hasattr_hook(eng, st, v, name):
    if isinstance(v, VObj) and v.kind == "list" and name == "__iter__":
        return True
    return None


def getattr_hook(eng, st, v, name):
    if _is_rm(eng) and isinstance(v, VRef) and v.cls == "Reaction" and name == "_metabolites":
        return [("ok", st, VStoich(v.t))]
    return None


def getitem_hook(eng, st, obj, idx):
    if isinstance(obj, VStoich) and isinstance(idx, VRef):
        # r._metabolites[x]: the ghost coefficient; that x IS a key (no KeyError) is a side obligation
        sd, sv = stoich(st)
        eng.oblige(st, sd[obj.r][idx.t], "stoich/metabolite-is-a-key-of-the-reaction", kind="side")
        return [("ok", st.assume(sd[obj.r][idx.t]), VReal(0, sv[obj.r][idx.t]))]
    return None


def _single_entry(st, d, key):
    """the coefficient c of the dictionary display {key: c}, or Unsupported"""
    rec = st.objs[d.oid] if isinstance(d, VObj) and d.kind == "dict" else None
    if rec is None or rec.get("lazy") or rec.get("pure") or not str(rec["kkind"]).startswith("ref") or rec["vkind"] != "real":
        raise Unsupported("subtract_metabolites needs a {metabolite: number} dictionary")
    want = z3.simplify(z3.Store(z3.K(Ref, z3.BoolVal(False)), key, z3.BoolVal(True)))
    if not z3.simplify(rec["dom"]).eq(want):
        raise Unsupported("subtract_metabolites with another dictionary than {x: coefficient}")
    return z3.simplify(z3.Select(rec["val"], key))


def call_method_hook(eng, st, recv, name, pos, kw):
    if not _is_rm(eng):
        return None
    model = eng.entry_args.get("self")
    if isinstance(recv, VObj) and recv.oid == model.oid and name == "remove_cons_vars":
        tr = st.ghost.get("rm_trace", ())
        return [("ok", st.setghost("rm_trace", tr + (("remove_cons_vars", tuple(pos), tuple(sorted(kw)), st),)), NONE)]
    if isinstance(recv, VObj) and recv.cls == "DictList" and name == "__isub__" and len(pos) == 1 and isinstance(pos[0], VObj) \
            and pos[0].kind == "list" and not str(st.objs[pos[0].oid].get("ekind", "")).startswith("ref") \
            and z3.is_int_value(z3.simplify(st.objs[pos[0].oid]["len"])) and z3.simplify(st.objs[pos[0].oid]["len"]).as_long() == 0:
        # an EMPTY list built by an unrolled comprehension has no element kind yet (the engine's default is int): it is an empty list
        # of metabolites; then DictList.__isub__ by its contract as usual
        st2 = st.updobj(pos[0].oid, ekind="ref:Metabolite", elem=z3.K(I_, NULL))
        return eng.apply_contract(st2, eng.reg.get("DictList.__isub__"), [recv] + list(pos), kw)
    if isinstance(recv, VRef) and recv.cls == "Container" and name == "__getitem__" and len(pos) == 1 and isinstance(pos[0], (VStr, VConc)):
        # self.solver.constraints[name]: ASSUMED total (solver in step, C01)
        return [("ok", st, VRef(mass_balance(unwrap(pos[0], "id")), "Constraint"))]
    if isinstance(recv, VObj) and recv.oid == model.oid and name == "get_associated_groups" and len(pos) == 1 and not kw:
        # by its PROVED contract (c02_xref).  Its post-condition speaks about ghost index maps of the filtered comprehension in its
        # body: here they are two fresh constants (Skolem witnesses of "there are such maps")
        s_, d_ = fresh("gag_src", z3.ArraySort(I_, I_)), fresh("gag_dst", z3.ArraySort(I_, I_))
        gl = st.objs[model.oid]["attr:groups"]
        n, e = L(st, gl)
        st1 = st.setghost(("filter", fresh_name("gag")), (s_, d_, n))
        outs = eng.apply_contract(st1, eng.reg.get("Model.get_associated_groups"), [recv] + list(pos), kw)
        res = []
        for k, s2, v in outs:
            if k == "ok" and isinstance(v, VObj):
                # a consequence of that post-condition, made explicit (obliged, then assumed): where a containing group landed.
                # The index maps the applied post-condition speaks about are the LATEST `filter` ghost of the state after the call
                # (the one installed above, or - when contracts/c02_remove_reactions.py is loaded, which gives this callee a
                # call-site form with its own skolem maps - the one its result builder installed)
                s_, d_, _n = [g_ for k_, g_ in s2.ghost.items() if isinstance(k_, tuple) and k_[0] == "filter"][-1]
                rn, re_ = L(s2, v)
                mem = eng.heap_arr(st, "_members")
                i = qv("gi")
                fact = FA([i], z3.Implies(z3.And(0 <= i, i < n, mem[e[i]][pos[0].t]), z3.And(0 <= d_[i], d_[i] < rn, re_[d_[i]] == e[i])),
                          patterns=[e[i]])
                eng.oblige(s2, fact, "call:Model.get_associated_groups/containing-group-is-listed", kind="side")
                s2 = s2.assume(fact)
            res.append((k, s2, v))
        return res
    if isinstance(recv, VRef) and recv.cls == "Reaction" and name == "subtract_metabolites" and len(pos) == 1 and not kw:
        # ASSUMED effect (see the module docstring)
        x = st.lookup(eng._top_fid, "x")
        if not isinstance(x, VRef):
            raise Unsupported("subtract_metabolites outside the loop over the metabolites")
        c = _single_entry(st, pos[0], x.t)
        r = recv.t
        sd, sv = stoich(st)
        rx = eng.heap_arr(st, "_reaction")
        new = z3.If(sd[r][x.t], sv[r][x.t], z3.RealVal(0)) - c
        stays = z3.simplify(new != 0)
        sd2 = z3.Store(sd, r, z3.Store(sd[r], x.t, stays))
        sv2 = z3.Store(sv, r, z3.Store(sv[r], x.t, z3.simplify(new)))
        rx2 = z3.Store(rx, x.t, z3.Store(rx[x.t], r, stays))
        return [("ok", st.setghost("stoich", (sd2, sv2)).setheap("_reaction", rx2), NONE)]
    if isinstance(recv, VRef) and recv.cls == "Reaction" and name == "remove_from_model" and not pos and not kw:
        # ASSUMED effect (see the module docstring); the call is counted
        r = recv.t
        cl = calls(st)
        rx, mo, mem = eng.heap_arr(st, "_reaction"), eng.heap_arr(st, "_model"), eng.heap_arr(st, "_members")
        rx2, mem2 = fresh("rx_after", rx.sort()), fresh("mem_after", mem.sort())
        y, g, q = qv("ry", Ref), qv("rg", Ref), qv("rq", Ref)
        ax = [FA([y, q], rx2[y][q] == z3.And(rx[y][q], q != r), patterns=[rx2[y][q]]),
              FA([g, q], z3.And(z3.Implies(q != r, mem2[g][q] == mem[g][q]), z3.Implies(mem2[g][q], mem[g][q])), patterns=[mem2[g][q]])]
        st2 = st.assume(*ax).setheap("_reaction", rx2).setheap("_members", mem2).setheap("_model", z3.Store(mo, r, NULL))
        return [("ok", st2.setghost("rm_calls", z3.Store(cl, r, cl[r] + 1)), NONE)]
    return None


HOOKS = chain_hooks({"hasattr": hasattr_hook, "getattr": getattr_hook, "getitem": getitem_hook, "call_method": call_method_hook},
                    C3.ALL_HOOKS)


# ---------------------------------------------------------------- specification
def _mets(E, st=None):
    return (st or E.s0).objs[E["self"].oid]["attr:metabolites"]


def _grps(E, st=None):
    return (st or E.s0).objs[E["self"].oid]["attr:groups"]


class _Arg:
    def __init__(self, E):
        v = E["metabolite_list"]
        if isinstance(v, VObj):
            self.n, self.e = L(E.s0, v)
            self.single = None
        else:
            self.n, self.e, self.single = z3.IntVal(1), None, v.t


def _present(E, x):
    dom0, _ = Dv(E.s0, _mets(E))
    return z3.Select(dom0, Hh(E, E.s0, "_id")[x])


def _handled(E, x):
    A = _Arg(E)
    if A.single is not None:
        return z3.And(x == A.single, _present(E, x))
    j = qv("hj")
    return z3.Exists([j], z3.And(0 <= j, j < A.n, z3.Select(A.e, j) == x, _present(E, x)))


def _in_groups(E, g):
    """g is a member of model.groups (through the index of the well-formed DictList: no existential)"""
    n, e = L(E.s0, _grps(E))
    dom, val = Dv(E.s0, _grps(E))
    k = Hh(E, E.s0, "_id")[g]
    return z3.And(z3.Select(dom, k), e[val[k]] == g)


def _pre(E):
    A = _Arg(E)
    n0, e0 = L(E.s0, _mets(E))
    dom0, val0 = Dv(E.s0, _mets(E))
    ids = Hh(E, E.s0, "_id")
    R0 = Hh(E, E.s0, "_reaction")
    sd0, _ = stoich(E.s0)
    cs = [WF(E, E.s0, _mets(E)), WF(E, E.s0, _grps(E)), C3._ctxs(E.s0, E["self"])[0] == 0]
    r = qv("pr", Ref)

    def own(x):
        return z3.And(x != NULL, z3.Implies(_present(E, x), e0[val0[ids[x]]] == x))
    if A.single is not None:
        x = A.single
        cs += [own(x), FA([r], z3.Implies(R0[x][r], sd0[r][x]), patterns=[R0[x][r]])]
    else:
        j, j3, j4 = qv("pj"), qv("pj3"), qv("pj4")
        x = z3.Select(A.e, j)
        cs += [FA([j3, j4], z3.Implies(z3.And(0 <= j3, j3 < j4, j4 < A.n), z3.Select(A.e, j3) != z3.Select(A.e, j4)),
                  patterns=[z3.MultiPattern(z3.Select(A.e, j3), z3.Select(A.e, j4))]),
               FA([j], z3.Implies(z3.And(0 <= j, j < A.n), own(x)), patterns=[x]),
               FA([j, r], z3.Implies(z3.And(0 <= j, j < A.n, R0[x][r]), sd0[r][x]), patterns=[R0[x][r]])]
    return z3.And(*cs)


def _done(arr, lo, hi, x):
    k = qv("dk")
    return z3.Exists([k], z3.And(lo <= k, k < hi, z3.Select(arr, k) == x))


def _flist(Lc):
    lst = Lc.var("metabolite_list")
    return Lc.st.objs[lst.oid]["len"], Lc.st.objs[lst.oid]["elem"]


def _is_filtered(E, arr, lo, hi):
    k, x = qv("fk"), qv("fx", Ref)
    return [hi >= lo,
            FA([k], z3.Implies(z3.And(lo <= k, k < hi), _handled(E, z3.Select(arr, k))), patterns=[z3.Select(arr, k)]),
            FA([x], z3.Implies(_handled(E, x), _done(arr, lo, hi, x)))]


def _effects(E, st, destructive, did, did_pat=None):
    """model pointers, member sets, reaction sets, `_metabolites` dictionaries and removal calls in state st, `did(y)` saying which
    metabolites have been handled completely"""
    mo0, mo = Hh(E, E.s0, "_model"), Hh(E, st, "_model")
    mem0, mem = Hh(E, E.s0, "_members"), Hh(E, st, "_members")
    R0, R = Hh(E, E.s0, "_reaction"), Hh(E, st, "_reaction")
    sd0, sv0 = stoich(E.s0)
    sd, sv = stoich(st)
    cl = calls(st)
    ng, eg = L(E.s0, _grps(E))
    y, g, r, j = qv("ey", Ref), qv("eg", Ref), qv("er", Ref), qv("ej")
    cs = [
        # handled metabolites: no model, in no group of the model
        FA([y], z3.Implies(did(y), mo[y] == NULL), patterns=[mo[y]]),
        FA([y, j], z3.Implies(z3.And(did(y), 0 <= j, j < ng), z3.Not(mem[eg[j]][y])), patterns=[mem[eg[j]][y]]),
        # member sets: nothing added
        FA([g, y], z3.Implies(mem[g][y], mem0[g][y]), patterns=[mem[g][y]])]
    if not destructive:
        cs += [
            FA([y], z3.Implies(mo[y] != mo0[y], did(y)), patterns=[mo[y]]),
            FA([g, y], z3.Implies(z3.And(mem0[g][y], z3.Not(mem[g][y])), z3.And(did(y), _in_groups(E, g))), patterns=[mem0[g][y]]),
            # every reaction that used a handled metabolite no longer has it; the metabolite's reaction set is empty
            FA([y, r], z3.Implies(did(y), z3.Not(R[y][r])), patterns=[R[y][r]]),
            FA([y, r], z3.Implies(z3.And(did(y), R0[y][r]), z3.Not(sd[r][y])), patterns=[sd[r][y]]),
            # nothing else
            FA([y, r], z3.Implies(R[y][r] != R0[y][r], did(y)), patterns=[R[y][r]]),
            FA([r, y], z3.Implies(z3.Or(sd[r][y] != sd0[r][y], sv[r][y] != sv0[r][y]), z3.And(did(y), R0[y][r])),
               patterns=[sd[r][y], sv[r][y]]),
            z3.BoolVal(True) if cl.eq(CALLS0) else FA([r], cl[r] == 0, patterns=[cl[r]])]
    else:
        cs += [
            FA([y], z3.Implies(mo[y] != mo0[y], z3.Or(did(y), cl[y] == 1)), patterns=[mo[y]]),
            FA([r], z3.Implies(cl[r] == 1, mo[r] == NULL), patterns=[mo[r]]),
            FA([g, y], z3.Implies(z3.And(mem0[g][y], z3.Not(mem[g][y])), z3.Or(z3.And(did(y), _in_groups(E, g)), cl[y] == 1)),
               patterns=[mem0[g][y]]),
            # removal calls: exactly once for every reaction that used a handled metabolite, for nothing else
            FA([r], z3.And(0 <= cl[r], cl[r] <= 1), patterns=[cl[r]]),
            FA([y, r], z3.Implies(z3.And(did(y), R0[y][r]), cl[r] == 1), patterns=[R0[y][r]]),
            FA([r], z3.Implies(cl[r] == 1, z3.Exists([y], z3.And(did(y), R0[y][r]))), patterns=[cl[r]]),
            # reaction sets lose exactly the removed reactions; no `_metabolites` dictionary changes
            FA([y, r], R[y][r] == z3.And(R0[y][r], cl[r] == 0), patterns=[R[y][r]]),
            z3.BoolVal(True) if sd.eq(sd0) and sv.eq(sv0) else z3.And(sd == sd0, sv == sv0)]
    return cs


def _inv0(destructive):
    def inv(E, Lc):
        m, fe = _flist(Lc)
        k3, k4 = qv("hk3"), qv("hk4")
        distinct = FA([k3, k4], z3.Implies(z3.And(0 <= k3, k3 < k4, k4 < m), z3.Select(fe, k3) != z3.Select(fe, k4)),
                      patterns=[z3.MultiPattern(z3.Select(fe, k3), z3.Select(fe, k4))])
        did = lambda y: _done(fe, 0, Lc.i, y)  # noqa
        return z3.And(*([Lc.n == m] + _is_filtered(E, fe, 0, m) + [distinct] + _effects(E, Lc.st, destructive, did)))
    return inv


def _inv_groups(E, Lc):
    """loop over associated_groups: the groups visited so far no longer contain x; nothing else happened to any member set"""
    st, en, t = Lc.st, Lc.entry, Lc.i
    x = Lc.var("x").t
    ag = Lc.var("associated_groups")
    ma, ae = L(st, ag)
    mem, memE = Hh(E, st, "_members"), Hh(E, en, "_members")
    j, g, y = qv("gj"), qv("gg", Ref), qv("gy", Ref)
    return z3.And(Lc.n == ma,
                  FA([j], z3.Implies(z3.And(0 <= j, j < t), z3.Not(mem[ae[j]][x])), patterns=[ae[j]]),
                  FA([g, y], z3.Implies(mem[g][y], memE[g][y]), patterns=[mem[g][y]]),
                  FA([g, y], z3.Implies(z3.And(memE[g][y], z3.Not(mem[g][y])), z3.And(y == x, _in_groups(E, g))), patterns=[memE[g][y]]))


def _enum_of(E, Lc):
    """(pos, D): the ghost enumeration of the set x._reaction whose copy `list(x._reaction)` the loop runs over"""
    x = Lc.var("x").t
    D = z3.Select(Hh(E, Lc.entry, "_reaction"), x)
    for key, ent in Lc.st.ghost.items():
        if isinstance(key, tuple) and len(key) == 3 and key[0] == "order" and key[1] in Lc.st.objs:
            rec = Lc.st.objs[key[1]]
            if rec.get("dom") is not None and rec["dom"].get_id() == key[2] and z3.simplify(rec["dom"]).eq(z3.simplify(D)):
                return ent[1], D
    raise Unsupported("no enumeration of x._reaction found")


def _inv_subtract(E, Lc):
    """destructive=False, loop over list(x._reaction): the reactions visited so far no longer have x, x no longer lists them"""
    st, en, t = Lc.st, Lc.entry, Lc.i
    x = Lc.var("x").t
    pos, D = _enum_of(E, Lc)
    R, RE = Hh(E, st, "_reaction"), Hh(E, en, "_reaction")
    sd, sv = stoich(st)
    sdE, svE = stoich(en)
    r, y = qv("sr", Ref), qv("sy", Ref)
    seen = lambda q: z3.And(D[q], pos[q] < t)  # noqa
    return z3.And(FA([r], R[x][r] == z3.And(D[r], z3.Not(seen(r))), patterns=[R[x][r]]),
                  FA([y], z3.Implies(y != x, R[y] == RE[y]), patterns=[R[y]]),
                  FA([r], z3.Implies(seen(r), z3.Not(sd[r][x])), patterns=[pos[r], sd[r][x]]),
                  FA([r, y], z3.Implies(z3.Or(sd[r][y] != sdE[r][y], sv[r][y] != svE[r][y]), z3.And(y == x, seen(r))),
                     patterns=[sd[r][y], sv[r][y]]))


def _inv_remove(E, Lc):
    """destructive=True, loop over list(x._reaction): the reactions visited so far were handed to remove_from_model once"""
    st, en, t = Lc.st, Lc.entry, Lc.i
    pos, D = _enum_of(E, Lc)
    R, RE = Hh(E, st, "_reaction"), Hh(E, en, "_reaction")
    mo, moE = Hh(E, st, "_model"), Hh(E, en, "_model")
    mem, memE = Hh(E, st, "_members"), Hh(E, en, "_members")
    cl, clE = calls(st), calls(en)
    r, y, g = qv("rr", Ref), qv("ry", Ref), qv("rg", Ref)
    seen = lambda q: z3.And(D[q], pos[q] < t)  # noqa
    return z3.And(FA([r], cl[r] == clE[r] + z3.If(seen(r), 1, 0), patterns=[cl[r]]),
                  FA([y, r], R[y][r] == z3.And(RE[y][r], z3.Not(seen(r))), patterns=[R[y][r]]),
                  FA([y], mo[y] == z3.If(seen(y), NULL, moE[y]), patterns=[mo[y]]),
                  FA([g, y], z3.Implies(mem[g][y], memE[g][y]), patterns=[mem[g][y]]),
                  FA([g, y], z3.Implies(z3.And(memE[g][y], z3.Not(mem[g][y])), seen(y)), patterns=[memE[g][y]]))


def _post(destructive):
    def post(E):
        st = E.s1
        A = _Arg(E)
        ml = _mets(E)
        n0, e0 = L(E.s0, ml)
        dom0, val0 = Dv(E.s0, ml)
        n1, e1 = L(st, ml)
        dom1, val1 = Dv(st, ml)
        ids = Hh(E, E.s0, "_id")
        k, k2, j, w, x = qv("qk", Id), qv("qk2", Id), qv("qj"), qv("qw"), qv("qx", Ref)
        key = (lambda jj: ids[A.single]) if A.single is not None else (lambda jj: ids[z3.Select(A.e, jj)])
        elem = (lambda jj: A.single) if A.single is not None else (lambda jj: z3.Select(A.e, jj))
        listed = lambda kk: z3.Exists([j], z3.And(0 <= j, j < A.n, key(j) == kk))  # noqa
        cs = [WF(E, st, ml),
              FA([k], z3.Implies(z3.Select(dom1, k), z3.And(z3.Select(dom0, k), e1[val1[k]] == e0[val0[k]])), patterns=[z3.Select(dom1, k)]),
              FA([x], z3.Implies(_handled(E, x), z3.Not(z3.Select(dom1, ids[x]))), patterns=[z3.Select(dom1, ids[x])]),
              FA([k], z3.Implies(z3.And(z3.Select(dom0, k), z3.Not(z3.Select(dom1, k))), listed(k)), patterns=[z3.Select(dom0, k)]),
              FA([k, k2], z3.Implies(z3.And(z3.Select(dom1, k), z3.Select(dom1, k2)), (val1[k] < val1[k2]) == (val0[k] < val0[k2])),
                 patterns=[z3.MultiPattern(z3.Select(dom1, k), z3.Select(dom1, k2))])]
        cs += _effects(E, st, destructive, lambda y: _handled(E, y))
        # the constraints handed to remove_cons_vars (one call)
        tr = st.ghost.get("rm_trace", ())
        if len(tr) != 1 or len(tr[0][1]) != 1 or tr[0][2] or not (isinstance(tr[0][1][0], VObj) and tr[0][1][0].kind == "list"):
            return z3.BoolVal(False)
        rec = tr[0][3].objs[tr[0][1][0].oid]
        if rec.get("untyped") or not str(rec.get("ekind")).startswith("ref"):
            cs.append(z3.And(rec["len"] == 0, FA([x], z3.Not(_handled(E, x)))))
        else:
            ln, le = rec["len"], rec["elem"]
            cs += [ln >= 0,
                   FA([w], z3.Implies(z3.And(0 <= w, w < ln), z3.Exists([x], z3.And(_handled(E, x), le[w] == mass_balance(ids[x])))),
                      patterns=[le[w]]),
                   FA([x], z3.Implies(_handled(E, x), z3.Exists([w], z3.And(0 <= w, w < ln, le[w] == mass_balance(ids[x])))))]
        return z3.And(*cs)
    return post


def _mod(E):
    ml = _mets(E)
    return [("list", ml), ("dict", dict_of(E.s0, ml)), ("attr", E["self"], "metabolites", lambda st: (st, ml)),
            ("heap", "_model"), ("heap", "_members"), ("heap", "_reaction"),
            ("ghost", "stoich", lambda st: (fresh("S_dom", RefBoolMat), fresh("S_val", RefRealMat))),
            ("ghost", "rm_calls", lambda st: fresh("rm_calls", z3.ArraySort(Ref, I_))), ("ghost", "rm_trace", lambda st: ())]


def _is_destructive(E):
    v = z3.simplify(E["destructive"].t)
    if not (z3.is_true(v) or z3.is_false(v)):
        raise Unsupported("value of `destructive` not fixed by the case")
    return z3.is_true(v)


def _loop_mod(E, Lc):
    """loop 0: heap fields; the `_metabolites` ghost only when reactions are kept, the call counter only when they are removed"""
    skip = ("rm_trace", "stoich") if _is_destructive(E) else ("rm_trace", "rm_calls")
    return [loc for loc in _mod(E) if loc[0] in ("heap", "ghost") and loc[1] not in skip]


def _pc(case, **over):
    case.params_override = over
    return case


def _inv0_any(E, Lc):
    return _inv0(_is_destructive(E))(E, Lc)


_cases = []
for _tag, _t in (("list", TList("ref:Metabolite")), ("one_metabolite", TRef("Metabolite"))):
    _cases.append(_pc(Case(f"{_tag}:keep_reactions", ensures=_post(False)), metabolite_list=_t, destructive=TConc(False)))
    _cases.append(_pc(Case(f"{_tag}:destructive", ensures=_post(True)), metabolite_list=_t, destructive=TConc(True)))

REG.add(Contract(MM, "Model.remove_metabolites", "C02",
                 [("self", _model_t()), ("metabolite_list", TList("ref:Metabolite")), ("destructive", TBool())], _cases,
                 pre=_pre, modifies=_mod, key="Model.remove_metabolites",
                 loops={0: LoopSpec(_inv0_any, _loop_mod),
                        1: LoopSpec(_inv_groups, lambda E, Lc: [("heap", "_members")]),
                        2: LoopSpec(_inv_subtract, lambda E, Lc: [("heap", "_reaction"), _mod(E)[6]]),
                        3: LoopSpec(_inv_remove, lambda E, Lc: [("heap", "_reaction"), ("heap", "_model"), ("heap", "_members"), _mod(E)[7]])},
                 note="NO context open; destructive False / True as two cases; a list of pairwise different metabolites or one "
                      "metabolite. ASSUMED callee effects: Reaction.subtract_metabolites({x: c}), Reaction.remove_from_model() (see the "
                      "module docstring); Model.remove_cons_vars recorded; solver.constraints[id] total (solver in step). Stated "
                      "preconditions: DictLists well formed, a listed metabolite whose id is in the model is the model's metabolite, "
                      "x in r._metabolites for r in x._reaction (destructive=False)"))
KEYS = ["Model.remove_metabolites"]
