"""C02 — Model.remove_reactions (a LIST of reactions that are members of the model, no context open).

Documented: "Remove reactions from the model. ... remove_orphans: Remove orphaned genes and metabolites from the model as well
(default False)."  The invariant it has to keep (C02): model.reactions is a well-formed DictList, a reaction that is not in the
model has no model pointer, no metabolite / gene / group of the model refers to a reaction that has left the model.
Views: metabolites(r) = heap field `_metabolites` (the KEY SET of the stoichiometry dictionary: the function only iterates over
it), genes(r) = `_genes`, reactions(x) = `_reaction` (of metabolites and genes), members(g) = `_members`, owner = `_model`.
Contract key: `Model.remove_reactions`; hook table: `HOOKS` (this module); cases `remove_orphans_false`, `remove_orphans_true`.

PROVED, for argument lists of any length and a model with any number of reactions / genes / groups, in BOTH cases:
  * model.reactions afterwards is its entry content minus the listed reactions, the other members in their order, and is a well
    formed DictList again (list and identifier index agree); every listed reaction has `_model` None;
  * solver calls (ghost trace with a clock): exactly one `model.solver.objective.set_linear_coefficients(d)` and one
    `model.remove_cons_vars(l)` per listed reaction, in the order of the list; for the k-th reaction r the dictionary d is exactly
    {r.forward_variable: 0, r.reverse_variable: 0}, the list l is exactly [r.forward_variable, r.reverse_variable], and the objective
    coefficients are zeroed BEFORE the variables are removed (time stamp of the first call < time stamp of the second: the
    repair 970afa3);
  * back-references: afterwards no metabolite and no gene of a listed reaction lists that reaction; the only pairs (x, r) whose
    membership `r in x._reaction` differs from entry are those with r listed and x a metabolite or gene of r; the heap fields
    `_metabolites`, `_genes` (the reactions' own view) and `_id` are not written (frame);
  * groups: afterwards no group of model.groups contains a listed reaction (Group.remove_members and Model.get_associated_groups
    through their proved contracts, see CALL SITES);
  * nothing else is modified (frame: model.groups, the context stack, the solver objects, the argument list).
Case `remove_orphans_false` additionally: no other model pointer changes; the only pairs (g, m) whose membership `m in g._members`
    differs from entry are those with m a listed reaction and g a group of model.groups; model.genes is untouched (frame).
Case `remove_orphans_true` additionally (orphan = a metabolite / gene x of a listed reaction r with `r in x._reaction` at entry that
    lists NO reaction afterwards):
  * Model.remove_metabolites(m) is called (an ABSTRACT call, see ASSUMED) exactly on the orphaned metabolites: every call is on a
    metabolite of a listed reaction that lists no reaction at that moment (obligation at the call) nor afterwards, and every orphan
    is passed to a call (both directions);
  * the genes that left model.genes (ghost set `rr_gone`, updated by ghost code attached to `model.genes.remove`, tied to the
    DictList by the invariant) are exactly the orphaned genes; model.genes is well formed again, the other members in their order;
    afterwards no group of model.groups contains an orphaned gene or an orphaned metabolite;
  * no back-reference is added; the model pointers that changed are those of the listed reactions and of the orphaned metabolites
    (now None); the only group memberships (g, m) that changed have g in model.groups and m a listed reaction, an orphaned metabolite
    or an orphaned gene.
  OBSERVATION (not a claim of the documentation, visible in this contract): an orphaned gene that is removed from model.genes KEEPS
  its `_model` pointer - the code does not clear it (the contract proves that no model pointer other than those of the listed
  reactions and of the orphaned metabolites changes).

PRECONDITIONS (stated, not proved here): no context is open (`model._contexts` empty: no undo bookkeeping is exercised); the argument
is a list whose items are members of model.reactions (each is the identical object found under its identifier) and pairwise
different objects, stated through a ghost inverse map (`ARGPOS[reactions[k]] == k`: such a map exists iff the items are pairwise
different) - an item that is not in the model, or listed a second time, only produces a warning in the code: NOT covered; every
listed reaction points at the model (C02 invariant: members point at their model); model.reactions is well formed.
For remove_orphans=True also: model.genes is well formed and every gene of a listed reaction that lists this reaction is a member of
model.genes (C02 invariant); type discipline: no object is both a metabolite of a listed reaction and a gene of a listed reaction,
no listed reaction is a metabolite of a listed reaction.  remove_orphans is a literal False / True (not a symbolic Boolean).
ASSUMED: the getters Reaction.forward_variable / reverse_variable (contracts/c01_lp.py: the two optlang variables of a reaction in
a model, distinct objects); `objective.set_linear_coefficients` and `Model.remove_cons_vars` are external / not executed: they are
recorded with their arguments in the ghost trace and assumed not to touch the cobra objects (reaction lists, back-references,
groups).  remove_orphans=True: `Model.remove_metabolites(m)` for ONE metabolite m that lists no reaction (obliged at the call) is
not executed: it is recorded in the ghost set `rr_orph` and ASSUMED to set m._model to None, to remove m from every group of
model.groups, and to touch nothing else that this contract talks about (model.reactions, model.genes, model.groups, `_reaction`,
other model pointers, other group members; what it does to model.metabolites and to the solver is outside this contract's view);
`len(<set>)` is a non-negative number that is 0 exactly when the set is empty (hook `len`).
CALL SITES (this module sets `call_cases`, used only when the two functions are CALLED; their own verification is unchanged):
Model.get_associated_groups - the proved post-condition with its ghost index maps as skolem constants, WITHOUT the ordering clause
(weaker, hence sound); Group.remove_members - the proved post-condition, the same formulas with explicit triggers and with membership
in a list display of known length written out (equivalent).
"""
import z3
import cobra  # noqa
from .common import *  # noqa
from . import c01_lp as C1
from . import c02_xref as X
from . import c03_context as C3
from . import c15_dictlist as C15
from pyvc.values import ident_of
from pyvc.state import alloc_list

MM = "cobra/core/model.py"
REG.fields.update({"_reaction": "set:ref:Reaction", "_model": "ref:Model", "_metabolites": "set:ref:Metabolite",
                   "_genes": "set:ref:Gene", "_members": "set:ref:Object"})
REG.inline.add("Model.solver@getter")
REG.external_classes = getattr(REG, "external_classes", set()) | {"Solver", "Objective"}
I_ = z3.IntSort()
RefSet = z3.ArraySort(Ref, z3.BoolSort())
EMPTY = z3.K(Ref, z3.BoolVal(False))


def _model_t():
    return TObj("Model", {"_contexts": TList("ref:HistoryManager"), "reactions": TDictList("Reaction"), "genes": TDictList("Gene"),
                          "groups": TDictList("Group"), "_solver": TObj("Solver", {"objective": TObj("Objective", {})})})


def Hh(E, st, f):
    return E.eng.heap_arr(st, f)


# ---------------------------------------------------------------- ghost trace of the solver calls
# Two event sequences and a common clock.  Event k of `slc` (objective.set_linear_coefficients(d)): the dictionary d as (dom, val),
# and the time of the call; event k of `rcv` (model.remove_cons_vars(l)): the list l as (len, elem), and the time of the call.
TR = (("clock", I_), ("slc_n", I_), ("slc_dom", z3.ArraySort(I_, RefSet)), ("slc_val", z3.ArraySort(I_, z3.ArraySort(Ref, I_))),
      ("slc_time", z3.ArraySort(I_, I_)), ("rcv_n", I_), ("rcv_len", z3.ArraySort(I_, I_)),
      ("rcv_elem", z3.ArraySort(I_, z3.ArraySort(I_, Ref))), ("rcv_time", z3.ArraySort(I_, I_)))


def _trace0():
    t = {nm: z3.Const("rr0_" + nm, srt) for nm, srt in TR}
    t.update(clock=z3.IntVal(0), slc_n=z3.IntVal(0), rcv_n=z3.IntVal(0))
    return t


def _fresh_trace(st):
    return {nm: fresh("rr_" + nm, srt) for nm, srt in TR}


def trace(st):
    return st.ghost.get("rr_trace") or _trace0()


def orphans(st):
    """ghost set: the metabolites Model.remove_metabolites was called on"""
    return st.ghost.get("rr_orph", EMPTY)


def gone(st):
    """ghost set: the genes that model.genes.remove was called on (successfully)"""
    return st.ghost.get("rr_gone", EMPTY)


def _entry_model(eng):
    m = (getattr(eng, "entry_args", None) or {}).get("self")
    return m if isinstance(m, VObj) and m.cls == "Model" else None


def _groups_of(st, m):
    return L(st, st.objs[m.oid]["attr:groups"])


def call_method_hook(eng, st, recv, name, pos, kw):
    m = _entry_model(eng)
    if m is None:
        return None
    if isinstance(recv, VObj) and recv.cls == "Objective" and name == "set_linear_coefficients" and len(pos) == 1 and not kw:
        # only THE objective of THE solver of the model under contract
        sol = st.objs[m.oid].get("attr:_solver")
        if not (isinstance(sol, VObj) and isinstance(st.objs[sol.oid].get("attr:objective"), VObj)
                and st.objs[sol.oid]["attr:objective"].oid == recv.oid):
            return None
        d = pos[0]
        rec = st.objs[d.oid] if isinstance(d, VObj) and d.kind == "dict" else None
        if rec is None or rec.get("lazy") or rec.get("pure") or not rec["kkind"].startswith("ref") or rec["vkind"] != "int":
            raise Unsupported("set_linear_coefficients: the recorded call needs a {variable: int} dictionary")
        t = dict(trace(st))
        k = t["slc_n"]
        t.update(slc_dom=z3.Store(t["slc_dom"], k, rec["dom"]), slc_val=z3.Store(t["slc_val"], k, rec["val"]),
                 slc_time=z3.Store(t["slc_time"], k, t["clock"]), slc_n=k + 1, clock=t["clock"] + 1)
        return [("ok", st.setghost("rr_trace", t), NONE)]
    if isinstance(recv, VObj) and recv.oid == m.oid and name == "remove_cons_vars" and len(pos) == 1 and not kw:
        l = pos[0]
        rec = st.objs[l.oid] if isinstance(l, VObj) and l.kind == "list" else None
        if rec is None or "elem" not in rec or not str(rec.get("ekind", "")).startswith("ref"):
            raise Unsupported("remove_cons_vars: the recorded call needs a list of variables")
        t = dict(trace(st))
        k = t["rcv_n"]
        t.update(rcv_len=z3.Store(t["rcv_len"], k, rec["len"]), rcv_elem=z3.Store(t["rcv_elem"], k, rec["elem"]),
                 rcv_time=z3.Store(t["rcv_time"], k, t["clock"]), rcv_n=k + 1, clock=t["clock"] + 1)
        return [("ok", st.setghost("rr_trace", t), NONE)]
    gl = st.objs[m.oid].get("attr:genes")
    if isinstance(recv, VObj) and isinstance(gl, VObj) and recv.oid == gl.oid and name == "remove" and len(pos) == 1 and not kw \
            and isinstance(pos[0], VRef):
        # model.genes.remove(gene): DictList.remove through its contract (as the engine would do), plus GHOST code: the gene is
        # recorded in the ghost set `rr_gone`
        outs = eng.apply_contract(st, eng.reg.get("DictList.remove"), [recv] + list(pos), kw)
        return [(k_, s_.setghost("rr_gone", z3.Store(gone(s_), pos[0].t, z3.BoolVal(True))) if k_ == "ok" else s_, v_)
                for k_, s_, v_ in outs]
    if isinstance(recv, VObj) and recv.oid == m.oid and name == "remove_metabolites" and len(pos) == 1 and not kw \
            and isinstance(pos[0], VRef):
        # ABSTRACT call (see ASSUMED in the module docstring).  Obliged: the metabolite lists no reaction.
        x = pos[0].t
        R, mo, M = eng.heap_arr(st, "_reaction"), eng.heap_arr(st, "_model"), eng.heap_arr(st, "_members")
        z, g, y, j = qv("hz", Ref), qv("hg", Ref), qv("hy", Ref), qv("hj")
        eng.oblige(st, R[x] == EMPTY, "call:Model.remove_metabolites/lists-no-reaction", kind="callpre")
        gn, ge = _groups_of(st, m)
        M1 = fresh("rm_members", M.sort())
        in_groups = z3.Exists([j], z3.And(0 <= j, j < gn, z3.Select(ge, j) == g))
        st2 = st.assume(FA([g, y], M1[g][y] == z3.And(M[g][y], z3.Not(z3.And(y == x, in_groups))), patterns=[M1[g][y]]))
        st2 = st2.setheap("_model", z3.Store(mo, x, NULL)).setheap("_members", M1)
        return [("ok", st2.setghost("rr_orph", z3.Store(orphans(st), x, z3.BoolVal(True))), NONE)]
    return None


def len_hook(eng, st, v):
    """len(<set>) for a set kept as a membership array: a non-negative number that is 0 exactly when the set has no element"""
    if isinstance(v, VObj) and v.kind == "set" and not st.objs[v.oid].get("lazy") and "card" not in st.objs[v.oid]:
        dom = st.objs[v.oid]["dom"]
        c = fresh("setlen", I_)
        return [("ok", st.assume(c >= 0, (c == 0) == (dom == z3.K(dom.sort().domain(), z3.BoolVal(False)))), VInt(c))]
    return None


def list_display_hook(eng, st, vs):
    """[reaction], [forward, reverse]: the list as the engine builds it, plus the (valid) facts l[i] == item_i - they put the terms
    l[i] into the solver's term bank, which the membership quantifier of Group.remove_members' post-condition is matched against"""
    if vs and all(isinstance(v, VRef) for v in vs):
        from pyvc import builtins as B
        _, st2, l = B.list_from_values(eng, st, vs)
        e = st2.objs[l.oid]["elem"]
        return [("ok", st2.assume(*[z3.Select(e, i_) == v.t for i_, v in enumerate(vs)]), l)]
    return None


HOOKS = {"call_method": call_method_hook, "len": len_hook, "list_display": list_display_hook}


# ---------------------------------------------------------------- Model.get_associated_groups at a call site
# The proved post-condition (contracts/c02_xref.py) speaks about the ghost index maps of the list comprehension; at a call site
# they are skolem constants installed by the result builder.  Assumed at the call site: the proved post-condition WITHOUT its
# ordering clause (`the groups come in model order`: not needed here, and its trigger-less quantifier sends the solver into a
# matching loop) - a weaker statement than the proved one, hence sound.
def _gag_call_result(eng, st, E):
    st, l = alloc_list(st, "ref:Group")
    n, _ = L(st, st.objs[E["self"].oid]["attr:groups"])
    s_, d_ = fresh("gag_src", z3.ArraySort(I_, I_)), fresh("gag_dst", z3.ArraySort(I_, I_))
    return st.setghost(("filter", fresh_name("gag_call")), (s_, d_, n)), l


def _gag_call_post(E):
    n, e = L(E.s0, E.s0.objs[E["self"].oid]["attr:groups"])
    rn, re_ = L(E.s1, E.res)
    mem = Hh(E, E.s0, "_members")
    x = E["element"].t
    s_, d_, _ = _last_filter(E.s1)
    j, i = qv("aj"), qv("ai")
    return z3.And(rn >= 0, rn <= n,
                  # every element of the result is a group of the model that contains the element ...
                  FA([j], z3.Implies(z3.And(0 <= j, j < rn), z3.And(0 <= s_[j], s_[j] < n, re_[j] == e[s_[j]], mem[e[s_[j]]][x])), patterns=[re_[j]]),
                  # ... and every such group is in the result
                  FA([i], z3.Implies(z3.And(0 <= i, i < n, mem[e[i]][x]), z3.And(0 <= d_[i], d_[i] < rn, s_[d_[i]] == i)), patterns=[e[i]]))


_gag_cc = Case("any", ensures=_gag_call_post)
_gag_cc.result = _gag_call_result
REG.get("Model.get_associated_groups").call_cases = [_gag_cc]


# Group.remove_members at a call site: the proved post-condition (contracts/c02_xref.py, `_grp_post`), the same formulas, with
# explicit triggers (the original quantifiers carry none and contain a nested quantifier: the solver falls back to model-based
# instantiation, which makes the loops over groups undecided every other run); membership in a list display of known length is
# written out.
def _grm_call_post(E):
    g = E["self"].t
    M0_, M1_ = Hh(E, E.s0, "_members"), Hh(E, E.s1, "_members")
    n, e = L(E.s0, E["to_remove"])
    x, w, y = qv("gx", Ref), qv("gw"), qv("gy", Ref)
    nn = z3.simplify(n)
    if z3.is_int_value(nn) and nn.as_long() <= 4:
        # a list display of known length: `x is in the list` written out (equivalent to the quantified form, which the solver's
        # rewriter strips of its trigger when the list is a concrete Store term)
        inlist = z3.Or(*[z3.Select(e, i_) == x for i_ in range(nn.as_long())]) if nn.as_long() else z3.BoolVal(False)
    else:
        inlist = z3.Exists([w], z3.And(0 <= w, w < n, e[w] == x), patterns=[e[w]])
    return z3.And(FA([x], M1_[g][x] == z3.And(M0_[g][x], z3.Not(inlist)), patterns=[M1_[g][x]]),
                  FA([y], z3.Implies(y != g, M1_[y] == M0_[y]), patterns=[M1_[y]]))


REG.get("Group.remove_members").call_cases = [Case("list_argument", ensures=_grm_call_post)]


def _last_filter(st):
    src = [v for k, v in st.ghost.items() if isinstance(k, tuple) and k[0] == "filter"]
    return src[-1] if src else None


# ---------------------------------------------------------------- specification
def _orph(E):
    return z3.is_true(E["remove_orphans"].t)


def _me(E):
    return ident_of(E["self"].oid)


def _arg(E):
    return L(E.s0, E["reactions"])


def _rxns(E, st):
    return st.objs[E["self"].oid]["attr:reactions"]


def _genes(E, st):
    return st.objs[E["self"].oid]["attr:genes"]


def _groups(E, st):
    return L(st, st.objs[E["self"].oid]["attr:groups"])


def _dl_env(E):
    """environment of the DictList specification fragments: self = model.reactions, other = the argument"""
    return Env({"self": _rxns(E, E.s0), "other": E["reactions"]}, E.s0, eng=E.eng)


# Ghost inverse of the argument list: ARGPOS[x] is the position of x in the argument.  The precondition `ARGPOS[reactions[k]] == k for
# every k` says that such a map exists, i.e. that the items are pairwise different objects; `x is one of the first hi items` is then
# quantifier-free (no skolem witnesses: the existential form made the solver enumerate hundreds of them).
ARGPOS = z3.Const("rr_argpos", z3.ArraySort(Ref, I_))


def _listed(E, x, hi):
    n, e = _arg(E)
    return z3.And(0 <= ARGPOS[x], ARGPOS[x] < hi, z3.Select(e, ARGPOS[x]) == x)


def _in_groups(E, g):
    n, e = _groups(E, E.s0)
    j = qv("gj")
    return z3.Exists([j], z3.And(0 <= j, j < n, z3.Select(e, j) == g))


def _member0(E, g):
    """g is a member of model.genes at entry (the identical object found under its identifier)"""
    n0, e0 = L(E.s0, _genes(E, E.s0))
    dom0, val0 = Dv(E.s0, _genes(E, E.s0))
    gid = idarr(E, E.s0)[g]
    return z3.And(z3.Select(dom0, gid), z3.Select(e0, z3.Select(val0, gid)) == g)


def _gone(E, st, g):
    """g has been removed from model.genes (ghost set, tied to model.genes by _genes_view)"""
    return gone(st)[g]


def _gdom(E, st, g):
    return gone(st)[g]


def _pre(E):
    n, e = _arg(E)
    k, k2, y = qv("pk"), qv("pk2"), qv("py", Ref)
    mo0 = Hh(E, E.s0, "_model")
    ids = idarr(E, E.s0)
    _, re0 = L(E.s0, _rxns(E, E.s0))
    rdom0, rval0 = Dv(E.s0, _rxns(E, E.s0))
    xk, xk2 = z3.Select(e, k), z3.Select(e, k2)
    cs = [WF(E, E.s0, _rxns(E, E.s0)), _groups(E, E.s0)[0] >= 0,
          C3._ctxs(E.s0, E["self"])[0] == 0,                                  # no context open
          # every item is a member of model.reactions (the identical object found under its identifier), none is listed twice
          FA([k], z3.Implies(z3.And(0 <= k, k < n), z3.And(z3.Select(rdom0, ids[xk]), z3.Select(re0, z3.Select(rval0, ids[xk])) == xk,
                                                           ARGPOS[xk] == k)), patterns=[xk]),
          FA([k], z3.Implies(z3.And(0 <= k, k < n), z3.And(xk != NULL, mo0[xk] == _me(E))), patterns=[xk])]
    if _orph(E):
        Mt, G, R0 = Hh(E, E.s0, "_metabolites"), Hh(E, E.s0, "_genes"), Hh(E, E.s0, "_reaction")
        in2 = z3.And(0 <= k, k < n, 0 <= k2, k2 < n)
        cs += [WF(E, E.s0, _genes(E, E.s0)),
               # C02 invariant: the genes of a reaction of the model are in model.genes
               FA([k, y], z3.Implies(z3.And(0 <= k, k < n, G[xk][y], R0[y][xk]), _member0(E, y)), patterns=[G[xk][y]]),
               # type discipline
               FA([k, k2, y], z3.Implies(in2, z3.Not(z3.And(Mt[xk][y], G[xk2][y]))), patterns=[z3.MultiPattern(Mt[xk][y], G[xk2][y])]),
               FA([k, k2], z3.Implies(in2, z3.Not(Mt[xk][xk2])), patterns=[Mt[xk][xk2]])]
    return z3.And(*cs)


def _state(E, st, t):
    """what holds after the first t listed reactions were removed (t = length of the argument: the post-condition)"""
    n, e = _arg(E)
    gn, ge = _groups(E, E.s0)
    xk = lambda k: z3.Select(e, k)  # noqa
    mo0, mo = Hh(E, E.s0, "_model"), Hh(E, st, "_model")
    R0, R = Hh(E, E.s0, "_reaction"), Hh(E, st, "_reaction")
    M0, M = Hh(E, E.s0, "_members"), Hh(E, st, "_members")
    Mt, G = Hh(E, E.s0, "_metabolites"), Hh(E, E.s0, "_genes")
    T = trace(st)
    OM = orphans(st)
    k, j, x, y, u, z = qv("sk"), qv("sj"), qv("sx", Ref), qv("sy", Ref), qv("su", Ref), qv("sz", Ref)
    fw, rv = C1.fwd(xk(k)), C1.rev(xk(k))
    in_t = z3.And(0 <= k, k < t)
    orph = _orph(E)
    moved = (lambda v: z3.Or(_listed(E, v, t), OM[v])) if orph else (lambda v: _listed(E, v, t))
    left = (lambda v: z3.Or(_listed(E, v, t), OM[v], _gone(E, st, v))) if orph else (lambda v: _listed(E, v, t))
    cs = [
        # model.reactions: entry content minus the first t listed reactions, order kept, well formed
        C15._removed_view(_dl_env(E), st, _rxns(E, st), t),
        # model pointers
        FA([k], z3.Implies(in_t, mo[xk(k)] == NULL), patterns=[mo[xk(k)]]),
        FA([x], z3.Implies(mo[x] != mo0[x], moved(x)), patterns=[mo[x]]),
        # back-references of metabolites and genes
        FA([k, y], z3.Implies(z3.And(in_t, z3.Or(Mt[xk(k)][y], G[xk(k)][y])), z3.Not(R[y][xk(k)])), patterns=[R[y][xk(k)]]),
        FA([y, x], z3.Implies(R[y][x] != R0[y][x], z3.And(_listed(E, x, t), z3.Or(Mt[x][y], G[x][y]))),
           patterns=[R[y][x]]),
        # groups of the model
        FA([k, j], z3.Implies(z3.And(in_t, 0 <= j, j < gn), z3.Not(M[z3.Select(ge, j)][xk(k)])),
           patterns=[M[z3.Select(ge, j)][xk(k)]]),
        FA([y, x], z3.Implies(M[y][x] != M0[y][x], z3.And(left(x), _in_groups(E, y))), patterns=[M[y][x]]),
        # solver calls: one pair per reaction, the coefficients zeroed before the removal
        T["slc_n"] == t, T["rcv_n"] == t,
        FA([k, u], z3.Implies(in_t, z3.Select(T["slc_dom"], k)[u] == z3.Or(u == fw, u == rv)), patterns=[z3.Select(T["slc_dom"], k)[u]]),
        FA([k], z3.Implies(in_t, z3.And(z3.Select(T["slc_val"], k)[fw] == 0, z3.Select(T["slc_val"], k)[rv] == 0,
                                        z3.Select(T["rcv_len"], k) == 2, z3.Select(T["rcv_elem"], k)[0] == fw,
                                        z3.Select(T["rcv_elem"], k)[1] == rv, fw != rv,
                                        z3.Select(T["slc_time"], k) < z3.Select(T["rcv_time"], k))),
           patterns=[z3.Select(T[a_], k) for a_ in ("slc_val", "rcv_len", "rcv_elem", "slc_time", "rcv_time")])]
    if orph:
        empty = lambda v: R[v] == EMPTY  # noqa
        cs += [
            # no back-reference is added
            FA([y, x], z3.Implies(R[y][x], R0[y][x]), patterns=[R[y][x]]),
            # model.genes: entry content minus the genes that left, order kept, well formed
            _genes_view(E, st),
            # the genes that left are exactly the orphaned genes; no group of the model contains one
            FA([y], z3.Implies(_gone(E, st, y), z3.And(empty(y), z3.Exists([k], z3.And(in_t, G[xk(k)][y], R0[y][xk(k)])))),
               patterns=[_gdom(E, st, y)]),
            FA([k, y], z3.Implies(z3.And(in_t, G[xk(k)][y], R0[y][xk(k)], empty(y)), _gone(E, st, y)), patterns=[G[xk(k)][y]]),
            FA([y, j], z3.Implies(z3.And(_gone(E, st, y), 0 <= j, j < gn), z3.Not(M[z3.Select(ge, j)][y])),
               patterns=[M[z3.Select(ge, j)][y]]),
            # Model.remove_metabolites was called exactly on the orphaned metabolites; they have no model pointer, no group of the
            # model contains one
            FA([y], z3.Implies(OM[y], z3.And(empty(y), mo[y] == NULL, z3.Exists([k], z3.And(in_t, Mt[xk(k)][y], R0[y][xk(k)])))),
               patterns=[OM[y]]),
            FA([k, y], z3.Implies(z3.And(in_t, Mt[xk(k)][y], R0[y][xk(k)], empty(y)), OM[y]), patterns=[Mt[xk(k)][y]]),
            FA([y, j], z3.Implies(z3.And(OM[y], 0 <= j, j < gn), z3.Not(M[z3.Select(ge, j)][y])), patterns=[M[z3.Select(ge, j)][y]])]
    return z3.And(*cs)


def _genes_view(E, st):
    """model.genes now holds its entry content minus the genes of the ghost set `rr_gone`: well formed, surviving identifiers name
    the same element, exactly the members recorded in the ghost set are gone, the relative order is kept"""
    dl0, dl = _genes(E, E.s0), _genes(E, st)
    n0, e0 = L(E.s0, dl0)
    dom0, val0 = Dv(E.s0, dl0)
    n, e = L(st, dl)
    dom, val = Dv(st, dl)
    k, k2, y = qv("vk", Id), qv("vk2", Id), qv("vy", Ref)
    OG = gone(st)
    return z3.And(WF(E, st, dl),
                  FA([k], z3.Implies(z3.Select(dom, k), z3.And(z3.Select(dom0, k), e[val[k]] == e0[val0[k]])), patterns=[z3.Select(dom, k)]),
                  FA([y], z3.Implies(OG[y], z3.And(_member0(E, y), z3.Not(z3.Select(dom, idarr(E, E.s0)[y])))), patterns=[OG[y]]),
                  FA([k], z3.Implies(z3.And(z3.Select(dom0, k), z3.Not(z3.Select(dom, k))), OG[e0[val0[k]]]), patterns=[z3.Select(dom0, k)]),
                  FA([k, k2], z3.Implies(z3.And(z3.Select(dom, k), z3.Select(dom, k2)), (val[k] < val[k2]) == (val0[k] < val0[k2])),
                     patterns=[z3.MultiPattern(z3.Select(dom, k), z3.Select(dom, k2))]))


def _post(E):
    return _state(E, E.s1, _arg(E)[0])


def _inv_outer(E, Lc):
    n, e = _arg(E)
    st, i = Lc.st, Lc.i
    dl = _rxns(E, st)
    dn, de = L(st, dl)
    dom, val = Dv(st, dl)
    ids = idarr(E, E.s0)
    mo = Hh(E, st, "_model")
    k = qv("ok")
    xk = z3.Select(e, k)
    # helper conjunct (a consequence of the first one and of the precondition, stated so that the calls in the body find it): the
    # reactions still to come are members of the current list and point at the model
    pending = z3.And(FA([k], z3.Implies(z3.And(i <= k, k < n), z3.And(z3.Select(dom, ids[xk]), z3.Select(de, z3.Select(val, ids[xk])) == xk)),
                        patterns=[xk]),
                     FA([k], z3.Implies(z3.And(i <= k, k < n), mo[xk] == _me(E)), patterns=[mo[xk]]))
    return z3.And(Lc.n == n, _state(E, st, i), pending)


def _cur(Lc):
    return Lc.var("reaction").t


def _carried(E, Lc, new_gone=None):
    """remove_orphans=True, inner loops: what the outer invariant says about the orphans and has to be carried through a loop that
    writes `_reaction`, `_model`, `_members`, the ghost set of orphaned metabolites (and, the gene loop, model.genes)"""
    st, s_in = Lc.st, Lc.entry
    gn, ge = _groups(E, E.s0)
    R_in, R = Hh(E, s_in, "_reaction"), Hh(E, st, "_reaction")
    M = Hh(E, st, "_members")
    OM = orphans(st)
    y, z, j = qv("cy", Ref), qv("cz", Ref), qv("cj")
    return [FA([y, z], z3.Implies(R[y][z], R_in[y][z]), patterns=[R[y][z]]),
            FA([y], z3.Implies(_gone(E, st, y), R[y] == EMPTY), patterns=[_gone(E, st, y)]),
            FA([y], z3.Implies(OM[y], R[y] == EMPTY), patterns=[OM[y]]),
            FA([y, j], z3.Implies(z3.And(_gone(E, st, y), 0 <= j, j < gn), z3.Not(M[z3.Select(ge, j)][y])),
               patterns=[M[z3.Select(ge, j)][y]]),
            FA([y, j], z3.Implies(z3.And(OM[y], 0 <= j, j < gn), z3.Not(M[z3.Select(ge, j)][y])), patterns=[M[z3.Select(ge, j)][y]])]


def _inv_members(field):
    """loops over reaction._metabolites / reaction._genes (set iteration, ghost enumeration order / pos): exactly the elements
    enumerated so far have lost the reaction; nothing else has changed since the loop was entered"""
    def inv(E, Lc):
        r = _cur(Lc)
        st, s_in, i = Lc.st, Lc.entry, Lc.i
        _, order, pos, dom = Lc.seq.src[:4]
        R_in, R = Hh(E, s_in, "_reaction"), Hh(E, st, "_reaction")
        y, x, z = qv("my", Ref), qv("mx", Ref), qv("mz", Ref)
        seen = lambda v: z3.And(z3.Select(dom, v), z3.Select(pos, v) < i)  # noqa
        orph = _orph(E)
        cs = [FA([y], z3.Implies(seen(y), z3.Not(R[y][r])), patterns=[R[y][r]]),
              FA([y, x], z3.Implies(R[y][x] != R_in[y][x], z3.And(x == r, seen(y))), patterns=[R[y][x]])]
        if not orph:
            return z3.And(*cs)
        mo_in, mo = Hh(E, s_in, "_model"), Hh(E, st, "_model")
        M_in, M = Hh(E, s_in, "_members"), Hh(E, st, "_members")
        empty = lambda v: R[v] == EMPTY  # noqa
        cs += _carried(E, Lc)
        if field == "_metabolites":
            OM_in, OM = orphans(s_in), orphans(st)
            new = lambda v: z3.And(OM[v], z3.Not(OM_in[v]))  # noqa
            cs += [FA([y], z3.Implies(OM_in[y], OM[y]), patterns=[OM_in[y]]),
                   FA([y], z3.Implies(new(y), z3.And(seen(y), R_in[y][r], mo[y] == NULL)), patterns=[OM[y]]),
                   FA([y], z3.Implies(z3.And(seen(y), R_in[y][r], empty(y)), OM[y]), patterns=[z3.Select(pos, y)]),
                   FA([x], z3.Implies(mo[x] != mo_in[x], new(x)), patterns=[mo[x]]),
                   FA([y, x], z3.Implies(M[y][x] != M_in[y][x], z3.And(new(x), _in_groups(E, y))), patterns=[M[y][x]])]
        else:
            new = lambda v: z3.And(_gone(E, st, v), z3.Not(_gone(E, s_in, v)))  # noqa
            cs += [_genes_view(E, st),
                   FA([y], z3.Implies(_gone(E, s_in, y), _gone(E, st, y)), patterns=[_gone(E, s_in, y)]),
                   FA([y], z3.Implies(new(y), z3.And(seen(y), R_in[y][r])), patterns=[_gdom(E, st, y)]),
                   FA([y], z3.Implies(z3.And(seen(y), R_in[y][r], empty(y)), _gone(E, st, y)), patterns=[z3.Select(pos, y)]),
                   FA([y, x], z3.Implies(M[y][x] != M_in[y][x], z3.And(new(x), _in_groups(E, y))), patterns=[M[y][x]])]
        return z3.And(*cs)
    return inv


def _inv_groups(element, the_list):
    """loops over the groups associated with the reaction / with an orphaned gene: the groups visited so far have lost the element;
    nothing else has changed since the loop was entered"""
    def inv(E, Lc):
        r = Lc.var(element).t
        gn, ge = L(Lc.st, the_list(Lc))
        M_in, M = Hh(E, Lc.entry, "_members"), Hh(E, Lc.st, "_members")
        j, w, y, x = qv("aj"), qv("aw"), qv("ay", Ref), qv("ax", Ref)
        pats = [z3.Select(ge, j)]
        flt = _last_filter(Lc.st)
        if flt is not None:
            pats.append(z3.Select(flt[0], j))       # also instantiated at the ghost positions of Model.get_associated_groups
        return z3.And(Lc.n == gn,
                      z3.ForAll([j], z3.Implies(z3.And(0 <= j, j < Lc.i), z3.Not(M[z3.Select(ge, j)][r])), patterns=pats),
                      FA([y, x], z3.Implies(M[y][x] != M_in[y][x],
                                            z3.And(x == r, z3.Exists([w], z3.And(0 <= w, w < Lc.i, z3.Select(ge, w) == y)))),
                         patterns=[M[y][x]]))
    return inv


def _mod(E):
    dl = _rxns(E, E.s0)
    # the attributes keep naming the same DictList objects, whose content changes
    locs = dl_locs(Env({"self": dl}, E.s0, eng=E.eng)) + [("attr", E["self"], "reactions", lambda st: (st, dl)), ("heap", "_model"),
                                                         ("heap", "_reaction"), ("heap", "_members"),
                                                         ("ghost", "rr_trace", _fresh_trace)]
    if _orph(E):
        gl = _genes(E, E.s0)
        locs += dl_locs(Env({"self": gl}, E.s0, eng=E.eng)) + [("attr", E["self"], "genes", lambda st: (st, gl)), _ORPH_LOC, _GONE_LOC]
    return locs


_ORPH_LOC = ("ghost", "rr_orph", lambda st: fresh("rr_orph", RefSet))
_GONE_LOC = ("ghost", "rr_gone", lambda st: fresh("rr_gone", RefSet))


def _genes_locs(E, Lc):
    gl = _genes(E, Lc.st)
    return [("list", gl), ("dict", dict_of(Lc.st, gl))]


def _outer_mod(E, Lc):
    dl = _rxns(E, Lc.st)
    locs = [("list", dl), ("dict", dict_of(Lc.st, dl)), ("heap", "_model"), ("heap", "_reaction"), ("heap", "_members"),
            ("ghost", "rr_trace", _fresh_trace)]
    return locs + (_genes_locs(E, Lc) + [_ORPH_LOC, _GONE_LOC] if _orph(E) else [])


def _met_mod(E, Lc):
    return [("heap", "_reaction")] + ([("heap", "_model"), ("heap", "_members"), _ORPH_LOC] if _orph(E) else [])


def _gene_mod(E, Lc):
    return [("heap", "_reaction")] + ([("heap", "_members"), _GONE_LOC] + _genes_locs(E, Lc) if _orph(E) else [])


def pcase_(case, **over):
    case.params_override = over
    return case


_c_keep = pcase_(Case("remove_orphans_false", ensures=_post), remove_orphans=TConc(False))
_c_orph = pcase_(Case("remove_orphans_true", ensures=_post), remove_orphans=TConc(True))
_c_keep.applies = lambda a, st: z3.is_false(z3.simplify(a["remove_orphans"].t))
_c_orph.applies = lambda a, st: z3.is_true(z3.simplify(a["remove_orphans"].t))
_MEMBERS = lambda Lc: Lc.var("associated_groups")  # noqa
REG.add(Contract(MM, "Model.remove_reactions", "C02",
                 [("self", _model_t()), ("reactions", TList("ref:Reaction")), ("remove_orphans", TConc(False))],
                 [_c_keep, _c_orph], pre=_pre, modifies=_mod, key="Model.remove_reactions",
                 loops={0: LoopSpec(_inv_outer, _outer_mod),
                        1: LoopSpec(_inv_members("_metabolites"), _met_mod),
                        2: LoopSpec(_inv_members("_genes"), _gene_mod),
                        3: LoopSpec(_inv_groups("gene", lambda Lc: Lc.seq.src), lambda E, Lc: [("heap", "_members")]),
                        4: LoopSpec(_inv_groups("reaction", _MEMBERS), lambda E, Lc: [("heap", "_members")])},
                 note="no context open; the argument is a list of members of model.reactions, none listed twice, each pointing at the "
                      "model; remove_orphans a literal False / True; the solver calls (objective.set_linear_coefficients, "
                      "Model.remove_cons_vars) are recorded in a ghost trace, not executed; remove_orphans=True: "
                      "Model.remove_metabolites(<one metabolite that lists no reaction>) is an abstract call with an ASSUMED effect "
                      "(model pointer cleared, removed from the groups of the model, nothing else of this contract's views), genes of "
                      "listed reactions are members of model.genes, metabolites / genes / listed reactions are disjoint"))
