"""C02 — Model.remove_reactions (a LIST of reactions that are members of the model, no context open).

Documented: "Remove reactions from the model. ... remove_orphans: Remove orphaned genes and metabolites from the model as well
(default False)."  The invariant it has to keep (C02): model.reactions is a well-formed DictList, a reaction that is not in the
model has no model pointer, no metabolite / gene / group of the model refers to a reaction that has left the model.
Views: metabolites(r) = heap field `_metabolites` (the KEY SET of the stoichiometry dictionary: the function only iterates over
it), genes(r) = `_genes`, reactions(x) = `_reaction` (metabolites and genes), members(g) = `_members`, owner = `_model`.

PROVED, for argument lists of any length and a model with any number of reactions / groups (key `Model.remove_reactions`):
  * model.reactions afterwards is its entry content minus the listed reactions, the other members in their order, and is a well
    formed DictList again (list and identifier index agree); every listed reaction has `_model` None; no other model pointer changes;
  * solver calls (ghost trace with a clock): exactly one `model.solver.objective.set_linear_coefficients(d)` and one
    `model.remove_cons_vars(l)` per listed reaction, in the order of the list; for the k-th reaction r the dictionary d is exactly
    {r.forward_variable: 0, r.reverse_variable: 0}, the list l is exactly [r.forward_variable, r.reverse_variable], and the objective
    coefficients are zeroed BEFORE the variables are removed (time stamp of the first call < time stamp of the second: the
    repair 970afa3);
  * back-references: afterwards no metabolite and no gene of a listed reaction lists that reaction; the only pairs (x, r) whose
    membership `r in x._reaction` differs from entry are those with r listed and x a metabolite or gene of r; the heap fields
    `_metabolites`, `_genes` (the reactions' own view) and `_id` are not written (frame);
  * groups: afterwards no group of model.groups contains a listed reaction; the only pairs (g, m) whose membership `m in g._members`
    differs from entry are those with m a listed reaction and g a group of model.groups (Group.remove_members and
    Model.get_associated_groups through their proved contracts);
  * nothing else is modified (frame: model.groups, the context stack, the solver objects, the argument list).
Case `remove_orphans_false`: remove_orphans is False.
Case `remove_orphans_true`: remove_orphans is True; everything above, and additionally Model.remove_metabolites is called (recorded
    in the ghost trace, ASSUMED to touch nothing that this contract talks about - see the note of the case) exactly for the
    metabolites that ... (only if listed in CASES below).

PRECONDITIONS (stated, not proved here): no context is open (`model._contexts` empty: no undo bookkeeping); the argument is a list
whose items are members of model.reactions (each is the identical object found under its identifier) and no item is listed twice
(an item that is not in the model - or listed a second time - only produces a warning in the code: NOT covered); every listed
reaction points at the model (C02 invariant: members point at their model); model.reactions is well formed.
ASSUMED: the getters Reaction.forward_variable / reverse_variable (contracts/c01_lp.py: the two optlang variables of a reaction in
a model, distinct objects); `objective.set_linear_coefficients` and `Model.remove_cons_vars` are external / not executed: they are
recorded with their arguments in the ghost trace and assumed not to touch the cobra objects (reaction lists, back-references, groups).
"""
import z3
import cobra  # noqa
from .common import *  # noqa
from . import c01_lp as C1
from . import c02_xref as X
from . import c03_context as C3
from . import c15_dictlist as C15
from pyvc.values import ident_of
from pyvc.state import alloc_list

MM = "cobra/core/model.py"
REG.fields.update({"_reaction": "set:ref:Reaction", "_model": "ref:Model", "_metabolites": "set:ref:Metabolite",
                   "_genes": "set:ref:Gene", "_members": "set:ref:Object"})
REG.inline.add("Model.solver@getter")
REG.external_classes = getattr(REG, "external_classes", set()) | {"Solver", "Objective"}
I_ = z3.IntSort()
RefSet = z3.ArraySort(Ref, z3.BoolSort())


def _model_t():
    return TObj("Model", {"_contexts": TList("ref:HistoryManager"), "reactions": TDictList("Reaction"),
                          "groups": TDictList("Group"), "_solver": TObj("Solver", {"objective": TObj("Objective", {})})})


def Hh(E, st, f):
    return E.eng.heap_arr(st, f)


# ---------------------------------------------------------------- ghost trace of the solver calls
# Two event sequences and a common clock.  Event k of `slc` (objective.set_linear_coefficients(d)): the dictionary d as (dom, val),
# and the time of the call; event k of `rcv` (model.remove_cons_vars(l)): the list l as (len, elem), and the time of the call.
TR = (("clock", I_), ("slc_n", I_), ("slc_dom", z3.ArraySort(I_, RefSet)), ("slc_val", z3.ArraySort(I_, z3.ArraySort(Ref, I_))),
      ("slc_time", z3.ArraySort(I_, I_)), ("rcv_n", I_), ("rcv_len", z3.ArraySort(I_, I_)),
      ("rcv_elem", z3.ArraySort(I_, z3.ArraySort(I_, Ref))), ("rcv_time", z3.ArraySort(I_, I_)))


def _trace0():
    t = {nm: z3.Const("rr0_" + nm, srt) for nm, srt in TR}
    t.update(clock=z3.IntVal(0), slc_n=z3.IntVal(0), rcv_n=z3.IntVal(0))
    return t


def _fresh_trace(st):
    return {nm: fresh("rr_" + nm, srt) for nm, srt in TR}


def trace(st):
    return st.ghost.get("rr_trace") or _trace0()


def _entry_model(eng):
    m = (getattr(eng, "entry_args", None) or {}).get("self")
    return m if isinstance(m, VObj) and m.cls == "Model" else None


def call_method_hook(eng, st, recv, name, pos, kw):
    m = _entry_model(eng)
    if m is None:
        return None
    if isinstance(recv, VObj) and recv.cls == "Objective" and name == "set_linear_coefficients" and len(pos) == 1 and not kw:
        # only THE objective of THE solver of the model under contract
        sol = st.objs[m.oid].get("attr:_solver")
        if not (isinstance(sol, VObj) and isinstance(st.objs[sol.oid].get("attr:objective"), VObj)
                and st.objs[sol.oid]["attr:objective"].oid == recv.oid):
            return None
        d = pos[0]
        rec = st.objs[d.oid] if isinstance(d, VObj) and d.kind == "dict" else None
        if rec is None or rec.get("lazy") or rec.get("pure") or not rec["kkind"].startswith("ref") or rec["vkind"] != "int":
            raise Unsupported("set_linear_coefficients: the recorded call needs a {variable: int} dictionary")
        t = dict(trace(st))
        k = t["slc_n"]
        t.update(slc_dom=z3.Store(t["slc_dom"], k, rec["dom"]), slc_val=z3.Store(t["slc_val"], k, rec["val"]),
                 slc_time=z3.Store(t["slc_time"], k, t["clock"]), slc_n=k + 1, clock=t["clock"] + 1)
        return [("ok", st.setghost("rr_trace", t), NONE)]
    if isinstance(recv, VObj) and recv.oid == m.oid and name == "remove_cons_vars" and len(pos) == 1 and not kw:
        l = pos[0]
        rec = st.objs[l.oid] if isinstance(l, VObj) and l.kind == "list" else None
        if rec is None or "elem" not in rec or not str(rec.get("ekind", "")).startswith("ref"):
            raise Unsupported("remove_cons_vars: the recorded call needs a list of variables")
        t = dict(trace(st))
        k = t["rcv_n"]
        t.update(rcv_len=z3.Store(t["rcv_len"], k, rec["len"]), rcv_elem=z3.Store(t["rcv_elem"], k, rec["elem"]),
                 rcv_time=z3.Store(t["rcv_time"], k, t["clock"]), rcv_n=k + 1, clock=t["clock"] + 1)
        return [("ok", st.setghost("rr_trace", t), NONE)]
    return None


HOOKS = {"call_method": call_method_hook}


# ---------------------------------------------------------------- Model.get_associated_groups at a call site
# The proved post-condition (contracts/c02_xref.py) speaks about the ghost index maps of the list comprehension; at a call site
# they are skolem constants installed by the result builder, and the post-condition is the proved one, word for word.
def _gag_call_result(eng, st, E):
    st, l = alloc_list(st, "ref:Group")
    n, _ = L(st, st.objs[E["self"].oid]["attr:groups"])
    s_, d_ = fresh("gag_src", z3.ArraySort(I_, I_)), fresh("gag_dst", z3.ArraySort(I_, I_))
    return st.setghost(("filter", fresh_name("gag_call")), (s_, d_, n)), l


_gag_cc = Case("any", ensures=X._gag_post)
_gag_cc.result = _gag_call_result
REG.get("Model.get_associated_groups").call_cases = [_gag_cc]


def _last_filter(st):
    src = [v for k, v in st.ghost.items() if isinstance(k, tuple) and k[0] == "filter"]
    return src[-1] if src else None


# ---------------------------------------------------------------- specification
def _me(E):
    return ident_of(E["self"].oid)


def _arg(E):
    return L(E.s0, E["reactions"])


def _rxns(E, st):
    return st.objs[E["self"].oid]["attr:reactions"]


def _groups(E, st):
    return L(st, st.objs[E["self"].oid]["attr:groups"])


def _dl_env(E):
    """environment of the DictList specification fragments: self = model.reactions, other = the argument"""
    return Env({"self": _rxns(E, E.s0), "other": E["reactions"]}, E.s0, eng=E.eng)


def _listed(E, x, hi):
    n, e = _arg(E)
    k = qv("lk")
    return z3.Exists([k], z3.And(0 <= k, k < hi, z3.Select(e, k) == x))


def _in_groups(E, g):
    n, e = _groups(E, E.s0)
    j = qv("gj")
    return z3.Exists([j], z3.And(0 <= j, j < n, z3.Select(e, j) == g))


def _pre(E):
    n, e = _arg(E)
    k = qv("pk")
    mo0 = Hh(E, E.s0, "_model")
    return z3.And(WF(E, E.s0, _rxns(E, E.s0)), _groups(E, E.s0)[0] >= 0,
                  C3._ctxs(E.s0, E["self"])[0] == 0,                                  # no context open
                  C15._found_all_distinct(_dl_env(E)),                                # members, none listed twice
                  FA([k], z3.Implies(z3.And(0 <= k, k < n), z3.And(z3.Select(e, k) != NULL, mo0[z3.Select(e, k)] == _me(E))),
                     patterns=[z3.Select(e, k)]))


def _state(E, st, t):
    """what holds after the first t listed reactions were removed (t = length of the argument: the post-condition)"""
    n, e = _arg(E)
    gn, ge = _groups(E, E.s0)
    xk = lambda k: z3.Select(e, k)  # noqa
    mo0, mo = Hh(E, E.s0, "_model"), Hh(E, st, "_model")
    R0, R = Hh(E, E.s0, "_reaction"), Hh(E, st, "_reaction")
    M0, M = Hh(E, E.s0, "_members"), Hh(E, st, "_members")
    Mt, G = Hh(E, E.s0, "_metabolites"), Hh(E, E.s0, "_genes")
    T = trace(st)
    k, j, x, y, u = qv("sk"), qv("sj"), qv("sx", Ref), qv("sy", Ref), qv("su", Ref)
    fw, rv = C1.fwd(xk(k)), C1.rev(xk(k))
    in_t = z3.And(0 <= k, k < t)
    return z3.And(
        # model.reactions: entry content minus the first t listed reactions, order kept, well formed
        C15._removed_view(_dl_env(E), st, _rxns(E, st), t),
        # model pointers
        FA([k], z3.Implies(in_t, mo[xk(k)] == NULL), patterns=[xk(k)]),
        FA([x], z3.Implies(mo[x] != mo0[x], _listed(E, x, t)), patterns=[mo[x]]),
        # back-references of metabolites and genes
        FA([k, y], z3.Implies(z3.And(in_t, z3.Or(Mt[xk(k)][y], G[xk(k)][y])), z3.Not(R[y][xk(k)])), patterns=[R[y][xk(k)]]),
        FA([y, x], z3.Implies(R[y][x] != R0[y][x], z3.And(_listed(E, x, t), z3.Or(Mt[x][y], G[x][y]))), patterns=[R[y][x]]),
        # groups of the model
        FA([k, j], z3.Implies(z3.And(in_t, 0 <= j, j < gn), z3.Not(M[z3.Select(ge, j)][xk(k)])),
           patterns=[M[z3.Select(ge, j)][xk(k)]]),
        FA([y, x], z3.Implies(M[y][x] != M0[y][x], z3.And(_listed(E, x, t), _in_groups(E, y))), patterns=[M[y][x]]),
        # solver calls: one pair per reaction, the coefficients zeroed before the removal
        T["slc_n"] == t, T["rcv_n"] == t,
        FA([k, u], z3.Implies(in_t, z3.Select(T["slc_dom"], k)[u] == z3.Or(u == fw, u == rv)), patterns=[z3.Select(T["slc_dom"], k)[u]]),
        FA([k], z3.Implies(in_t, z3.And(z3.Select(T["slc_val"], k)[fw] == 0, z3.Select(T["slc_val"], k)[rv] == 0,
                                        z3.Select(T["rcv_len"], k) == 2, z3.Select(T["rcv_elem"], k)[0] == fw,
                                        z3.Select(T["rcv_elem"], k)[1] == rv, fw != rv,
                                        z3.Select(T["slc_time"], k) < z3.Select(T["rcv_time"], k))), patterns=[xk(k)]))


def _post(E):
    return _state(E, E.s1, _arg(E)[0])


def _inv_outer(E, Lc):
    n, e = _arg(E)
    st, i = Lc.st, Lc.i
    dl = _rxns(E, st)
    dn, de = L(st, dl)
    dom, val = Dv(st, dl)
    ids = idarr(E, E.s0)
    mo = Hh(E, st, "_model")
    k = qv("ok")
    xk = z3.Select(e, k)
    # helper conjunct (a consequence of the first one and of the precondition, stated so that the calls in the body find it): the
    # reactions still to come are members of the current list and point at the model
    pending = FA([k], z3.Implies(z3.And(i <= k, k < n), z3.And(z3.Select(dom, ids[xk]), z3.Select(de, z3.Select(val, ids[xk])) == xk,
                                                               mo[xk] == _me(E))), patterns=[xk])
    return z3.And(Lc.n == n, _state(E, st, i), pending)


def _cur(Lc):
    return Lc.var("reaction").t


def _inv_members(field):
    """loops over reaction._metabolites / reaction._genes (set iteration, ghost enumeration order / pos): exactly the elements
    enumerated so far have lost the reaction; nothing else has changed since the loop was entered"""
    def inv(E, Lc):
        r = _cur(Lc)
        _, order, pos, dom = Lc.seq.src[:4]
        R_in, R = Hh(E, Lc.entry, "_reaction"), Hh(E, Lc.st, "_reaction")
        y, x = qv("my", Ref), qv("mx", Ref)
        return z3.And(FA([y], z3.Implies(z3.And(z3.Select(dom, y), z3.Select(pos, y) < Lc.i), z3.Not(R[y][r])), patterns=[R[y][r]]),
                      FA([y, x], z3.Implies(R[y][x] != R_in[y][x], z3.And(x == r, z3.Select(dom, y), z3.Select(pos, y) < Lc.i)),
                         patterns=[R[y][x]]))
    return inv


def _inv_groups(E, Lc):
    """loop over the associated groups: the groups visited so far have lost the reaction; nothing else has changed"""
    r = _cur(Lc)
    lst = Lc.var("associated_groups")
    gn, ge = L(Lc.st, lst)
    M_in, M = Hh(E, Lc.entry, "_members"), Hh(E, Lc.st, "_members")
    j, w, y, x = qv("aj"), qv("aw"), qv("ay", Ref), qv("ax", Ref)
    pats = [z3.Select(ge, j)]
    flt = _last_filter(Lc.st)
    if flt is not None:
        pats.append(z3.Select(flt[0], j))       # also instantiated at the ghost positions of Model.get_associated_groups
    return z3.And(Lc.n == gn,
                  z3.ForAll([j], z3.Implies(z3.And(0 <= j, j < Lc.i), z3.Not(M[z3.Select(ge, j)][r])), patterns=pats),
                  FA([y, x], z3.Implies(M[y][x] != M_in[y][x],
                                        z3.And(x == r, z3.Exists([w], z3.And(0 <= w, w < Lc.i, z3.Select(ge, w) == y)))),
                     patterns=[M[y][x]]))


def _mod(E):
    dl = _rxns(E, E.s0)
    # the attribute keeps naming the same DictList object, whose content changes
    return dl_locs(Env({"self": dl}, E.s0, eng=E.eng)) + [("attr", E["self"], "reactions", lambda st: (st, dl)), ("heap", "_model"),
                                                         ("heap", "_reaction"), ("heap", "_members"),
                                                         ("ghost", "rr_trace", _fresh_trace)]


def _outer_mod(E, Lc):
    dl = _rxns(E, Lc.st)
    return [("list", dl), ("dict", dict_of(Lc.st, dl)), ("heap", "_model"), ("heap", "_reaction"), ("heap", "_members"),
            ("ghost", "rr_trace", _fresh_trace)]


_HEAP_R = lambda E, Lc: [("heap", "_reaction")]  # noqa
_c_keep = Case("remove_orphans_false", requires=lambda E: z3.Not(E["remove_orphans"].t), ensures=_post)
REG.add(Contract(MM, "Model.remove_reactions", "C02",
                 [("self", _model_t()), ("reactions", TList("ref:Reaction")), ("remove_orphans", TBool())],
                 [_c_keep], pre=lambda E: z3.And(_pre(E), z3.Not(E["remove_orphans"].t)), modifies=_mod, key="Model.remove_reactions",
                 loops={0: LoopSpec(_inv_outer, _outer_mod),
                        1: LoopSpec(_inv_members("_metabolites"), _HEAP_R),
                        2: LoopSpec(_inv_members("_genes"), _HEAP_R),
                        4: LoopSpec(_inv_groups, lambda E, Lc: [("heap", "_members")])},
                 note="no context open; the argument is a list of members of model.reactions, none listed twice, each pointing at the "
                      "model; remove_orphans=False; the solver calls (objective.set_linear_coefficients, Model.remove_cons_vars) are "
                      "recorded in a ghost trace, not executed"))
