"""C09 (kernel) — moma.add_moma, linear formulation (linear=True, the default): the documented secondary problem of linear MOMA.

Proved for models with any number of reactions (post-condition from the docstring: minimise sum_i |v_i - w_i| over the unchanged
flux space, the former objective kept as variable "moma_old_objective").  With S the reference solution (the one given, else the
result of the single call pfba(model), made BEFORE the objective is touched) and for EVERY reaction r, w = S.fluxes[r.id]
(looked up by the reaction's id), the function makes exactly ONE call model.add_cons_vars(L) with
    L = [Variable("moma_old_objective"), Constraint(<old objective expression> - that variable, lb=0.0, ub=0.0,
         name="moma_old_objective_constraint"), d_r1, pos_r1, neg_r1, d_r2, pos_r2, neg_r2, ...]          (len 2 + 3n)
where (d_r, pos_r, neg_r) are the three components add_absolute_expression is PROVED (same property, key
add_absolute_expression, case return_only: nothing added by the helper itself) to return for
    expression = flux_expression(r) = 1.0*forward_variable(r) - 1.0*reverse_variable(r),  name = "moma_dist_" + r.id,
    difference = w,  ub = None:
    d_r = Variable(name, lb=0, ub=None),  pos_r: expression - d_r <= w  ("abs_pos_" + name),  neg_r: expression + d_r >= w,
so that d_r >= |v_r - w| and |v_r - w| is admissible (lemmas of c09_absexpr); the objective is replaced by
Objective(Zero, direction="min", sloppy=True) and then gets coefficient 1 on every d_r and on nothing else.
A model whose solver already has a variable "moma_old_objective" raises ValueError before anything is done.
NOT covered here (bounded driver only): linear=False (quadratic objective, possible switch to a QP-capable solver).
"""
import z3
import cobra  # noqa
from .common import *  # noqa
from . import c01_lp as C1
from . import c05_fva as C5
from . import c09_absexpr as CA
from . import c09_room as CR
from pyvc import npalg as N
from pyvc.engine import STR_CONCAT
from pyvc.values import id_lit

MM = "cobra/flux_analysis/moma.py"
OLD_VAR, OLD_CONS = "moma_old_objective", "moma_old_objective_constraint"
HOOKS = CR.HOOKS


def components(E, S, r):
    """what add_absolute_expression(model, r.flux_expression, name="moma_dist_" + r.id, difference=S.fluxes[r.id], add=False) returns"""
    name = N.of_id(STR_CONCAT(id_lit("moma_dist_"), idarr(E, E.s0)[r]))
    return CA.component_terms(CR._prob(E), CR.flux_expression(r), name, N.lift(NONE), CR.reference(E, S, r))


def _blocks(E, S, elem, upto, rx):
    j = qv("bj")
    body = []
    for k in range(3):
        body.append(elem[2 + k + 3 * j] == components(E, S, rx[j])[k])
    return FA([j], z3.Implies(z3.And(0 <= j, j < upto), z3.And(*body)), patterns=[rx[j]])


def _already(E):
    return CR._already(E, OLD_VAR)


def _post(E):
    tr = E.s1.ghost.get("trace", ())
    S, ok = CR._trace_ref(E, tr)
    if not ok or S is None or tr[-1][0] != "add_cons_vars":
        return z3.BoolVal(False)
    _, recv, snap, kws, npos = tr[-1]
    if not (isinstance(recv, VObj) and recv.oid == E["model"].oid and snap is not None and snap[2] == "np" and not kws and npos == 1):
        return z3.BoolVal(False)
    ln, elem, _ = snap
    n, rx = CR._rxns(E)
    inst = E.s1.ghost.get("objective_installed")
    obj1 = E.s1.objs[CR._objective_of(E.s1, E["model"]).oid]
    x, xr, w = qv("px", N.NP), qv("pr", Ref), qv("pw")
    is_dist = z3.Exists([w], z3.And(0 <= w, w < n, x == components(E, S, rx[w])[0]))
    o1 = CR.objc_np(E.s1)
    return z3.And(ln == 2 + 3 * n, elem[0] == CR.old_variable(E, OLD_VAR), elem[1] == CR.old_constraint(E, OLD_VAR, OLD_CONS),
                  _blocks(E, S, elem, n, rx),
                  inst if inst is not None else z3.BoolVal(False), obj1["attr:direction"].t == id_lit("min"),
                  FA([x], o1[x] == z3.If(is_dist, z3.RealVal(1), z3.RealVal(0)), patterns=[o1[x]]),
                  FA([xr], C5.objc(E.s1)[xr] == 0, patterns=[C5.objc(E.s1)[xr]]))


def _loop_inv(E, Lc):
    S = CR._ref_in_loop(E, Lc)
    ta, ov = Lc.var("to_add"), Lc.var("obj_vars")
    if S is None or not (isinstance(ta, VObj) and isinstance(ov, VObj)):
        return z3.BoolVal(False)
    rta, rov = Lc.st.objs[ta.oid], Lc.st.objs[ov.oid]
    if rta["ekind"] != "np" or (rov["ekind"] != "np" and not z3.is_int_value(z3.simplify(rov["len"]))):
        return z3.BoolVal(False)
    n, rx = CR._rxns(E)
    i = Lc.i
    j = qv("ij")
    out = [rta["len"] == 2 + 3 * i, rta["elem"][0] == CR.old_variable(E, OLD_VAR), rta["elem"][1] == CR.old_constraint(E, OLD_VAR, OLD_CONS),
           _blocks(E, S, rta["elem"], i, rx), rov["len"] == i]
    if rov["ekind"] == "np":
        out.append(FA([j], z3.Implies(z3.And(0 <= j, j < i), rov["elem"][j] == components(E, S, rx[j])[0]),
                      patterns=[rx[j], rov["elem"][j]]))
    return z3.And(*out)


def _loop_mod(E, Lc):
    return [("list", Lc.var("to_add")), ("list", Lc.var("obj_vars"), "np")]


def _cases():
    out = []
    nothing_done = lambda E: z3.BoolVal(len(E.s1.ghost.get("trace", ())) == 0 and E.s1.ghost.get("objective_installed") is None)  # noqa
    for tag, t in (("reference_given", N.TNp()), ("reference_from_pfba", TNone())):
        c = Case("linear/" + tag, requires=lambda E: z3.Not(_already(E)), ensures=_post)
        bad = Case("already_moma/" + tag, requires=_already, raises="ValueError", ensures=nothing_done)
        c.params_override = bad.params_override = {"solution": t}
        out += [c, bad]
    return out


REG.add(Contract(MM, "add_moma", "C09", [("model", CR._model_t()), ("solution", N.TNp()), ("linear", TConc(True))],
                 _cases(), pre=CR._pre, modifies=CR._mod, loops={0: LoopSpec(_loop_inv, _loop_mod)}, key="add_moma",
                 note="linear=True (the default) only; the quadratic formulation is left to the bounded driver"))
