"""C16 (kernel) — sampling.core.step: every point it returns has passed the bounds guard.

numpy code is verified through the opaque array algebra (pyvc/npalg.py): operations are uninterpreted, so what is proved is the
control/data flow: on every return path the returned point p satisfies
        not any(sampler._bounds_dist(p) < -sampler.bounds_tol)
either because this very test was evaluated on it, or because it is the result of the recursive retry (same contract);
after MAX_TRIES retries a RuntimeError is raised instead.  That this guard implies feasibility in floating point, and the
choice of alpha, are not proved (bounded tier).
"""
import z3
import cobra  # noqa
from .common import *  # noqa
from pyvc import npalg as N

MC = "cobra/sampling/core.py"


def guard_ok(sampler_t, p_t):
    bd = N.term("call", N.term("attr._bounds_dist", sampler_t), p_t)
    tol = N.term("neg", N.term("attr.bounds_tol", sampler_t))
    return z3.Not(N.truthy(N.term("numpy.any", N.term("lt", bd, tol))))


def _post(E):
    if not isinstance(E.res, N.VNp):
        return z3.BoolVal(False)
    return guard_ok(E["sampler"].t, E.res.t)


def _cases():
    out = []
    for tag, t in (("fraction_given", N.TNp()), ("fraction_none", TNone())):
        c = Case(tag, ensures=_post)
        c.params_override = {"fraction": t}
        c.applies = (lambda a, st: isinstance(a["fraction"], VNone)) if tag == "fraction_none" else \
            (lambda a, st: not isinstance(a["fraction"], VNone))
        c.may_raise = "RuntimeError"
        c.ensures_on_raise = lambda E: z3.BoolVal(True)
        out.append(c)
    return out


_fr = TNone()
_fr.default = NONE
_tr = TInt()
_tr.default = VInt(0)


def _res(eng, st, E):
    return st, N.VNp(fresh("np:step_result", N.NP))


REG.add(Contract(MC, "step", "C16", [("sampler", N.TNp()), ("x", N.TNp()), ("delta", N.TNp()), ("fraction", _fr), ("tries", _tr)],
                 _cases(), key="step", result=_res))
HOOKS = N.HOOKS
