"""C18 — minimal_medium.minimal_medium: the driver, proved as data flow (DEFAULT branch: smallest total import flux; and
minimize_components=True: ONE medium with the fewest components).

Documented (docstring of minimal_medium): 'min_objective_value: the minimum growth rate (objective) that has to be achieved';
'open_exchanges: whether to ignore currently set bounds and make all exchange reactions in the model possible. If set to a number,
all exchange reactions will be opened with (-number, number) as bounds'; returns 'a pandas.Series giving the import flux for each
required import reaction and (optionally) the associated export fluxes ... Returns None, if the minimization is infeasible'.
Property C18: the medium returned lets the model reach the requested objective value with the smallest total import flux, None
exactly when no medium suffices.

EX = find_boundary_types(model, "exchange"): ASSUMED (heuristic of boundary_types.py, see c18_boundary for what is proved about it):
a list of pairwise different reactions of the model with pairwise different ids, each with a single metabolite and its two distinct
solver variables; a function of the model (the fixed names of c18_mip: the SAME list inside add_linear_obj), ghost inverse EXpos.

PROVED for `minimize_components` False (post-condition from the documentation, over the ghost trace of the calls with the state in
force at each, the template of c17_loopless):
  * CONTEXT.  every change is made inside ONE own context `with model` (the stack is the entry stack plus one at every recorded
    event) that is closed again on every exit, `return None` included: the stack is as at entry (reverting = C03 / C13).
  * OPEN.  open_exchanges false / 0: the bounds the solve sees are the entry bounds (the heap arrays are untouched).  True: every
    exchange has bounds (-1000, 1000) [the docstring only says 'make all exchange reactions possible'; 1000 is cobra's default bound],
    a number b > 0: (-b, b) as documented; every reaction that is no exchange keeps its bounds.  Precondition: entry bounds of the
    exchanges valid, the number finite and not negative (a negative number is the bounds setter's ValueError).
  * PIN.  exactly one constraint  Constraint(<objective expression AT ENTRY>, lb=min_objective_value, name="medium_obj_constraint")
    - lower bound only, no `ub` - is handed to model.add_cons_vars([..]) (the context-aware entry point) in one call, followed by
    solver.update(), BEFORE the objective is replaced.
  * OBJECTIVE.  then `model.objective = Zero` (assumed: an objective without linear coefficients, optlang's default direction) and
    add_linear_obj(model) by its PROVED contract (`add_linear_obj[EX]`, re-proved here over the fixed-name list): in the state the
    solve sees, the objective coefficient is 1 on the import variable of every exchange and 0 on every other variable, direction
    "min": the LP solved is  min total import flux  s.t. original objective >= min_objective_value, (opened) bounds.
  * SOLVE.  ONE slim_optimize() (C04 contract) after all of this, nothing in between changes bounds or objective.
  * RESULT.  None is returned EXACTLY when the status after that solve is not "optimal"; otherwise the Series returned is
    _as_medium(EX, tolerance = solver.configuration.tolerances.feasibility, exports = exports) by its PROVED contract
    (c18_asmedium: (A1) + (A2) restated here over the fluxes of THAT solve), computed INSIDE the context (before the bounds /
    objective / constraint are reverted).
PROVED for `minimize_components=True` (the bool: ONE medium; the loop `for i in range(1)` is unrolled), same CONTEXT / OPEN / PIN,
precondition: the model has at least one exchange (without, add_mip_obj raises ValueError - its stated case - outside this contract):
  * MIP.  after `model.objective = Zero`, add_mip_obj(model) by its PROVED contract (c18_mip, restated for the call site as
    `mip_effect`: the list handed to add_cons_vars is [ind(r0), row(r0), ind(r1), row(r1), ...], M the largest |bound| of the
    exchanges IN FORCE AT THAT CALL, i.e. of the opened bounds): in the state BOTH solves see, the objective has coefficient 1 on
    every indicator and 0 on every other variable term, direction "min", bounds as opened.
  * FIRST SOLVE: None is returned when its status is not optimal.  Otherwise the exclusion row  Constraint(Zero, ub=0)  - still
    EMPTY: no medium has been seen - goes through model.add_cons_vars + solver.update() and the problem is solved a SECOND time.
  * RESULT.  None when the second status is not optimal OR its value is larger than the first optimum (the code's
    numerical-instability exit; the docstring only says 'None if the minimization is infeasible'); otherwise the Series is
    _as_medium(EX, feasibility tolerance, exports) of the SECOND solve (proved contract, restated), computed inside the context.
NOT proved: minimize_components = n > 1 (the loop that collects alternative media: the exclusion coefficients dict.fromkeys(vars, 1)
over the indicators of the union of the positive entries seen so far, ub = best - 1, pd.concat of the media) - a list of Series of
symbolic length is outside the engine's containers.  Observation for that loop (reading, not a proof): the exclusion row bounds the
indicators of the UNION of all media found so far by best - 1, so an alternative medium made only of components seen in DIFFERENT
earlier media is excluded as well - 'up to n alternative solutions' in the docstring covers it.
Not claimed: that the LP / MILP optimum is what the solver returns (C04, monitored; sufficiency and minimality of the answer against
an exact LP / subset enumeration: bounded driver), the solver-side effect of add_cons_vars / update (optlang), the logged messages.

MUTANTS (tools/mutate_and_run.sh cobra/medium/<file>.py OLD NEW contracts.<module> --hooks HOOKS <key>; every one fails to verify):
 _as_medium (contracts.c18_asmedium):
   medium[rxn.id] = -flux -> = flux                      loop#0/inv-preserve.2~2 (unknown)
   abs(flux) < tolerance -> flux < tolerance             loop#0/inv-preserve.2 (sat: flux = -1/4, tolerance = 1/4)
   abs(flux) < tolerance -> abs(flux) <= tolerance       loop#0/inv-preserve.2 (sat: flux = tolerance = 1/4)
   if not exports: -> if exports:                        exit=return#1/post.1, #2/post.2
   if not exports: -> if False: (filter skipped)         exit=return#1/post.2
   len(rxn.reactants) == 1 -> len(rxn.products) == 1     loop#0/inv-preserve.2~2, 2~3
   continue -> break                                     exit=return/post.1
 minimal_medium (contracts.c18_minmedium), default branch:
   lb=min_objective_value -> ub=min_objective_value      post.1 (PIN)
   rxn.bounds = (-open_bound, open_bound) -> (0, open_bound)   loop#0/inv-preserve.2
   open_bound = 1000 -> 100                              loop#0/inv-preserve.2 (case open_exchanges_True)
   logger.debug("Applying ...") -> mod.objective = Zero (objective replaced BEFORE the pin)   post (trace shape)
   mod.objective = Zero -> pass                          post (trace shape)
   status != OPTIMAL -> == OPTIMAL (else branch)         post.11
   _as_medium(..., exports=exports) -> exports=True      post.15
   add_linear_obj(mod); mod.slim_optimize() swapped      post (trace shape)
   mod.add_cons_vars([obj_const]) -> mod.solver.add(obj_const)   post (trace shape)
   tol = ...tolerances.feasibility -> tol = 1e-6         post.14, post.15
 minimal_medium, minimize_components=True:
   Constraint(Zero, ub=0) -> ub=1                        post.15
   status != OPTIMAL or num_components > best -> and     post.24, post.25
   num_components > best -> < best                       post.24, post.25
   first status check != -> ==                           post.14
   add_mip_obj(mod) -> add_linear_obj(mod)               post (trace shape)
   _as_medium(..., exports=exports) -> exports=True (loop)   post.29
   if i == 0: -> if i == 1:                              exit=raise:IndexError/unexpected-exception
 is_boundary_type (contracts.c18_boundary): return True -> False on the SBO match; k != boundary_type -> ==; != "exchange" -> ==;
   rev_type = not reaction.reversibility -> reaction.reversibility; not any(...) -> any(...); .upper() dropped;
   excludes[boundary_type] -> excludes["demand"]: each `exit=return#k/post` sat.
 find_boundary_types: if not model.boundary -> if model.boundary (post.1 sat); boundary_type -> "exchange" inside the lambda (post.2,
   post.3); external_compartment is None -> is not None (unexpected-exception / unsupported).
"""
import z3
import cobra  # noqa
from .common import *  # noqa
from . import c01_lp as C1
from . import c03_context as C3
from . import c04_status as C4
from . import c05_fva as C5
from . import c18_medium as CM
from . import c18_mip as CMIP
from . import c18_asmedium as AM
from pyvc import npalg as N
from pyvc.values import VReal, xr_eq, xr_le
from pyvc.state import alloc_list

MMM = CM.MMM
KEY = "minimal_medium"
ALO = "add_linear_obj[EX]"
FBT = "find_boundary_types[minimal_medium]"
PIN_NAME = "medium_obj_constraint"
EXn, EXe = CMIP.EXn, CMIP.EXe
EXin = z3.Const("mm_EX_in", z3.ArraySort(Ref, z3.BoolSort()))
EXpos = z3.Const("mm_EX_pos", z3.ArraySort(Ref, I))
IMPV = z3.Const("mm_is_import_variable", z3.ArraySort(Ref, z3.BoolSort()))
ZERO_T = z3.Const("np:optlang.symbolics.Zero", N.NP)
AM.VERIFYING.add(KEY)


def _model_t():
    obj = TObj("Objective", {"value": TReal(), "direction": TStr(), "expression": N.TNp()})
    conf = TObj("Configuration", {"tolerances": TObj("Tolerances", {"feasibility": TReal()})})
    return TObj("Model", {"_contexts": TList("ref:HistoryManager"),
                          "_solver": TObj("Solver", {"status": TStr(), "objective": obj, "configuration": conf}),
                          "problem": N.TNp(), "variables": N.TNp()})


# ---------------------------------------------------------------- assumed: the exchange list
def _fbt_result(eng, st, E):
    st, l = CMIP._fbt_result(eng, st, E)
    j, x = qv("fj"), qv("fx", Ref)
    E1 = Env({}, st, eng=eng)
    st = st.assume(
        FA([j], z3.Implies(z3.And(0 <= j, j < EXn), z3.And(EXin[EXe[j]], EXpos[EXe[j]] == j)), patterns=[EXe[j]]),
        FA([x], z3.Implies(EXin[x], z3.And(0 <= EXpos[x], EXpos[x] < EXn, EXe[EXpos[x]] == x)), patterns=[EXin[x]]),
        distinct_ids(E1, st, EXn, EXe))
    return st, l


_bt = TConc("exchange")
REG.add(Contract("cobra/medium/boundary_types.py", "find_boundary_types", "C18", [("model", _model_t()), ("boundary_type", _bt)],
                 [Case("any")], assumed=True, key=FBT, result=_fbt_result, modifies=lambda E: [("ghost", "exchanges", lambda st: None)],
                 note="find_boundary_types(model, 'exchange') as used by minimal_medium and by add_linear_obj inside it: the list EX (a "
                      "function of the model: fixed names, the same list in both) of pairwise different reactions of the model with "
                      "pairwise different ids (model.reactions.query over a DictList), each with its two distinct solver variables and a "
                      "single metabolite; ghost inverse EXpos / membership EXin; WHICH reactions count as exchanges: c18_boundary"))


def import_var(E, st, r):
    return z3.If(CM.flag(E, st, "has_reactants", r), C1.rev(r), C1.fwd(r))


def _impv_axiom(E):
    """IMPV[x]: x is the import variable of some exchange (definition; has_reactants is structure, never modified here)"""
    x, j = qv("vx", Ref), qv("vj")
    return [FA([x], IMPV[x] == z3.Exists([j], z3.And(0 <= j, j < EXn, import_var(E, E.s0, EXe[j]) == x)), patterns=[IMPV[x]]),
            FA([j], z3.Implies(z3.And(0 <= j, j < EXn), IMPV[import_var(E, E.s0, EXe[j])]), patterns=[EXe[j]])]


# ---------------------------------------------------------------- add_linear_obj once more, over the fixed-name list (PROVED)
def _alo_inv(E, Lc):
    d = Lc.st.objs[Lc.var("coefs").oid]
    x, j = qv("ax", Ref), qv("aj")
    if d.get("lazy"):
        return z3.And(Lc.i == 0, Lc.n == EXn)
    return z3.And(Lc.n == EXn,
                  FA([j], z3.Implies(z3.And(0 <= j, j < Lc.i), z3.And(z3.Select(d["dom"], import_var(E, Lc.st, EXe[j])),
                                                                      z3.Select(d["val"], import_var(E, Lc.st, EXe[j])) == 1)),
                     patterns=[EXe[j]]),
                  FA([x], z3.Implies(z3.Select(d["dom"], x), IMPV[x]), patterns=[z3.Select(d["dom"], x)]))


def alo_effect(E, s0, s1, m):
    o0, o1 = C5.objc(s0), C5.objc(s1)
    x, j = qv("px", Ref), qv("pj")
    c = E.eng.eq(s1, C4.direction_of(s1, m), VConc("min"))
    return z3.And(FA([j], z3.Implies(z3.And(0 <= j, j < EXn), o1[import_var(E, s0, EXe[j])] == 1), patterns=[EXe[j]]),
                  FA([x], z3.Implies(z3.Not(IMPV[x]), o1[x] == o0[x]), patterns=[o1[x]]),
                  z3.BoolVal(c) if isinstance(c, bool) else c)


def _alo_mod(E):
    obj = C4.objective_of(E.s0, E["model"])
    return [("ghost", "objc", lambda st: fresh("objc", C5.CoefMap)),
            ("attr", obj, "direction", lambda st: (st, VStr(fresh("dir", Id))))]


REG.add(Contract(MMM, "add_linear_obj", "C18", [("model", CM._alo_model_t())],
                 [Case("any", ensures=lambda E: alo_effect(E, E.s0, E.s1, E["model"]))], key=ALO, modifies=_alo_mod, axioms=_impv_axiom,
                 loops={0: LoopSpec(_alo_inv, lambda E, Lc: [("dict", Lc.var("coefs"), "ref:Variable", "int")])},
                 note="the contract of c18_medium.add_linear_obj over the fixed-name exchange list (usable at a call site)"))


# ---------------------------------------------------------------- add_mip_obj AT A CALL SITE (its proved contract, restated)
ISIND = z3.Const("mm_is_indicator", z3.ArraySort(N.NP, z3.BoolSort()))
_IJ = z3.Const("mm_ind_j", I)


def _is_ind_exists(E, t):
    return z3.Exists([_IJ], z3.And(0 <= _IJ, _IJ < EXn, t == CMIP.ind(E, EXe[_IJ])))


def _isind_axiom(E):
    """ISIND[t]: t is the indicator variable ind(r) of some exchange r (definition; ids / problem are never modified here)"""
    t, j = qv("it", N.NP), qv("ij")
    return [FA([t], ISIND[t] == _is_ind_exists(E, t), patterns=[ISIND[t]]),
            FA([j], z3.Implies(z3.And(0 <= j, j < EXn), ISIND[CMIP.ind(E, EXe[j])]), patterns=[EXe[j]])]


def mip_effect(E0, s0, s1, m):
    """what add_mip_obj's PROVED post-condition (c18_mip._post) says, with the list handed to add_cons_vars as the ghost `mip_rows`
    and `t is an indicator` as ISIND[t]; E0: an Env whose s0 is the state at the call (ids, problem, has_reactants, M's definition)"""
    n, e = s1.ghost["mip_rows"]
    o0, o1 = CMIP.objc_np(s0), CMIP.objc_np(s1)
    j, t = qv("mj"), qv("mt", N.NP)
    c = E0.eng.eq(s1, C4.direction_of(s1, m), VConc("min"))
    return z3.And(
        n == 2 * EXn,
        FA([j], z3.Implies(z3.And(0 <= j, j < EXn), z3.And(z3.Select(e, 2 * j) == CMIP.ind(E0, EXe[j]),
                                                            z3.Select(e, 2 * j + 1) == CMIP.con(E0, EXe[j]))), patterns=[EXe[j]]),
        FA([j], z3.Implies(z3.And(0 <= j, j < EXn), o1[CMIP.ind(E0, EXe[j])] == 1), patterns=[EXe[j]]),
        FA([t], z3.Implies(z3.Not(ISIND[t]), o1[t] == o0[t]), patterns=[o1[t]]),
        z3.BoolVal(c) if isinstance(c, bool) else c)


def _mip_call_mod(E):
    obj = C4.objective_of(E.s0, E["model"])
    return [("ghost", "objc_np", lambda st: fresh("objc_np", CMIP.OBJC)),
            ("ghost", "mip_rows", lambda st: (fresh("mip_rows_len", I), fresh("mip_rows_elem", z3.ArraySort(I, N.NP)))),
            ("attr", obj, "direction", lambda st: (st, VStr(fresh("dir", Id))))]


import copy as _copy  # noqa
MIPC = _copy.copy(REG.get(CMIP.KEY))
MIPC.call_cases = [Case("has_exchanges", requires=lambda E: EXn > 0, ensures=lambda E: mip_effect(E, E.s0, E.s1, E["model"]))]
MIPC.modifies = _mip_call_mod
MIPC.axioms = lambda E: CMIP._axioms(E) + _isind_axiom(E)


# ---------------------------------------------------------------- hooks
def _verifying(eng, keys=(KEY, ALO)):
    return getattr(getattr(eng, "cur_contract", None), "key", None) in keys


def _tr(st):
    return st.ghost.get("mm_trace", ())


def _log(st, *event):
    return st.setghost("mm_trace", _tr(st) + (tuple(event),))


def _kws(kw):
    return tuple(sorted(kw.items(), key=lambda x: x[0]))


REG.add(Contract("cobra/core/model.py", "Model.objective@setter", "C18", [("self", TNone())], [Case("any")], assumed=True,
                 key="Model.objective = Zero",
                 note="`model.objective = Zero` inside minimal_medium: a NEW optlang Objective(Zero) is installed - no linear coefficient "
                      "on any variable (ghost objc := 0 everywhere), optlang's default direction 'max'; done through set_objective, i.e. "
                      "reversibly in the context (C03: contracts/c03_objective.py)"))


def global_hook(eng, name):
    if not _verifying(eng):
        return None
    if name == "find_boundary_types":
        return VFunc("repo", FBT)
    if _verifying(eng, (KEY,)):
        if name in ("add_linear_obj", "_as_medium", "add_mip_obj"):
            return VFunc("abstract", name)
        if name == "Zero":
            return N.VNp(ZERO_T)
    return None


def call_abstract(eng, st, f, pos, kw):
    if not _verifying(eng, (KEY,)):
        return None
    if f.a == "add_linear_obj":
        outs = eng.apply_contract(st, REG.get(ALO), list(pos), kw)
        return [(k, _log(s, "add_linear_obj", tuple(pos), _kws(kw), st, s) if k == "ok" else s, v) for k, s, v in outs]
    if f.a == "add_mip_obj":
        outs = eng.apply_contract(st, MIPC, list(pos), kw)
        return [(k, _log(s, "add_mip_obj", tuple(pos), _kws(kw), st, s) if k == "ok" else s, v) for k, s, v in outs]
    if f.a == "_as_medium":
        outs = eng.apply_contract(st, REG.get(AM.KEY), list(pos), kw)
        return [(k, _log(s, "as_medium", tuple(pos), _kws(kw), st, v) if k == "ok" else s, v) for k, s, v in outs]
    return None


def call_method_hook(eng, st, recv, name, pos, kw):
    if not _verifying(eng, (KEY,)) or not isinstance(recv, VObj):
        return None
    if recv.cls == "Model" and name == "add_cons_vars":
        return [("ok", _log(st, "add_cons_vars", recv, tuple(pos), _kws(kw), st), NONE)]
    if recv.cls == "Model" and name == "slim_optimize":
        res = []
        for k, s, v in eng.apply_contract(st, REG.get("Model.slim_optimize"), [recv] + list(pos), kw):
            # a solve renews the solution: the fluxes (ghost heap field of Reaction.flux) are those of THIS solve
            s = s.setheap("flux", (fresh("flux_k", z3.ArraySort(Ref, I)), fresh("flux_v", z3.ArraySort(Ref, z3.RealSort()))))
            res.append((k, _log(s, "slim_optimize", recv, tuple(pos), _kws(kw), st, s) if k == "ok" else s, v))
        return res
    if recv.cls == "Solver" and name in ("add", "remove", "update"):
        return [("ok", _log(st, "solver." + name, recv, tuple(pos), _kws(kw), st), NONE)]
    return None


def setattr_hook(eng, st, v, name, val):
    if _verifying(eng, (KEY,)) and isinstance(v, VObj) and v.cls == "Model" and name == "objective":
        from pyvc.apply import ASSUMED_USED
        ASSUMED_USED["Model.objective = Zero"] = REG.get("Model.objective = Zero").note
        if not (isinstance(val, N.VNp) and val.t.eq(ZERO_T)):
            raise Unsupported("Model.objective = <something else than Zero>")
        obj = C4.objective_of(st, v)
        s = st.setghost("objc", z3.K(Ref, z3.RealVal(0))).setghost("objc_np", z3.K(N.NP, z3.RealVal(0)))
        s = s.updobj(obj.oid, **{"attr:direction": VConc("max")})
        return [("ok", _log(s, "objective=Zero", v, st, s), NONE)]
    return None


def getattr_hook(eng, st, v, name):
    if _verifying(eng, (KEY,)) and AM._is_series(st, v) and name == "index":
        from pyvc.state import alloc_set
        st, ix = alloc_set(st, "id", base="index", dom=st.objs[v.oid]["dom"])          # the labels of the Series
        return [("ok", st, ix)]
    return None


def len_hook(eng, st, v):
    if _verifying(eng, (KEY,)) and isinstance(v, VObj) and v.kind == "set" and st.objs[v.oid].get("lazy"):
        return [("ok", st, VInt(0))]              # len(set()) of the still empty `seen`
    return None


def getitem_hook(eng, st, obj, idx):
    """media[0]: `media` is a list display that received Series by append - the engine keeps such a list as the concrete tuple of
    its items (README: lists of containers), here it is indexed with a literal"""
    if _verifying(eng, (KEY,)) and isinstance(obj, VObj) and obj.kind == "list" and st.objs[obj.oid].get("items") is not None \
            and isinstance(idx, VInt) and z3.is_int_value(z3.simplify(idx.t)):
        items = st.objs[obj.oid]["items"]
        k = z3.simplify(idx.t).as_long()
        return [("ok", st, items[k])] if -len(items) <= k < len(items) else [eng.raise_(st, "IndexError")]
    return None


def fstring_hook(eng, st, node, fid):
    return [("ok", st, VOpaque("log message"))]


HOOKS = chain_hooks({"global": global_hook, "call_abstract": call_abstract, "call_method": call_method_hook, "setattr": setattr_hook,
                     "getattr": getattr_hook, "len": len_hook, "getitem": getitem_hook},
                    chain_hooks(AM.HOOKS, N.HOOKS))
REG.external_classes = getattr(REG, "external_classes", set()) | {"Solver", "Objective", "Configuration", "Tolerances"}


# ---------------------------------------------------------------- specification
def _stack_as_at_entry(E, st):
    n0, e0 = C3._ctxs(E.s0, E["model"])
    n1, e1 = C3._ctxs(st, E["model"])
    j = qv("cj")
    return z3.And(n1 == n0, FA([j], z3.Implies(z3.And(0 <= j, j < n0), e1[j] == e0[j])))


def _in_own_context(E, st):
    n0, e0 = C3._ctxs(E.s0, E["model"])
    n1, e1 = C3._ctxs(st, E["model"])
    j = qv("oj")
    return z3.And(n1 == n0 + 1, FA([j], z3.Implies(z3.And(0 <= j, j < n0), e1[j] == e0[j])))


def _is_model(E, v):
    return isinstance(v, VObj) and v.oid == E["model"].oid


def _opening(E):
    """-> None (nothing is opened), or the bound b of (-b, b)"""
    oe = E["open_exchanges"]
    if isinstance(oe, VConc):
        return VReal(0, z3.RealVal(1000)) if oe.py is True else None
    if isinstance(oe, VBool):
        return VReal(0, z3.RealVal(1000))           # True: cobra's default bound
    return E.eng.to_real(oe)


def _opens(E):
    """the condition under which the exchanges are opened"""
    oe = E["open_exchanges"]
    if isinstance(oe, VConc):
        return z3.BoolVal(oe.py is True)
    if isinstance(oe, VBool):
        return oe.t
    return E.eng.to_real(oe).v != 0


def bounds_opened(E, st, upto=None):
    """exchanges at positions < upto have bounds (-b, b), every other reaction its entry bounds"""
    b = _opening(E)
    x = qv("bx", Ref)
    lb0, ub0 = C1.lbub(E, E.s0, x)
    lb1, ub1 = C1.lbub(E, st, x)
    done = EXin[x] if upto is None else z3.And(EXin[x], EXpos[x] < upto)
    return FA([x], z3.If(done, z3.And(xr_eq(lb1, VReal(-b.k, -b.v)), xr_eq(ub1, b)), z3.And(xr_eq(lb1, lb0), xr_eq(ub1, ub0))),
              patterns=[E.eng.heap_arr(st, "_lower_bound")[0][x]])


def _same_arrays(a, b):
    if isinstance(a, tuple):
        return all(x.eq(y) for x, y in zip(a, b))
    return a.eq(b)


def _heap_same(E, s_a, s_b, fields):
    return all(_same_arrays(E.eng.heap_arr(s_a, f), E.eng.heap_arr(s_b, f)) for f in fields)


BFIELDS = ("_lower_bound", "_upper_bound")


def _bounds_at(E, st):
    """the bounds in state st are the documented ones (formula), or None when they are plainly not"""
    b = _opening(E)
    if b is None:
        return z3.BoolVal(True) if _heap_same(E, st, E.s0, BFIELDS) else None
    same = _heap_same(E, st, E.s0, BFIELDS)
    return z3.If(_opens(E), bounds_opened(E, st), z3.BoolVal(True) if same else bounds_opened(E, st, upto=z3.IntVal(0)))


def pinned(E):
    m = E["model"]
    prob = E.s0.objs[m.oid]["attr:problem"].t
    expr0 = E.s0.objs[C4.objective_of(E.s0, m).oid]["attr:expression"].t
    return N.term("call(lb,name)", N.term("attr.Constraint", prob), expr0, N.lift(E["min_objective_value"]), N.lift(VConc(PIN_NAME)))


def _tol(E, st):
    m = E["model"]
    conf = st.objs[C4.solver_of(st, m).oid]["attr:configuration"]
    return st.objs[st.objs[conf.oid]["attr:tolerances"].oid]["attr:feasibility"]


def _is_mip(E):
    mc = E["minimize_components"]
    return isinstance(mc, VBool) and z3.is_true(z3.simplify(mc.t))


def _common(E, tr):
    """CONTEXT / OPEN / PIN and the replacement of the objective: the first three events -> conjuncts, or None"""
    m = E["model"]
    if [ev[0] for ev in tr[:3]] != ["add_cons_vars", "solver.update", "objective=Zero"]:
        return None
    _, recv, pos, kws, st_add = tr[0]
    if not (_is_model(E, recv) and len(pos) == 1 and isinstance(pos[0], N.VNp) and not kws):
        return None
    b_add = _bounds_at(E, st_add)
    if b_add is None:
        return None
    _, urecv, upos, ukws, st_upd = tr[1]
    if not (urecv.oid == C4.solver_of(E.s0, m).oid and not upos and not ukws):
        return None
    _, orecv, st_o0, st_o1 = tr[2]
    if not _is_model(E, orecv):
        return None
    return [pos[0].t == N.term("list", pinned(E)), _in_own_context(E, st_add), b_add]


def _solve_event(E, ev):
    """a slim_optimize() of the model without arguments -> (state before, state after) or None"""
    if ev[0] != "slim_optimize":
        return None
    _, srecv, spos, skws, st_solve, st_solved = ev
    if not (_is_model(E, srecv) and not spos and not skws):
        return None
    return st_solve, st_solved


def _medium_event(E, ev, st_solved):
    """the Series returned is _as_medium(EX, feasibility tolerance, exports) over the fluxes of the solve that ended in st_solved"""
    _, mpos, mkws, st_m, res = ev
    if not (isinstance(E.res, VObj) and E.res.kind == "dict" and isinstance(res, VObj) and res.oid == E.res.oid):
        return None
    if not _heap_same(E, st_m, st_solved, ("flux", "has_reactants", "_id")):
        return None
    rec = E.s1.objs[E.res.oid]
    tol = E.eng.to_real(_tol(E, E.s0))
    return [_in_own_context(E, st_m),
            AM.medium_is(E, st_solved, rec["dom"], rec["val"], EXn, EXe, lambda r: AM.kept(E, st_solved, r, tol, E["exports"].t))]


def _post(E):
    m = E["model"]
    tr = _tr(E.s1)
    kinds = [ev[0] for ev in tr]
    FALSE = z3.BoolVal(False)
    cs = _common(E, tr)
    if cs is None:
        return FALSE
    if _is_mip(E):
        return _post_mip(E, tr, kinds, cs)
    if kinds[3:5] != ["add_linear_obj", "slim_optimize"] or kinds[5:] not in ([], ["as_medium"]):
        return FALSE
    # OBJECTIVE
    _, apos, akws, st_a0, st_a1 = tr[3]
    if not (len(apos) == 1 and not akws and _is_model(E, apos[0])):
        return FALSE
    # SOLVE
    sv = _solve_event(E, tr[4])
    if sv is None:
        return FALSE
    st_solve, st_solved = sv
    b_solve = _bounds_at(E, st_solve)
    if b_solve is None:
        return FALSE
    o = C5.objc(st_solve)
    j, x = qv("qj"), qv("qx", Ref)
    d = E.eng.eq(st_solve, C4.direction_of(st_solve, m), VConc("min"))
    cs += [b_solve, _in_own_context(E, st_solve),
           FA([j], z3.Implies(z3.And(0 <= j, j < EXn), o[import_var(E, E.s0, EXe[j])] == 1), patterns=[EXe[j]]),
           FA([x], z3.Implies(z3.Not(IMPV[x]), o[x] == 0), patterns=[o[x]]),
           z3.BoolVal(d) if isinstance(d, bool) else d]
    # RESULT
    optimal = C4._is_status(C4.status_of(st_solved, m), "optimal")
    if len(tr) == 5:
        if not isinstance(E.res, VNone):
            return FALSE
        cs.append(z3.Not(optimal))
    else:
        me = _medium_event(E, tr[5], st_solved)
        if me is None:
            return FALSE
        cs += [optimal] + me
    cs.append(_stack_as_at_entry(E, E.s1))
    return z3.And(*cs)


def exclusion_row(E):
    prob = E.s0.objs[E["model"].oid]["attr:problem"].t
    return N.term("call(ub)", N.term("attr.Constraint", prob), ZERO_T, N.lift(VInt(0)))


def _post_mip(E, tr, kinds, cs):
    """minimize_components=True (ONE medium): add_mip_obj by its proved contract on the (opened) bounds, a first solve (None when
    it is not optimal), the still EMPTY exclusion row  Constraint(Zero, ub=0)  through add_cons_vars + update, a second solve of the
    same problem; None when that one is not optimal or WORSE than the first (the numerical-instability exit of the code), else
    the Series is _as_medium of the SECOND solve"""
    m = E["model"]
    FALSE = z3.BoolVal(False)
    tail = kinds[3:]
    if tail[:2] != ["add_mip_obj", "slim_optimize"]:
        return FALSE
    _, apos, akws, st_a0, st_a1 = tr[3]
    if not (len(apos) == 1 and not akws and _is_model(E, apos[0])):
        return FALSE
    b_mip = _bounds_at(E, st_a0)          # M (the big-M constant) is defined over THESE bounds
    sv1 = _solve_event(E, tr[4])
    if b_mip is None or sv1 is None:
        return FALSE
    st_s1, st_d1 = sv1

    def objective_at(st):
        o = CMIP.objc_np(st)
        j, t = qv("nj"), qv("nt", N.NP)
        d = E.eng.eq(st, C4.direction_of(st, m), VConc("min"))
        b = _bounds_at(E, st)
        if b is None:
            return None
        return [b, _in_own_context(E, st),
                FA([j], z3.Implies(z3.And(0 <= j, j < EXn), o[CMIP.ind(E, EXe[j])] == 1), patterns=[EXe[j]]),
                FA([t], z3.Implies(z3.Not(ISIND[t]), o[t] == 0), patterns=[o[t]]),
                z3.BoolVal(d) if isinstance(d, bool) else d]
    n, e = st_a1.ghost["mip_rows"]
    j = qv("rj")
    Ea = Env({"model": m}, st_a0, eng=E.eng)
    rows = FA([j], z3.Implies(z3.And(0 <= j, j < EXn), z3.And(z3.Select(e, 2 * j) == CMIP.ind(Ea, EXe[j]),
                                                               z3.Select(e, 2 * j + 1) == CMIP.con(Ea, EXe[j]))), patterns=[EXe[j]])
    o1 = objective_at(st_s1)
    if o1 is None:
        return FALSE
    cs += [b_mip, n == 2 * EXn, rows] + o1
    opt1 = C4._is_status(C4.status_of(st_d1, m), "optimal")
    best = C4.value_of(st_d1, m)
    if len(tr) == 5:
        if not isinstance(E.res, VNone):
            return FALSE
        cs.append(z3.Not(opt1))
    else:
        if tail[2:5] != ["add_cons_vars", "solver.update", "slim_optimize"] or tail[5:] not in ([], ["as_medium"]):
            return FALSE
        _, recv, pos, kws, st_x = tr[5]
        if not (_is_model(E, recv) and len(pos) == 1 and isinstance(pos[0], N.VNp) and not kws):
            return FALSE
        sv2 = _solve_event(E, tr[7])
        if sv2 is None:
            return FALSE
        st_s2, st_d2 = sv2
        o2 = objective_at(st_s2)
        if o2 is None:
            return FALSE
        opt2 = C4._is_status(C4.status_of(st_d2, m), "optimal")
        val2 = C4.value_of(st_d2, m)
        from pyvc.values import xr_lt
        worse = xr_lt(best, val2)
        cs += [opt1, pos[0].t == N.term("list", exclusion_row(E)), _in_own_context(E, st_x)] + o2
        if len(tr) == 8:
            if not isinstance(E.res, VNone):
                return FALSE
            cs.append(z3.Or(z3.Not(opt2), worse))
        else:
            me = _medium_event(E, tr[8], st_d2)
            if me is None:
                return FALSE
            cs += [opt2, z3.Not(worse)] + me
    cs.append(_stack_as_at_entry(E, E.s1))
    return z3.And(*cs)


def _pre(E):
    j = qv("pj")
    lb, ub = C1.lbub(E, E.s0, EXe[j])
    cs = [E.eng.to_real(_tol(E, E.s0)).k == 0,
          FA([j], z3.Implies(z3.And(0 <= j, j < EXn), z3.And(xr_le(lb, ub), lb.k != 1, ub.k != -1)), patterns=[EXe[j]])]
    b = _opening(E)
    if b is not None:
        cs += [b.k == 0, b.v >= 0]
    if _is_mip(E):
        cs.append(EXn > 0)             # without exchanges add_mip_obj raises ValueError (its stated case): outside this contract
    return z3.And(*cs)


def _open_inv(E, Lc):
    return z3.And(Lc.n == EXn, bounds_opened(E, Lc.st, upto=Lc.i), _in_own_context(E, Lc.st),
                  z3.BoolVal(len(_tr(Lc.st)) == 0))


BOUNDS = [("heap", "_lower_bound"), ("heap", "_upper_bound"), ("heap", "var_lb"), ("heap", "var_ub")]


def _mod(E):
    m = E["model"]
    obj = C4.objective_of(E.s0, m)
    return [("heap", "hm_len"), ("attr", m, "_contexts", lambda st: alloc_list(st, "ref:HistoryManager")),
            ("ghost", "world", lambda st: fresh("world", C3.World)), ("ghost", "mm_trace", lambda st: ()),
            ("ghost", "objc", lambda st: fresh("objc", C5.CoefMap)), ("heap", "flux"),
            ("ghost", "objc_np", lambda st: fresh("objc_np", CMIP.OBJC)), ("ghost", "mip_rows", lambda st: None),
            ("ghost", "series_mask", lambda st: None),
            ("attr", obj, "direction", lambda st: (st, VStr(fresh("dir", Id))))] + BOUNDS + \
        C4._slim_mod(Env({"self": m}, E.s0, eng=E.eng))


def _res(eng, st, E):
    return AM._res(eng, st, E)


def _cases():
    out = []
    for tag, t in (("exchanges_as_they_are", TConc(False)), ("open_exchanges_True", TConc(True)), ("open_exchanges_number", TReal())):
        c = Case("linear:" + tag, ensures=_post)
        c.params_override = {"open_exchanges": t}
        out.append(c)
        c = Case("components:single:" + tag, ensures=_post)
        c.params_override = {"open_exchanges": t, "minimize_components": TConc(True)}
        out.append(c)
    return out


_mov = TReal()
_mov.default = VReal(0, z3.RealVal("0.1"))
_exp = TBool()
_exp.default = VBool(False)
_mc = TConc(False)
_mc.default = VConc(False)
_oe = TConc(False)
_oe.default = VConc(False)
REG.add(Contract(MMM, "minimal_medium", "C18",
                 [("model", _model_t()), ("min_objective_value", _mov), ("exports", _exp), ("minimize_components", _mc), ("open_exchanges", _oe)],
                 _cases(), pre=_pre, modifies=_mod, key=KEY, result=_res, axioms=lambda E: _impv_axiom(E) + _isind_axiom(E),
                 loops={0: LoopSpec(_open_inv, lambda E, Lc: list(BOUNDS))},
                 note="minimize_components False, or True (one medium; then at least one exchange); entry bounds of the exchanges valid, a number given for open_exchanges "
                      "finite and >= 0, the solver's feasibility tolerance finite; the bounds / constraint / objective are reverted by the "
                      "context exit (C03 / C13), which the heap model here does not replay: callers see them as modified"))


# ---------------------------------------------------------------- the call-site form of add_mip_obj follows from its proved post-condition
def lemmas():
    """`mip_effect` (how add_mip_obj is seen at its call site in minimal_medium) is implied by the post-condition PROVED for it in
    c18_mip (`_post`, over a synthetic pair of states whose trace has the shape that post-condition requires), with ISIND as
    defined by `_isind_axiom`; one obligation per conjunct"""
    from pyvc.engine import Engine, Obl
    from pyvc.state import State
    eng = Engine(REG)
    st = State()
    st, model = _model_t().make(st, "l_model")
    s0 = st
    n, e = z3.Int("l_rows_len"), z3.Const("l_rows_elem", z3.ArraySort(I, N.NP))
    s1 = s0.setghost("trace", (("add_cons_vars", "np", n, e), ("solver.update",), ("set_linear_coefficients",)))
    s1 = s1.setghost("objc_np", z3.Const("l_objc_np1", CMIP.OBJC))
    obj = C4.objective_of(s0, model)
    s1 = s1.updobj(obj.oid, **{"attr:direction": VStr(z3.Const("l_dir1", Id))})
    E = Env({"model": model}, s0, s1, eng=eng)
    hyps = eng.kind_axioms(s0) + eng.kind_axioms(s1) + [CMIP._post(E)] + _isind_axiom(E)
    goal = mip_effect(E, s0, s1.setghost("mip_rows", (n, e)), model)
    return [Obl(f"C18/lemma/minimal_medium/add_mip_obj-call-site-form.{k + 1}", hyps, g, "lemma") for k, g in enumerate(goal.children())]
