"""C04 (kernel) — status handling: check_solver_status, assert_optimal, Model.slim_optimize, Model.optimize.

The solver is a materialised object with ghost-visible attributes `status` (identifier), `objective.value`,
`objective.direction`.  `solver.optimize()` is an assumed contract (GLPK): it may set any status and value.
What is proved is cobrapy's own part: a number is returned only for status optimal (unless the caller supplied the
error value), the exception class follows OPTLANG_TO_EXCEPTIONS_DICT, and optimize() leaves the direction as found on
every exit.
"""
import z3
import cobra  # noqa  (pre-import before the pool forks: module constants are read from the installed dependencies)
from .common import *  # noqa
from pyvc.values import id_lit, xr_eq, VReal

MS = "cobra/util/solver.py"
MM = "cobra/core/model.py"
REG.inline.add("Model.objective@getter")
REG.inline.add("Model.solver@getter")
REG.inline.add("Model.objective_direction@getter")

OBJ_T = lambda: TObj("Objective", {"value": TReal(), "direction": TStr()})  # noqa
SOLVER_T = lambda: TObj("Solver", {"status": TStr(), "objective": OBJ_T()})  # noqa
MODEL_T = lambda: TObj("Model", {"_solver": SOLVER_T()})  # noqa


def solver_of(st, m):
    return st.objs[m.oid]["attr:_solver"]


def status_of(st, m):
    return st.objs[solver_of(st, m).oid]["attr:status"]


def objective_of(st, m):
    return st.objs[solver_of(st, m).oid]["attr:objective"]


def value_of(st, m):
    return st.objs[objective_of(st, m).oid]["attr:value"]


def direction_of(st, m):
    return st.objs[objective_of(st, m).oid]["attr:direction"]


def S(name):
    return id_lit(name)


HAS_PRIMALS = ["numeric", "feasible", "infeasible", "suboptimal", "iteration_limit", "time_limit"]


def _is_status(v, name):
    if isinstance(v, VNone):
        return z3.BoolVal(False)
    return unwrap(v, "id") == S(name)


def _in_has_primals(v):
    if isinstance(v, VNone):
        return z3.BoolVal(False)
    return z3.Or(*[unwrap(v, "id") == S(n) for n in HAS_PRIMALS])


# ---------------------------------------------------------------- check_solver_status
def _css_cases(status_t, tag):
    P = {"status": status_t}
    mk = lambda c: pcase(c, **P)  # noqa
    def pcase(case, **over):
        case.params_override = over
        case.applies = (lambda a, st: isinstance(a["status"], VNone)) if tag == "none" else \
            (lambda a, st: not isinstance(a["status"], VNone))
        return case
    if tag == "none":
        return [mk(Case("status_none", raises="OptimizationError"))]
    return [
        mk(Case("optimal", requires=lambda E: _is_status(E["status"], "optimal"))),
        mk(Case("has_primals_no_raise", requires=lambda E: z3.And(z3.Not(_is_status(E["status"], "optimal")),
                                                                   _in_has_primals(E["status"]), z3.Not(E["raise_error"].t)))),
        mk(Case("not_optimal_raises", requires=lambda E: z3.And(z3.Not(_is_status(E["status"], "optimal")),
                                                                 z3.Not(z3.And(_in_has_primals(E["status"]), z3.Not(E["raise_error"].t)))),
                raises="OptimizationError")),
    ]


_re = TBool()
_re.default = VBool(False)
REG.add(Contract(MS, "check_solver_status", "C04", [("status", TStr()), ("raise_error", _re)],
                 _css_cases(TStr(), "str") + _css_cases(TNone(), "none"), key="check_solver_status"))

# ---------------------------------------------------------------- assert_optimal
EXC_FOR = {"infeasible": "Infeasible", "unbounded": "Unbounded", "feasible": "FeasibleButNotOptimal", "undefined": "UndefinedSolution"}


def _ao_cases():
    out = [Case("optimal", requires=lambda E: _is_status(status_of(E.s0, E["model"]), "optimal"))]
    for st_name, exc in EXC_FOR.items():
        out.append(Case(f"status_{st_name}", requires=(lambda n: lambda E: _is_status(status_of(E.s0, E["model"]), n))(st_name),
                        raises=exc))
    out.append(Case("other_status", requires=lambda E: z3.Not(z3.Or(*[_is_status(status_of(E.s0, E["model"]), n)
                                                                      for n in ["optimal"] + list(EXC_FOR)])),
                    raises="OptimizationError"))
    return out


REG.add(Contract(MS, "assert_optimal", "C04", [("model", MODEL_T()), ("message", TConc("Optimization failed"))], _ao_cases(),
                 key="assert_optimal"))
for _e in EXC_FOR.values():
    from pyvc.engine import EXC_PARENTS
    EXC_PARENTS.setdefault(_e, "OptimizationError")

# ---------------------------------------------------------------- assumed: optlang solver.optimize()
def _solver_loc(E, name="self"):
    s = E[name]
    return [("attr", s, "status", lambda st: (st, VStr(fresh("status", Id)))),
            ("attr", E.s0.objs[s.oid]["attr:objective"], "value", lambda st: _fresh_real(st))]


def _fresh_real(st):
    from pyvc.values import xr_fresh
    v, c = xr_fresh("objval")
    return st.assume(c), v


REG.add(Contract("optlang/interface.py", "Model.optimize", "C04", [("self", SOLVER_T())],
                 [Case("any", ensures=lambda E: z3.And(
                     E.s1.objs[E.s1.objs[E["self"].oid]["attr:objective"].oid]["attr:value"].v != z3.Real("NaN_const"),
                     # an optimal LP has a finite optimum
                     z3.Implies(_is_status(E.s1.objs[E["self"].oid]["attr:status"], "optimal"),
                                E.s1.objs[E.s1.objs[E["self"].oid]["attr:objective"].oid]["attr:value"].k == 0)))],
                 modifies=_solver_loc, assumed=True, key="Solver.optimize",
                 result="opaque",
                 note="optlang/GLPK optimize(): sets status and objective value; status optimal => value is the true optimum "
                      "(assumed, monitored by the bounded tier against an exact rational LP)"))
REG.classes["Solver"] = []
REG.classes["Objective"] = []


# ---------------------------------------------------------------- Model.slim_optimize
def _slim_mod(E):
    return _solver_loc(Env({"self": solver_of(E.s0, E["self"])}, E.s0, eng=E.eng))


def _so_optimal(E):
    return _is_status(status_of(E.s1, E["self"]), "optimal")


def _so_post_value(E):
    """a number comes back only for status optimal (then it is the objective value), otherwise the caller's error value"""
    ev = E["error_value"]
    res = E.res
    if isinstance(ev, VNone):
        return z3.And(_so_optimal(E), xr_eq(E.eng.to_real(res), value_of(E.s1, E["self"])),
                      value_of(E.s1, E["self"]).k == 0) if isinstance(res, VReal) else z3.BoolVal(False)      # finite optimum
    if not isinstance(res, VReal):
        return z3.BoolVal(False)
    return z3.And(z3.If(_so_optimal(E), xr_eq(res, value_of(E.s1, E["self"])), xr_eq(res, E.eng.to_real(ev))),
                  z3.Implies(_so_optimal(E), value_of(E.s1, E["self"]).k == 0),      # finite optimum
                  value_of(E.s1, E["self"]).v != z3.Real("NaN_const"))      # the solver's objective value is a number


def _slim_cases():
    out = []
    c = Case("error_value_given", ensures=_so_post_value)
    c.params_override = {"error_value": TReal()}
    c.applies = lambda a, st: not isinstance(a["error_value"], VNone)
    out.append(c)
    c = Case("error_value_none", ensures=_so_post_value)
    c.params_override = {"error_value": TNone()}
    c.applies = lambda a, st: isinstance(a["error_value"], VNone)
    c.may_raise = "OptimizationError"
    # when it raises, the status is not optimal and the class is the one OPTLANG_TO_EXCEPTIONS_DICT assigns
    def on_raise(E):
        st = status_of(E.s1, E["self"])
        conds = [z3.Not(_is_status(st, "optimal"))]
        for n, exc in EXC_FOR.items():
            conds.append(z3.Implies(_is_status(st, n), z3.BoolVal(E.exc == exc)))
        return z3.And(*conds)
    c.ensures_on_raise = on_raise
    out.append(c)
    return out


_d = TReal()
_d.default = VReal(0, z3.Real("NaN_const"))   # float("nan") default: an unconstrained value that is only passed through
_n = TNone()
_n.default = NONE
REG.add(Contract(MM, "Model.slim_optimize", "C04", [("self", MODEL_T()), ("error_value", _d), ("message", _n)], _slim_cases(),
                 modifies=_slim_mod, key="Model.slim_optimize", result="real"))


# ---------------------------------------------------------------- assumed: get_solution (numpy/pandas) as used by optimize
def _gs_raises(E):
    st = status_of(E.s0, E["model"])
    re_ = E["raise_error"].t if "raise_error" in E.a else z3.BoolVal(False)
    return z3.And(z3.Not(_is_status(st, "optimal")), z3.Not(z3.And(_in_has_primals(st), z3.Not(re_))))


_t = TBool()
_t.default = VBool(False)
REG.add(Contract("cobra/core/solution.py", "get_solution", "C04", [("model", MODEL_T()), ("raise_error", _t)], [
    Case("returns", requires=lambda E: z3.Not(_gs_raises(E))),
    Case("raises", requires=_gs_raises, raises="OptimizationError"),
], assumed=True, key="get_solution", result="opaque",
    note="get_solution as seen by Model.optimize: raises exactly when check_solver_status does (that part is proved on "
         "check_solver_status); the numpy/pandas assembly is covered by the bounded tier"))


# ---------------------------------------------------------------- Model.optimize: direction as found on every exit
def _dir_same(E):
    return direction_of(E.s1, E["self"]).t == direction_of(E.s0, E["self"]).t


def _opt_mod(E):
    sol = solver_of(E.s0, E["self"])
    return _slim_mod(E)


def _opt_cases():
    out = []
    for tag, t in (("sense_none", TNone()), ("sense_given", TStr())):
        c = Case(tag, ensures=_dir_same)
        c.params_override = {"objective_sense": t}
        c.may_raise = "OptimizationError"
        c.ensures_on_raise = _dir_same
        c.modifies_on_raise = _opt_mod
        out.append(c)
    return out


REG.add(Contract(MM, "Model.optimize", "C04", [("self", MODEL_T()), ("objective_sense", TNone()), ("raise_error", TBool())],
                 _opt_cases(), modifies=_opt_mod, key="Model.optimize", result="opaque", props=["C04", "C13"]))
