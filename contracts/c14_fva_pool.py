"""C14 / C05 — flux_variability_analysis for ANY `processes`: the PARALLEL branch (ProcessPool + imap_unordered) and the head of the
function (`processes` defaulting to configuration.processes, min(processes, number of requested reactions)).

Statement (C14): "flux variability analysis ... return the same values for every reaction whatever the number of worker processes,
chunking, completion order of the workers, or order of the requested items; each item's result equals the result of asking for that
item alone".

What is ASSUMED about the pool (contract `Pool.imap_unordered`, assumed, see its note): `ProcessPool(p, initializer=f0, initargs=a)`
starts workers, each of which runs f0(*a) once on ITS OWN COPY of the arguments as they are at that moment (fork / pickle: the
copy is modelled as a branch of the symbolic state - same object identities, the parent never sees a worker's writes);
`pool.imap_unordered(f, items, chunksize=c)` (c >= 1: OBLIGED) yields exactly len(items) results; the k-th result that arrives is
f(items[perm[k]]) for a ghost PERMUTATION perm of [0, n) (stated with its inverse: perm and inv map [0, n) into [0, n),
inv[perm[k]] = k, perm[inv[j]] = j - a bijection; nothing else is known about it: it stands for the number of workers, the
chunking and the completion order); f(x) is evaluated by SOME worker after ANY number of earlier tasks of that worker; an exception
raised by a task is re-raised in the parent when that result is reached.
What makes the value of f(x) independent of the tasks the same worker ran before is NOT assumed but taken from the proved contract
of `_fva_step` (contracts/c05_fva.py, `_post`): its modifies clause (solver status / objective value / the ghosts objc, solved_with;
the direction and the model are not in it) and its LAST clause `FA x. objc(s1)[x] == objc(s0)[x]` (every objective coefficient as at
entry).  By induction over a worker's task sequence every task therefore starts in the state `_init_worker` left (its proved contract:
global _model = the model, direction = the sense) up to the locations `_fva_step` may modify, with the coefficient map of that
state: this is how `_task` below builds the state in which the contract of `_fva_step` is applied (its precondition - coefficients
of the two variables 0, DictList well-formed - is an OBLIGATION there, `call:_fva_step/pre`).  The induction step itself is the glue
lemma `worker-state-invariant` (from the very post-condition).

PROVED (for every model size, maximisation / minimisation model, all reactions / reaction_list, with / without pfba_factor,
`processes` ANY int or None -> configuration.processes; both the serial and the parallel path are paths of every case):
  * everything the serial cases of contracts/c05_fva_driver.py prove (the very same post-condition `_post_for`): in particular for
    EVERY requested reaction id the value stored under (id, "minimum") / (id, "maximum") is the value `_fva_step` returned for that id
    in a state whose direction is "min" / "max", the LP solved being +forward -reverse of that reaction - whatever perm, `processes`
    and the chunk size are (loop invariant over the ARRIVAL index k, stated through the inverse permutation);
  * nothing is stored under another key: every key written in a sweep is the id of a requested reaction (ghost witness map);
  * the path: the pool is used exactly when min(processes, n) > 1 (processes = configuration.processes when None); then, per sweep,
    exactly one pool, created with exactly (min(processes, n), initializer=_init_worker, initargs=(model, loopless, "min" / "max")),
    AFTER the constraints were added and the objective zeroed (the workers' copy is the prepared model), entered, ONE
    imap_unordered(_fva_step, <the requested ids, in request order>, chunksize = n // min(processes, n)) on it, and left again
    (__exit__) - also when a task raises; chunksize >= 1 (so `n // processes` is never 0 where the pool is used: processes > 1
    implies n >= processes);
  * the parent's model is not touched by the parallel sweeps (objective coefficients all 0, context closed again).
Glue lemmas (`lemmas()`): serial == parallel, id by id, and list == single-item request, id by id - as far as the post-conditions
determine the values: both say "the stored value is the value returned by the `_fva_step` solve whose objective is +fwd -rev of the
reaction, direction = sense, on the prepared model"; that two such solves return the same NUMBER is the solver's determinism
(C04 assumption: an `optimal` answer is the true optimum - unique as a value), stated as the hypothesis `same LP -> same value`.
Native observation (/repo, textbook model, 7 requested reactions, processes 1 / 2 / 3 / 7 / 50, reversed request order, one-item
request): the frames agree to ~1e-12, NOT bit for bit - the number GLPK returns for the same LP depends in its last bits on the
simplex basis the worker's previous task left behind (solver-internal state, outside `_fva_step`'s frame, which is about the
objective coefficients), so the hypothesis `same LP -> same value` holds up to solver tolerance only; chunk sizes observed 3, 1, 1
(never 0), as proved.
NOT covered: loopless=True.
"""
import z3
import cobra  # noqa
from .common import *  # noqa
from . import c01_lp as C1
from . import c03_context as C3
from . import c04_status as C4
from . import c05_fva as C5
from . import c05_fva_driver as CD
from pyvc import npalg as N
from pyvc import builtins as B
from pyvc.state import State, alloc_obj
from pyvc.loops import havoc_locations
from pyvc.values import VReal, VSeq, xr_fresh, id_lit

MV = CD.MV
IntInt = z3.ArraySort(z3.IntSort(), z3.IntSort())
IdBool = z3.ArraySort(Id, z3.BoolSort())
IdInt = CD.IdInt
SENSES = CD.SENSES

REG.add(Contract("multiprocessing/pool.py", "Pool.imap_unordered", "C14", [("self", TNone())], [Case("any")], assumed=True,
                 key="Pool.imap_unordered",
                 note="ProcessPool(p, initializer, initargs) / multiprocessing.Pool: every worker runs initializer(*initargs) once on its own "
                      "copy of the arguments as they are when the pool is created; imap_unordered(f, items, chunksize >= 1) yields "
                      "exactly the results f(x) for every x of items, each once, in an ARBITRARY order (ghost permutation of [0, n), "
                      "bijection stated with its inverse), each evaluated by some worker after any number of earlier tasks of that "
                      "worker; the parent's objects are not written by the workers; a task's exception is re-raised in the parent; "
                      "__exit__ does not swallow exceptions"))


def _unsupported(msg):
    raise Unsupported(msg)


# ---------------------------------------------------------------- ghost state
def _written(st, what):
    """(set of keys written in column `what`, witness: index of the requested item the key was written for)"""
    return st.ghost.get(("written", what), (z3.K(Id, z3.BoolVal(False)), z3.K(Id, z3.IntVal(-1))))


def _is_fn(v, kind, name):
    return isinstance(v, VFunc) and v.kind == kind and v.a == name


# ---------------------------------------------------------------- hooks
def global_hook(eng, name):
    if name in ("ProcessPool", "map"):
        return VFunc("abstract", name)
    return None


def getattr_hook(eng, st, v, name):
    if isinstance(v, VObj) and v.cls == "ProcessPool":
        return [("ok", st, VFunc("bound", v, name))]
    return None


def _map(eng, st, pos, kw):
    """map(f, seq) as pyvc.builtins.bi_map (lazy, consumed by a for loop); additionally the index of the item being processed is
    left in the ghost `item_index` (witness for `nothing is stored under another key`)"""
    if len(pos) != 2 or kw:
        raise Unsupported("map with several iterables")
    f = pos[0]
    seq = B.to_seq(eng, st, pos[1])
    if seq is None:
        raise Unsupported("map over an unordered collection")
    out = VSeq(seq.n, lambda s2, i: _unsupported("element of map() outside a loop"), known_len=seq.known_len, tag="mapcall")
    out.effect = lambda eng2, s2, i: eng2.call(s2.setghost("item_index", i), f, [seq.get(s2, i)], {})
    return [("ok", st, out)]


def _pool_create(eng, st, pos, kw):
    """ProcessPool(processes, initializer=, initargs=): recorded; the state every worker starts its first task in is the state at
    this moment after initializer(*initargs) - by the PROVED contract of _init_worker when that is the initializer"""
    procs = pos[0] if pos else kw.get("processes")
    init, args = kw.get("initializer"), kw.get("initargs")
    w0 = None
    if _is_fn(init, "repo", "_init_worker") and isinstance(args, VTuple) and len(args.items) == 3 \
            and isinstance(args.items[0], VObj) and args.items[0].cls == "Model" and isinstance(args.items[2], VConc):
        outs = [o for o in eng.apply_contract(st, REG.get("_init_worker"), list(args.items), {})]
        if len(outs) == 1 and outs[0][0] == "ok":
            w0 = outs[0][1]
    base = st if w0 is None else State(w0.pc, st.frames, st.heap, st.objs, st.ghost)     # facts about the worker state are kept
    st2, pool = alloc_obj(base, "ProcessPool", {})
    info = {"w0": w0, "processes": procs, "initializer": init, "initargs": args, "state": st, "extra_pos": len(pos) > 1,
            "extra_kw": sorted(set(kw) - {"processes", "initializer", "initargs"})}
    tr = st2.ghost.get("pool_trace", ())
    return [("ok", st2.setghost(("pool", pool.oid), info).setghost("pool_trace", tr + (("create", pool.oid, info),)), pool)]


def _task(eng, s2, info, f, seq, idx):
    """the result that arrives: f(items[idx]) computed by a worker (see the module docstring); the parent only receives the value"""
    w0 = info["w0"]
    item = seq.get(s2, idx)
    s2 = s2.setghost("item_index", idx)
    if w0 is None or not _is_fn(f, "abstract", "_fva_step") or not isinstance(item, VStr):
        # an initialiser / task function this module knows nothing about: nothing is known about what comes back
        v, c = xr_fresh("task_value")
        return [("ok", s2.assume(c), VTuple((VStr(fresh("task_id", Id)), v)))]
    step = REG.get("_fva_step")
    a = {"reaction_id": item, "_model": w0.ghost[("global", "_model")], "_loopless": w0.ghost[("global", "_loopless")]}
    sw = State(s2.pc, s2.frames, w0.heap, w0.objs, w0.ghost)
    # the worker at the start of an ARBITRARY task: as initialised, up to what earlier _fva_step calls may have modified, with
    # the coefficient map as initialised (last clause of _fva_step's post-condition, by induction: lemma worker-state-invariant)
    sw = havoc_locations(eng, sw, step.modifies(Env(a, sw, eng=eng)))
    x = qv("wx", Ref)
    sw = sw.assume(FA([x], C5.objc(sw)[x] == C5.objc(w0)[x], patterns=[C5.objc(sw)[x]]))
    sense = w0.ghost.get("sense_py")
    # the direction the worker solves in is the sense it was initialised with (post-condition of _init_worker; not in _fva_step's
    # modifies clause): an obligation at every task, not an assumption
    d = sw.objs[CD._objective(sw, a["_model"]).oid]["attr:direction"]
    eng.oblige(sw, z3.BoolVal(isinstance(d, VConc) and d.py == sense) if not isinstance(d, VStr) else d.t == id_lit(str(sense)),
               "pool-task/worker-direction-is-the-sense", kind="side")
    res = []
    for k, s_after, v in eng.apply_contract(sw, step, [item], {}):
        par = State(s_after.pc, s2.frames, s2.heap, s2.objs, s2.ghost)
        if k == "ok" and sense is not None and isinstance(v, VTuple):
            # recorded exactly as the serial path records a step (c05_fva_driver.call_abstract): the LP solved and the value, by id
            sw_, vk, vv = CD._rec(par, sense)
            val = v.items[1]
            rid = unwrap(item, "id")
            par = par.setghost(("rec", sense), (z3.Store(sw_, rid, C5.solved_with(s_after)), z3.Store(vk, rid, val.k), z3.Store(vv, rid, val.v)))
        res.append((k, par, v))
    return res


def _imap(eng, st, pool, pos, kw):
    info = st.ghost.get(("pool", pool.oid))
    if info is None or len(pos) < 2:
        return None
    f, items = pos[0], pos[1]
    cs = pos[2] if len(pos) > 2 else kw.get("chunksize", VInt(1))
    seq = B.to_seq(eng, st, items)
    if seq is None or not isinstance(cs, (VInt, VBool)):
        raise Unsupported("imap_unordered over something that is not a list / with a non-integer chunksize")
    n = seq.n
    # multiprocessing.Pool.imap_unordered raises ValueError("Chunksize must be 1+") otherwise
    eng.oblige(st, unwrap(cs, "int") >= 1, "call:Pool.imap_unordered/pre-chunksize>=1", kind="callpre")
    from pyvc.apply import ASSUMED_USED
    ASSUMED_USED["Pool.imap_unordered"] = REG.get("Pool.imap_unordered").note
    perm, inv = fresh("perm", IntInt), fresh("perm_inv", IntInt)
    k, j = qv("pk"), qv("pj")
    st = st.assume(FA([k], z3.Implies(z3.And(0 <= k, k < n), z3.And(0 <= perm[k], perm[k] < n, inv[perm[k]] == k)), patterns=[perm[k]]),
                   FA([j], z3.Implies(z3.And(0 <= j, j < n), z3.And(0 <= inv[j], inv[j] < n, perm[inv[j]] == j)), patterns=[inv[j]]))
    tr = st.ghost.get("pool_trace", ())
    call = {"f": f, "items": items, "chunksize": cs, "state": st, "extra": sorted(set(kw) - {"chunksize"}), "perm": (perm, inv, n)}
    st = st.setghost("pool_perm", (perm, inv, n)).setghost("pool_trace", tr + (("imap_unordered", pool.oid, call),))
    out = VSeq(n, lambda s2, i: _unsupported("element of imap_unordered() outside a loop"), known_len=None, tag="poolmap")
    out.effect = lambda eng2, s2, i: _task(eng2, s2, info, f, seq, perm[i])
    return [("ok", st, out)]


def call_abstract(eng, st, f, pos, kw):
    if f.a == "map":
        return _map(eng, st, pos, kw)
    if f.a == "ProcessPool":
        return _pool_create(eng, st, pos, kw)
    return None


def call_method_hook(eng, st, recv, name, pos, kw):
    if not (isinstance(recv, VObj) and recv.cls == "ProcessPool"):
        return None
    tr = st.ghost.get("pool_trace", ())
    if name == "__enter__":
        return [("ok", st.setghost("pool_trace", tr + (("enter", recv.oid, None),)), recv)]
    if name == "__exit__":
        return [("ok", st.setghost("pool_trace", tr + (("exit", recv.oid, None),)), VBool(False))]
    if name == "imap_unordered":
        return _imap(eng, st, recv, pos, kw)
    raise Unsupported(f"ProcessPool.{name}")


def setitem_hook(eng, st, obj, idx, val):
    """fva_result.at[rxn_id, what] = value: as in the serial module (value recorded per column); additionally the KEY is recorded
    together with the index of the item being processed"""
    r = CD.setitem_hook(eng, st, obj, idx, val)
    if r is None:
        return None
    what = idx.items[1].py
    rid = unwrap(idx.items[0], "id")
    out = []
    for k, s, v in r:
        wr, wit = _written(s, what)
        ii = s.ghost.get("item_index")
        out.append((k, s.setghost(("written", what), (z3.Store(wr, rid, z3.BoolVal(True)),
                                                      z3.Store(wit, rid, ii if ii is not None else z3.IntVal(-1)))), v))
    return out


HOOKS = chain_hooks({"global": global_hook, "call_abstract": call_abstract, "call_method": call_method_hook, "setitem": setitem_hook,
                     "getattr": getattr_hook},
                    CD.HOOKS)


# ---------------------------------------------------------------- specification
def _written_ok(E, st, what):
    """every key written in column `what` is the id of a requested reaction"""
    n, e = CD._req(E, st)
    ids = E.eng.heap_arr(E.s0, "_id")
    wr, wit = _written(st, what)
    y = qv("wy", Id)
    return FA([y], z3.Implies(wr[y], z3.And(0 <= wit[y], wit[y] < n, ids[e[wit[y]]] == y)), patterns=[wr[y]])


def _item_ok(E, st, sense, what, j):
    """the body of c05_fva_driver._sweep_done for the requested item j"""
    n, e = CD._req(E, st)
    ids = E.eng.heap_arr(E.s0, "_id")
    sw, vk, vv = CD._rec(st, sense)
    sk, sv = CD._stored(st, what)
    x = qv("wx", Ref)
    rid = ids[e[j]]
    return z3.And(FA([x], sw[rid][x] == CD._unit(e[j])[x], patterns=[sw[rid][x]]),
                  sk[rid] == vk[rid], z3.Implies(vk[rid] == 0, sv[rid] == vv[rid]))


def _arrived_done(E, st, sense, what, inv, upto):
    """the items whose result has ARRIVED (arrival index inv[j] < upto) are done"""
    n, e = CD._req(E, st)
    j = qv("aj")
    return FA([j], z3.Implies(z3.And(0 <= j, j < n, inv[j] < upto), _item_ok(E, st, sense, what, j)), patterns=[e[j]])


def _what(Lc):
    w = Lc.var("what")
    return w.py if isinstance(w, VConc) and w.py in ("minimum", "maximum") else None


def _inv_pool(E, Lc):
    st = Lc.st
    what = _what(Lc)
    pp = st.ghost.get("pool_perm")
    if what is None or pp is None:
        return z3.BoolVal(False)
    sense = what[:3]                  # the sense the SPECIFICATION asks for in this sweep (not what the code passed to the pool)
    perm, inv, pn = pp
    n, e = CD._req(E, st)
    cs = [Lc.n == n, _arrived_done(E, st, sense, what, inv, Lc.i), _written_ok(E, st, what)]
    if what == "maximum":             # the first sweep's records are kept
        cs.append(CD._sweep_done(E, st, "min", "minimum", n))
        cs.append(_written_ok(E, st, "minimum"))
    return z3.And(*cs)


def _pool_loop_mod(E, Lc):
    what = _what(Lc) or "minimum"
    return [("ghost", ("rec", what[:3]), lambda st: (fresh("rec_sw", CD.IdCoef), fresh("rec_k", IdInt), fresh("rec_v", CD.IdReal))),
            ("ghost", ("stored", what), lambda st: (fresh("st_k", IdInt), fresh("st_v", CD.IdReal))),
            ("ghost", ("written", what), lambda st: (fresh("wr", IdBool), fresh("wit", IdInt))),
            ("ghost", "item_index", lambda st: fresh("item_index", z3.IntSort()))]


def _inv_serial(E, Lc):
    what = _what(Lc)
    if what is None:
        return z3.BoolVal(False)
    cs = [CD._inv_steps(E, Lc), _written_ok(E, Lc.st, what)]
    if what == "maximum":
        cs.append(_written_ok(E, Lc.st, "minimum"))
    return z3.And(*cs)


def _serial_loop_mod(E, Lc):
    what = _what(Lc) or "minimum"
    return CD._loop_mod(E, Lc) + [("ghost", ("written", what), lambda st: (fresh("wr", IdBool), fresh("wit", IdInt))),
                                  ("ghost", "item_index", lambda st: fresh("item_index", z3.IntSort()))]


def _procs(E):
    """the number of processes asked for: the argument, or the global configuration's"""
    p = E["processes"]
    if isinstance(p, VNone):
        p = E.s0.objs[E["configuration"].oid]["attr:processes"]
    return unwrap(p, "int")


def _trace_ok(E):
    """which path was taken and, on the parallel path, exactly which pools were created / used / closed"""
    tr = E.s1.ghost.get("pool_trace", ())
    n, e = CD._req(E, E.s1)
    ids = E.eng.heap_arr(E.s0, "_id")
    p = _procs(E)
    eff = z3.If(n < p, n, p)                       # at most one process per requested reaction
    if len(tr) == 0:
        return z3.Not(eff > 1)                     # serial only when there is nothing to distribute
    if len(tr) != 8:
        return z3.BoolVal(False)
    cs = [eff > 1]
    n_added = len(E.s1.ghost.get("fva_trace", ()))
    for si, (sense, what) in enumerate(SENSES):
        c, en, im, ex = tr[4 * si: 4 * si + 4]
        if (c[0], en[0], im[0], ex[0]) != ("create", "enter", "imap_unordered", "exit") or len({c[1], en[1], im[1], ex[1]}) != 1:
            return z3.BoolVal(False)
        info, call = c[2], im[2]
        args = info["initargs"]
        cs.append(z3.BoolVal(_is_fn(info["initializer"], "repo", "_init_worker") and not info["extra_pos"] and not info["extra_kw"]))
        cs.append(z3.BoolVal(isinstance(args, VTuple) and len(args.items) == 3 and args.items[0] is E["model"]
                             and args.items[1] is E["loopless"] and isinstance(args.items[2], VConc) and args.items[2].py == sense))
        cs.append(unwrap(info["processes"], "int") == eff if isinstance(info["processes"], (VInt, VBool)) else z3.BoolVal(False))
        # the workers copy the PREPARED model: constraints added, objective zeroed, nothing changed since
        ps = info["state"]
        cs.append(z3.BoolVal(ps.ghost.get("objective_zeroed") is True and len(ps.ghost.get("fva_trace", ())) == n_added))
        cs.append(CD._zero_obj(ps))
        # one imap_unordered(_fva_step, <the requested ids in request order>, chunksize = n // processes >= 1)
        cs.append(z3.BoolVal(_is_fn(call["f"], "abstract", "_fva_step") and not call["extra"]))
        items = call["items"]
        if not (isinstance(items, VObj) and items.kind == "list"):
            return z3.BoolVal(False)
        rec = call["state"].objs[items.oid]
        j = qv("tj")
        cs.append(z3.And(rec["len"] == n, FA([j], z3.Implies(z3.And(0 <= j, j < n), rec["elem"][j] == ids[e[j]]), patterns=[rec["elem"][j]])))
        ck = unwrap(call["chunksize"], "int")
        cs.append(z3.And(ck >= 1, ck * eff <= n, n < (ck + 1) * eff))
    return z3.And(*cs)


def _post_pool(direction):
    base = CD._post_for(direction)

    def post(E):
        return z3.And(base(E), _written_ok(E, E.s1, "minimum"), _written_ok(E, E.s1, "maximum"), _trace_ok(E))
    return post


def _mod(E):
    out = CD._mod(E) + [("ghost", "pool_trace", lambda st: ()), ("ghost", "pool_perm", lambda st: None), ("ghost", "item_index", lambda st: None)]
    for s, w in SENSES:
        out.append(("ghost", ("written", w), lambda st: None))
    return out


def _cases():
    out = []
    for proc in ("int", "none"):
        for d, listed, pf in [(d, l, p) for d in ("max", "other") for l in (False, True) for p in (False, True)]:
            req = (lambda E: CD._objective(E.s0, E["model"]) is not None and
                   E.s0.objs[CD._objective(E.s0, E["model"]).oid]["attr:direction"].t == id_lit("max"))
            c = Case("pool:" + ("maximisation" if d == "max" else "minimisation") + (":list" if listed else ":all") + (":pfba" if pf else "")
                     + (":processes=None" if proc == "none" else ""),
                     requires=req if d == "max" else (lambda E, req=req: z3.Not(req(E))), ensures=_post_pool(d))
            c.params_override = {"reaction_list": N.TNp() if listed else TNone(), "pfba_factor": TReal() if pf else TNone(),
                                 "processes": TInt() if proc == "int" else TNone()}
            c.may_raise = "Exception"               # no optimum, or a task whose status has no primal values: the error propagates
            c.ensures_on_raise = _raise_post(pf)
            c.modifies_on_raise = _mod
            out.append(c)
    return out


RAISES = ("OptimizationError", "KeyError")


def _raise_post(pf):
    """also when a task raises: every pool that was entered has been left again"""
    def post(E):
        tr = E.s1.ghost.get("pool_trace", ())
        entered = [t[1] for t in tr if t[0] == "enter"]
        left = [t[1] for t in tr if t[0] == "exit"]
        # only the documented errors (no optimum; a step without primal values; with pfba_factor the ValueError of add_pfba for a model
        # that already has a pfba objective): an exception class the executor invents for something it cannot resolve must not pass
        return z3.BoolVal(entered == left and E.exc in RAISES + (("ValueError",) if pf else ()))
    return post


REG.add(Contract(MV, "flux_variability_analysis", "C14",
                 [("model", CD._model_t()), ("reaction_list", TNone()), ("loopless", TConc(False)), ("fraction_of_optimum", TReal()),
                  ("pfba_factor", TNone()), ("processes", TInt()),
                  ("configuration", TObj("Configuration", {"processes": TInt()}))], _cases(), pre=CD._pre, modifies=_mod,
                 key="flux_variability_analysis@pool", axioms=lambda E: C3.run_axioms(), props=["C14", "C05"],
                 loops={1: LoopSpec(_inv_pool, _pool_loop_mod), 2: LoopSpec(_inv_serial, _serial_loop_mod)},
                 note="any `processes` (serial and parallel path), loopless = False; pfba_factor finite when given; `configuration` is a "
                      "ghost parameter: the module global of cobra.flux_analysis.variability as seen at entry; the pool by the assumed "
                      "contract Pool.imap_unordered"))


# ================================================================ glue lemmas
def _check_hyps(name, hyps):
    """guard against vacuous lemmas: no hypothesis is literally False and together they are not refutable"""
    if any(z3.is_false(z3.simplify(h)) for h in hyps):
        raise AssertionError(f"lemma {name}: a hypothesis is literally False")
    s = z3.Solver()
    s.set("timeout", 1500)
    s.add(*hyps)
    if s.check() == z3.unsat:
        raise AssertionError(f"lemma {name}: the hypotheses are contradictory (vacuous lemma)")


def _same_lp_same_value(ra, rb):
    """HYPOTHESIS of the result lemmas (solver determinism, the C04 assumption that an `optimal` answer is THE optimum): two
    _fva_step solves on the same prepared model, in the same direction, with the same objective coefficients return the same value"""
    (swa, vka, vva), (swb, vkb, vvb) = ra, rb
    y, y2 = qv("dy", Id), qv("dy2", Id)
    return FA([y, y2], z3.Implies(swa[y] == swb[y2], z3.And(vka[y] == vkb[y2], z3.Implies(vka[y] == 0, vva[y] == vvb[y2]))),
              patterns=[z3.MultiPattern(swa[y], swb[y2])])


def lemmas():
    """Built from the very clauses of the proved post-conditions (`_sweep_done`, the clause c05_fva_driver._post_for states for the
    serial cases and - through `_post_pool` - for the cases of this module) on synthetic exit states of two runs:
      worker-state-invariant     _fva_step's post-condition preserves `coefficient map = the initialised one` (the induction step
                                 behind the worker state `_task` builds);
      serial-equals-parallel     two runs over the SAME request on the same prepared model, one through the pool (any permutation,
                                 any processes / chunk size) and one serial: the stored minimum / maximum agree for EVERY requested id;
      list-equals-single-item    a run over a list and a run over the one-element list [id] for any id of the list: the values
                                 stored under that id agree (each item's result equals the result of asking for that item alone);
    the last two under the hypothesis `same LP (coefficients, direction, prepared model) -> same value` (the solver returns THE optimum:
    C04, assumed and monitored); values are compared as the post-conditions state them (kind, and the number when finite)."""
    from pyvc.engine import Engine, Obl
    eng = Engine(REG, HOOKS)
    out = []
    # ---- the induction step of the worker state
    st = State()
    st, m = C5._model_t().make(st, "g_model")
    a = {"reaction_id": VStr(z3.Const("g_rid", Id)), "_model": m, "_loopless": VBool(False)}
    w0 = z3.Const("g_objc_w0", C5.CoefMap)
    s0 = st.setghost("objc", z3.Const("g_objc_0", C5.CoefMap))
    s1 = st.setghost("objc", z3.Const("g_objc_1", C5.CoefMap)).setghost("solved_with", z3.Const("g_solved_1", C5.CoefMap))
    res = VTuple((VStr(z3.Const("g_res_id", Id)), VReal(z3.Int("g_res_k"), z3.Real("g_res_v"))))
    x = z3.Const("g_x", Ref)
    hyps = [C5._post(Env(a, s0, s1, res=res, eng=eng)), z3.ForAll([x], C5.objc(s0)[x] == w0[x])]
    _check_hyps("worker-state-invariant", hyps)
    out.append(Obl("C14/lemma/fva_pool/worker-state-invariant", hyps, z3.ForAll([x], C5.objc(s1)[x] == w0[x]), "lemma"))
    # ---- two runs
    for sense, what in SENSES:
        st = State()
        st, model = CD._model_t().make(st, "g_model")
        a = {"model": model, "reaction_list": N.VNp(z3.Const("g_reaction_list", N.NP))}
        ids = eng.heap_arr(st, "_id")

        def run(tag, n, e):
            from pyvc.state import alloc_list
            s, l = alloc_list(st, "ref:Reaction", base="g_req_" + tag, length=n, elem=e)
            rec = (z3.Const(f"g_sw_{tag}", CD.IdCoef), z3.Const(f"g_vk_{tag}", IdInt), z3.Const(f"g_vv_{tag}", CD.IdReal))
            sto = (z3.Const(f"g_sk_{tag}", IdInt), z3.Const(f"g_sv_{tag}", CD.IdReal))
            s = s.setghost("gba_list", l).setghost(("rec", sense), rec).setghost(("stored", what), sto)
            E = Env(a, st, s, eng=eng)
            return CD._sweep_done(E, s, sense, what, n), rec, sto
        n, e = z3.Int("g_n"), z3.Const("g_e", z3.ArraySort(z3.IntSort(), Ref))
        j0 = z3.Int("g_j0")
        # serial == parallel: the same request
        h_ser, r_ser, s_ser = run("serial", n, e)
        h_par, r_par, s_par = run("parallel", n, e)
        rid = ids[e[j0]]
        hyps = [h_ser, h_par, _same_lp_same_value(r_ser, r_par), 0 <= j0, j0 < n]
        _check_hyps("serial-equals-parallel", hyps)
        goal = z3.And(s_ser[0][rid] == s_par[0][rid], z3.Implies(s_ser[0][rid] == 0, s_ser[1][rid] == s_par[1][rid]))
        out.append(Obl(f"C14/lemma/fva_pool/serial-equals-parallel-for-every-id/{what}", hyps, goal, "lemma"))
        # list == single item: the one-element request [e[j0]]
        e1 = z3.Const("g_e_single", z3.ArraySort(z3.IntSort(), Ref))
        h_lst, r_lst, s_lst = run("list", n, e)
        h_one, r_one, s_one = run("single", z3.IntVal(1), e1)
        hyps = [h_lst, h_one, _same_lp_same_value(r_lst, r_one), 0 <= j0, j0 < n, e1[0] == e[j0]]
        _check_hyps("list-equals-single-item", hyps)
        goal = z3.And(s_lst[0][rid] == s_one[0][rid], z3.Implies(s_lst[0][rid] == 0, s_lst[1][rid] == s_one[1][rid]))
        out.append(Obl(f"C14/lemma/fva_pool/list-equals-single-item-request/{what}", hyps, goal, "lemma"))
    return out
