"""C11 - the MODEL level of the dictionary form (cobra/io/dict.py): model_to_dict and model_from_dict, for models / documents with
metabolite, reaction and gene lists of ANY length.

Shape.  A list of per-object records is a list of symbolic references (`ref:MetRecord` / `ref:RxnRecord` / `ref:GeneRecord`); the
record the writer function f returns for the object x is the TERM written_<kind>(x) (`map(f, model.<list>)` is given this meaning by
the `global` / `call_abstract` hooks below, after checking that f is one of the three writer functions, that it is under a PROVED
contract and that this contract modifies nothing): WHAT such a record contains is the post-condition of f's own contract
(contracts/c10_c11_io.py), which is proved separately - here it is proved WHICH records end up WHERE.

  model_to_dict(model, sort): the result is a NEW record dictionary whose keys are, in this order, "metabolites", "reactions",
      "genes", "id", then "objective_direction" (exactly when the model's CURRENT direction - the direction of the objective
      installed in its solver, the ghost model of contracts/c03_objective.py - is "min", and then with the value "min": an absent
      entry means "max", the documented default), then the optional model attributes name / compartments / notes / annotation exactly
      as `_update_optional`'s proved contract says (present iff not None and different from the default, a dictionary as a NEW
      dictionary with the same keys and value objects), and nothing else; "id" holds model.id;
      each of the three lists is a NEW list (three different objects) with exactly one entry per member of the model's DictList:
      sort false: entry j is written_<kind>(member j) - nothing dropped, nothing added, order kept;
      sort true : a PERMUTATION of that (ghost bijection perm / inv: entry j is written(member perm[j]), every member position is
      hit) that is ordered by the records' "id" entries (record_id, under the order str_le of python strings: both uninterpreted).
      The function changes nothing (frame: engine).

ASSUMED (builtins, in this module's hooks): `list.sort(key=itemgetter("id"))` permutes the list (pyvc/builtins.list_sort) and leaves
it ordered by str_le over record_id(entry) (`record_id(r)` = r["id"]; added here, the engine's list_sort does not model the order).
The values `model.name`, `model.compartments`, `model.notes`, `model.annotation` are what the property getters return (the model is
a view with these attributes, as the objects of the per-object writers are).
"""
import z3
from .common import *  # noqa
from . import c10_c11_io as W
from pyvc import builtins as B

MD = W.MD
REG.inline.add("Model.solver@getter")
REG.inline.add("Model.objective_direction@getter")
for _c in ("Solver", "Objective", "MetRecord", "RxnRecord", "GeneRecord"):
    REG.classes.setdefault(_c, [])

# writer function -> (class tag of its records, the term `the record it returns for x`)
WRITERS = {
    "_metabolite_to_dict": ("MetRecord", z3.Function("written_metabolite", Ref, Ref)),
    "_reaction_to_dict": ("RxnRecord", z3.Function("written_reaction", Ref, Ref)),
    "_gene_to_dict": ("GeneRecord", z3.Function("written_gene", Ref, Ref)),
}
RECORD_CLASSES = tuple(c for c, _ in WRITERS.values())
# key of the document -> (attribute of the model, writer)
LISTS = (("metabolites", "metabolites", "_metabolite_to_dict"), ("reactions", "reactions", "_reaction_to_dict"),
         ("genes", "genes", "_gene_to_dict"))
record_id = z3.Function("record_id", Ref, Id)                    # r["id"] of a per-object record
str_le = z3.Function("str_le", Id, Id, z3.BoolSort())            # the order of python strings (uninterpreted)
MODEL_KEYS = ("model_to_dict", "model_from_dict")


def _b(c):
    return z3.BoolVal(c) if isinstance(c, bool) else c


def _cur(eng):
    return getattr(getattr(eng, "cur_contract", None), "key", None)


# ---------------------------------------------------------------- hooks
def global_hook(eng, name):
    if _cur(eng) == "model_to_dict" and name in ("map", "itemgetter"):
        return VFunc("abstract", "c11:" + name)
    return None


def call_abstract(eng, st, f, pos, kw):
    if f.a == "c11:map":
        fn, it = (pos + [None, None])[:2]
        if len(pos) != 2 or kw or not (isinstance(fn, VFunc) and fn.kind == "repo" and fn.a in WRITERS):
            raise Unsupported("map(...) of something else than a writer function of cobra.io.dict")
        con = eng.reg.get(fn.a)
        if con is None or con.assumed or con.modifies(Env({}, st, eng=eng)):
            raise Unsupported(f"{fn.a} is not under a proved, side-effect free contract")
        if not (isinstance(it, VObj) and it.cls == "DictList"):
            raise Unsupported("map(writer, ...) over something else than a DictList of the model")
        src = B.to_seq(eng, st, it)
        cls, wf = WRITERS[fn.a]
        out = VSeq(src.n, lambda s, i: VRef(wf(unwrap(src.get(s, i), "ref:Object")), cls), known_len=None, tag="map", src=it)
        return [("ok", st, out)]
    if f.a == "c11:itemgetter":
        if len(pos) != 1 or kw or not isinstance(pos[0], VConc):
            raise Unsupported("itemgetter(...) with these arguments")
        return [("ok", st, VFunc("abstract", "c11:itemgetter()", pos[0].py))]
    return None


def call_method_hook(eng, st, recv, name, pos, kw):
    if name == "sort" and isinstance(recv, VObj) and recv.kind == "list" and st.objs[recv.oid].get("ekind", "")[4:] in RECORD_CLASSES:
        key = kw.get("key")
        if pos or set(kw) != {"key"} or not (isinstance(key, VFunc) and key.a == "c11:itemgetter()" and key.b == "id"):
            return None                  # any other sort: the engine's permutation semantics, no order
        outs = B.list_sort(eng, st, recv, kw)

        def ordered(s, _):
            r = s.objs[recv.oid]
            n, e = r["len"], r["elem"]
            j, k = qv("oj"), qv("ok")
            ax = FA([j, k], z3.Implies(z3.And(0 <= j, j < k, k < n), str_le(record_id(e[j]), record_id(e[k]))),
                    patterns=[z3.MultiPattern(e[j], e[k])])
            return [("ok", s.assume(ax), NONE)]
        return eng.bind(outs, ordered)
    return None


HOOKS = chain_hooks({"global": global_hook, "call_abstract": call_abstract, "call_method": call_method_hook}, W.HOOKS)


# ---------------------------------------------------------------- model_to_dict
def _dict_t():
    return TDict("id", "ref:Any")


def _model_t(name_t):
    return TObj("Model", {"id": TStr(), "name": name_t(), "compartments": _dict_t(), "notes": _dict_t(), "annotation": _dict_t(),
                          "metabolites": TDictList("Metabolite"), "reactions": TDictList("Reaction"), "genes": TDictList("Gene"),
                          "_solver": TObj("Solver", {"objective": TObj("Objective", {"direction": TStr()})})})


def direction_of(st, model):
    """the direction of the objective installed in the model's solver"""
    sol = st.objs[model.oid]["attr:_solver"]
    return st.objs[st.objs[sol.oid]["attr:objective"].oid]["attr:direction"]


def list_clauses(E, st1, lst, dl, fname, sort_t, others=()):
    """the list `lst` (state st1) holds the records the writer `fname` returns for the members of the DictList dl (entry state)"""
    cls, wf = WRITERS[fname]
    if not (isinstance(lst, VObj) and lst.kind == "list" and lst.oid not in E.s0.objs and lst.oid not in others):
        return [z3.BoolVal(False)]
    r1 = st1.objs[lst.oid]
    if r1.get("items") is not None or r1.get("ekind") != "ref:" + cls:
        return [z3.BoolVal(False)]
    n1, e1 = r1["len"], r1["elem"]
    n0, e0 = L(E.s0, dl)
    j, k = qv("lj"), qv("lk")
    rng = z3.And(0 <= j, j < n0)
    cs = [n1 == n0]
    pm = st1.ghost.get(("perm", lst.oid))
    if pm is None:
        cs += [z3.Not(sort_t), FA([j], z3.Implies(rng, e1[j] == wf(e0[j])), patterns=[e1[j]])]
    else:
        perm, inv = pm
        cs += [sort_t,
               FA([j], z3.Implies(rng, z3.And(0 <= perm[j], perm[j] < n0, inv[perm[j]] == j, e1[j] == wf(e0[perm[j]]))), patterns=[e1[j]]),
               FA([j], z3.Implies(rng, z3.And(0 <= inv[j], inv[j] < n0, perm[inv[j]] == j)), patterns=[inv[j]]),
               FA([j, k], z3.Implies(z3.And(0 <= j, j < k, k < n0), str_le(record_id(e1[j]), record_id(e1[k]))),
                  patterns=[z3.MultiPattern(e1[j], e1[k])])]
    return cs


def optional_clauses(E, st1, r, d, tag):
    """the optional entries of the record d (dict of its items) for the object record r: `_update_optional`'s contract"""
    ks, defaults, _ = W.UO_INST[tag]
    cs = []
    for key in ks:
        v = r["attr:" + key]
        want = _b(W._uo_written(E, E.s0, v, defaults[key]))
        w = d.get(key)
        if w is None:
            cs.append(z3.Not(want))
        elif isinstance(w, tuple):
            cs.append(w[1] == want)
            cs.append(W._written_dict(E, st1, v, w[2], w[1]) if isinstance(v, VObj) else _b(E.eng.eq(st1, w[2], v)))
        else:
            cs.append(want)
            cs.append(W._written_dict(E, st1, v, w) if isinstance(v, VObj) else _b(E.eng.eq(st1, w, v)))
    return cs


def m2d_parts(E):
    """the post-condition of model_to_dict in named groups of conjuncts"""
    model, res = E["model"], E.res
    if not (isinstance(res, VObj) and res.kind == "dict" and res.oid not in E.s0.objs):
        return {"record": [z3.BoolVal(False)]}
    try:
        st1 = B.to_record(E.s1, res)
    except Unsupported:
        return {"record": [z3.BoolVal(False)]}
    mrec = E.s0.objs[model.oid]
    items = list(st1.objs[res.oid]["pyitems"])
    keys, d = [k for k, _ in items], dict(items)
    ks = W.UO_INST["model"][0]
    rest = keys[4:]
    has_dir = "objective_direction" in keys
    opt = rest[1:] if rest[:1] == ["objective_direction"] else rest
    out = {"record": [z3.BoolVal(keys[:4] == ["metabolites", "reactions", "genes", "id"] and len(set(keys)) == len(keys)
                                 and opt == [k for k in ks if k in opt])]}
    if not z3.is_true(out["record"][0]):
        return out
    out["id"] = [_b(E.eng.eq(st1, d["id"], mrec["attr:id"])) if not isinstance(d["id"], (tuple, VObj)) else z3.BoolVal(False)]
    is_min = _b(E.eng.eq(E.s0, direction_of(E.s0, model), VConc("min")))
    if has_dir:
        w = d["objective_direction"]
        out["direction"] = [is_min, z3.BoolVal(isinstance(w, VConc) and w.py == "min")]
    else:
        out["direction"] = [z3.Not(is_min)]
    out["optional"] = optional_clauses(E, st1, mrec, d, "model")
    seen = []
    for key, attr, fname in LISTS:
        lst = d[key]
        out[key] = list_clauses(E, st1, lst, mrec["attr:" + attr], fname, E["sort"].t, others=tuple(seen))
        seen.append(getattr(lst, "oid", None))
    return out


def _m2d_post(E):
    return z3.And(*[c for cs in m2d_parts(E).values() for c in cs])


def _m2d_cases():
    out = []
    for tag, t in (("name:none", TNone), ("name:set", TStr)):
        c = Case(tag, ensures=_m2d_post)
        c.params_override = {"model": _model_t(t)}
        out.append(c)
    return out


_sort_t = TBool()
_sort_t.default = VBool(False)
REG.add(Contract(MD, "model_to_dict", "C11", [("model", _model_t(TStr)), ("sort", _sort_t)], _m2d_cases(), key="model_to_dict",
                 note="lists of per-object records as lists of references, the record of x as the term written_<kind>(x) whose content "
                      "is the proved post-condition of the writer function (see the module docstring); ASSUMED: list.sort(key="
                      "itemgetter('id')) leaves the list ordered by str_le over record_id (uninterpreted)"))

KEYS = ["model_to_dict"]
