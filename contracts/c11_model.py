"""C11 - the MODEL level of the dictionary form (cobra/io/dict.py): model_to_dict and model_from_dict, for models / documents with
metabolite, reaction and gene lists of ANY length.

Shape.  A list of per-object records is a list of symbolic references (`ref:MetRecord` / `ref:RxnRecord` / `ref:GeneRecord`); the
record the writer function f returns for the object x is the TERM written_<kind>(x) (`map(f, model.<list>)` is given this meaning by
the `global` / `call_abstract` hooks below, after checking that f is one of the three writer functions, that it is under a PROVED
contract and that this contract modifies nothing): WHAT such a record contains is the post-condition of f's own contract
(contracts/c10_c11_io.py), which is proved separately - here it is proved WHICH records end up WHERE.

  model_to_dict(model, sort): the result is a NEW record dictionary whose keys are, in this order, "metabolites", "reactions",
      "genes", "id", then "objective_direction" (exactly when the model's CURRENT direction - the direction of the objective
      installed in its solver, the ghost model of contracts/c03_objective.py - is "min", and then with the value "min": an absent
      entry means "max", the documented default), then the optional model attributes name / compartments / notes / annotation exactly
      as `_update_optional`'s proved contract says (present iff not None and different from the default, a dictionary as a NEW
      dictionary with the same keys and value objects), and nothing else; "id" holds model.id;
      each of the three lists is a NEW list (three different objects) with exactly one entry per member of the model's DictList:
      sort false: entry j is written_<kind>(member j) - nothing dropped, nothing added, order kept;
      sort true : a PERMUTATION of that (ghost bijection perm / inv: entry j is written(member perm[j]), every member position is
      hit) that is ordered by the records' "id" entries (record_id, under the order str_le of python strings: both uninterpreted).
      The function changes nothing (frame: engine).

  model_from_dict(obj): ValueError - nothing created, no call made - when "reactions" is missing.  Otherwise, for a document with the
      three lists (ANY length), "id", an `objective_direction` entry that may or may not be there (any string), every subset of
      the optional keys name / compartments / notes / annotation (16 cases) and a key that is not in the table ("version"):
      a NEW Model() is returned after exactly these calls, in this order (recorded abstract calls):
        model.add_metabolites(L1), model.genes.extend(L2), model.add_reactions(L3), set_objective(model, D)
        [, model.objective_direction = d], setattr(model, k, v) for the document keys k in the table id / name / notes /
        compartments / annotation that are present - each once, in document order, with the entry's value object - and for no
        other key;
      L1 / L2 / L3 are NEW lists with the length of the document's list whose entry j is read_<kind>(record j): the object the
      reader function returns for record j (a TERM, as written_<kind> above: WHAT that object is, is the reader's own proved
      contract in contracts/c11_reader.py; the readers' preconditions - valid bounds, the record's metabolites known to the
      model - are NOT discharged at this level);
      D is a NEW {reaction: float} dictionary: (a) every record j whose `objective_coefficient` is present and NON-ZERO - negative
      ones too: the seeded mutant `> 0` fails here - is the dst[j]-th entry of the local list `objective_reactions`, the reaction
      model.reactions.get_by_id(record["id"]) looked up for it is read_reaction(record j) and it is a key of D; (b) every key x of
      D is read_reaction(record p) for the position p of its identifier, that record's coefficient is present and non-zero and
      D[x] is that coefficient (so: exactly the non-zero records, each with its own coefficient); neither subscript can raise
      KeyError (obligations `record-entry-present`, `identifier-is-in-the-model`);
      the direction of the objective installed in the new model's solver is the `objective_direction` entry when that is
      present and "min" or "max", and "max" otherwise; the setter is called exactly in the first case, with that value.
  lemmas(): writer post-condition, then reader post-condition: same list lengths, same order (entry j is
      read(written(member j))), and the direction of a 'min' / 'max' model comes back.

STATED precondition of model_from_dict: the identifiers of the reaction records are pairwise different (ghost inverse map
identifier -> position, `mfd_reaction_position`); objective coefficients are finite numbers.
ASSUMED (trusted list, keys `C11:*` below): Model() (a new empty model, direction 'max'); add_metabolites / genes.extend as recorded
calls; add_reactions on the new model with new reactions of pairwise different identifiers: model.reactions holds exactly the
listed reactions, in order, each indexed under its identifier (what contracts/c02_add_reactions.py proves) - used through an
OBLIGED cut lemma in terms of the document's records; set_objective as a recorded call that installs a new objective with the
current direction (contracts/c03_objective.py, dictionary case); the objective_direction setter for 'min' / 'max'; and
object_id(read_<kind>(r)) == record_id(r): the object read from a record carries the record's identifier (the reader contracts).
Engine: one ADDITIVE hook, `filter_monotone` in pyvc/comprehension.gen_to_seq (a contract module may restate or leave out the fact
`the kept positions of a filtered comprehension are increasing`; this module leaves it out - nothing depends on the order of
`objective_reactions` - because its trigger src[j + 1] re-fires on the terms it creates and drove every path-feasibility query of
this function into its timeout).  Clause (a) is proved as a cut at the set_objective call from the few hypotheses it needs
(`_relevant`: fewer hypotheses is sound), then reused: proving it at the exit among all quantifiers of the path was seed-dependent.

MUTATION TRIALS (tools/mutate_and_run.sh resp. the same on one case; every one fails):
  model_to_dict:  map(_gene_to_dict, model.reactions) -> post `genes` (sat); direction test == "max" -> post `direction` (sat);
    stored value "max" -> `direction` (sat); reactions.sort dropped -> `reactions` (sat); obj["id"] = model.name -> `id` (sat);
    `if not sort` -> list clauses (sat); itemgetter("name") -> ordered clause (sat).
  model_from_dict:  `!= 0` -> `> 0` -> cut `every-record-with-a-non-zero-coefficient-is-listed` (sat); objective_direction = "max" ->
    `direction` (unknown); "notes" dropped from the key set -> `attributes` (unknown); "version" added to it -> `attributes` (sat);
    set_objective call dropped -> post False (sat); coefficient replaced by 1.0 / negated -> clause (b) (unknown); reactions[1:] ->
    cut lemma of add_reactions (unknown).

ASSUMED (builtins, in this module's hooks): `list.sort(key=itemgetter("id"))` permutes the list (pyvc/builtins.list_sort) and leaves
it ordered by str_le over record_id(entry) (`record_id(r)` = r["id"]; added here, the engine's list_sort does not model the order).
The values `model.name`, `model.compartments`, `model.notes`, `model.annotation` are what the property getters return (the model is
a view with these attributes, as the objects of the per-object writers are).
"""
import z3
from .common import *  # noqa
from . import c10_c11_io as W
from . import c11_reader as R  # noqa  (the reader functions are under contract there)
from pyvc import builtins as B

MD = W.MD
REG.inline.add("Model.solver@getter")
REG.inline.add("Model.objective_direction@getter")
for _c in ("Solver", "Objective", "MetRecord", "RxnRecord", "GeneRecord"):
    REG.classes.setdefault(_c, [])

# writer function -> (class tag of its records, the term `the record it returns for x`)
WRITERS = {
    "_metabolite_to_dict": ("MetRecord", z3.Function("written_metabolite", Ref, Ref)),
    "_reaction_to_dict": ("RxnRecord", z3.Function("written_reaction", Ref, Ref)),
    "_gene_to_dict": ("GeneRecord", z3.Function("written_gene", Ref, Ref)),
}
RECORD_CLASSES = tuple(c for c, _ in WRITERS.values())
# key of the document -> (attribute of the model, writer)
LISTS = (("metabolites", "metabolites", "_metabolite_to_dict"), ("reactions", "reactions", "_reaction_to_dict"),
         ("genes", "genes", "_gene_to_dict"))
record_id = z3.Function("record_id", Ref, Id)                    # r["id"] of a per-object record
str_le = z3.Function("str_le", Id, Id, z3.BoolSort())            # the order of python strings (uninterpreted)
MODEL_KEYS = ("model_to_dict", "model_from_dict")


def _b(c):
    return z3.BoolVal(c) if isinstance(c, bool) else c


def _cur(eng):
    return getattr(getattr(eng, "cur_contract", None), "key", None)


# ---------------------------------------------------------------- hooks
def global_hook(eng, name):
    if _cur(eng) == "model_to_dict" and name in ("map", "itemgetter"):
        return VFunc("abstract", "c11:" + name)
    if _cur(eng) == "model_from_dict":
        if name in READERS:
            return VFunc("abstract", "c11:read", name)
        if name in ("Model", "set_objective"):
            return VFunc("abstract", "c11:" + name)
    return None


def call_abstract(eng, st, f, pos, kw):
    if f.a == "c11:map":
        fn, it = (pos + [None, None])[:2]
        if len(pos) != 2 or kw or not (isinstance(fn, VFunc) and fn.kind == "repo" and fn.a in WRITERS):
            raise Unsupported("map(...) of something else than a writer function of cobra.io.dict")
        con = eng.reg.get(fn.a)
        if con is None or con.assumed or con.modifies(Env({}, st, eng=eng)):
            raise Unsupported(f"{fn.a} is not under a proved, side-effect free contract")
        if not (isinstance(it, VObj) and it.cls == "DictList"):
            raise Unsupported("map(writer, ...) over something else than a DictList of the model")
        src = B.to_seq(eng, st, it)
        cls, wf = WRITERS[fn.a]
        out = VSeq(src.n, lambda s, i: VRef(wf(unwrap(src.get(s, i), "ref:Object")), cls), known_len=None, tag="map", src=it)
        return [("ok", st, out)]
    r = _mfd_call_abstract(eng, st, f, pos, kw)
    if r is not None:
        return r
    if f.a == "c11:itemgetter":
        if len(pos) != 1 or kw or not isinstance(pos[0], VConc):
            raise Unsupported("itemgetter(...) with these arguments")
        return [("ok", st, VFunc("abstract", "c11:itemgetter()", pos[0].py))]
    return None


def call_method_hook(eng, st, recv, name, pos, kw):
    if _cur(eng) == "model_from_dict":
        r = _mfd_call_method(eng, st, recv, name, pos, kw)
        if r is not None:
            return r
    if name == "sort" and isinstance(recv, VObj) and recv.kind == "list" and st.objs[recv.oid].get("ekind", "")[4:] in RECORD_CLASSES:
        key = kw.get("key")
        if pos or set(kw) != {"key"} or not (isinstance(key, VFunc) and key.a == "c11:itemgetter()" and key.b == "id"):
            return None                  # any other sort: the engine's permutation semantics, no order
        outs = B.list_sort(eng, st, recv, kw)

        def ordered(s, _):
            r = s.objs[recv.oid]
            n, e = r["len"], r["elem"]
            j, k = qv("oj"), qv("ok")
            ax = FA([j, k], z3.Implies(z3.And(0 <= j, j < k, k < n), str_le(record_id(e[j]), record_id(e[k]))),
                    patterns=[z3.MultiPattern(e[j], e[k])])
            return [("ok", s.assume(ax), NONE)]
        return eng.bind(outs, ordered)
    return None


def getattr_hook(eng, st, v, name):
    if _cur(eng) != "model_from_dict":
        return None
    if isinstance(v, VRef) and v.cls in RECORD_CLASSES and name == "get":
        return [("ok", st, VFunc("bound", v, name))]
    if _is_new_model(st, v) and name in ("add_metabolites", "add_reactions"):
        return [("ok", st, VFunc("bound", v, name))]
    return None


def setattr_hook(eng, st, v, name, val):
    if _cur(eng) == "model_from_dict" and _is_new_model(st, v):
        return _mfd_setattr(eng, st, v, name, val)
    return None


def filter_monotone(eng, st, src, m):
    """`[rxn for rxn in obj["reactions"] if ...]`: that the kept positions are INCREASING is left out here (assuming less is sound;
    nothing below depends on the order of that list: it only feeds a dictionary).  The engine's form of the fact has the trigger
    src[j + 1], which re-fires on the terms it creates (path feasibility queries then run into their timeout), the two-variable
    form instantiates quadratically."""
    if _cur(eng) != "model_from_dict":
        return None
    return z3.BoolVal(True)


HOOKS = chain_hooks({"global": global_hook, "call_abstract": call_abstract, "call_method": call_method_hook, "getattr": getattr_hook,
                     "setattr": setattr_hook, "filter_monotone": filter_monotone}, W.HOOKS)


# ---------------------------------------------------------------- model_to_dict
def _dict_t():
    return TDict("id", "ref:Any")


def _model_t(name_t):
    return TObj("Model", {"id": TStr(), "name": name_t(), "compartments": _dict_t(), "notes": _dict_t(), "annotation": _dict_t(),
                          "metabolites": TDictList("Metabolite"), "reactions": TDictList("Reaction"), "genes": TDictList("Gene"),
                          "_solver": TObj("Solver", {"objective": TObj("Objective", {"direction": TStr()})})})


def direction_of(st, model):
    """the direction of the objective installed in the model's solver"""
    sol = st.objs[model.oid]["attr:_solver"]
    return st.objs[st.objs[sol.oid]["attr:objective"].oid]["attr:direction"]


def list_clauses(E, st1, lst, dl, fname, sort_t, others=()):
    """the list `lst` (state st1) holds the records the writer `fname` returns for the members of the DictList dl (entry state)"""
    cls, wf = WRITERS[fname]
    if not (isinstance(lst, VObj) and lst.kind == "list" and lst.oid not in E.s0.objs and lst.oid not in others):
        return [z3.BoolVal(False)]
    r1 = st1.objs[lst.oid]
    if r1.get("items") is not None or r1.get("ekind") != "ref:" + cls:
        return [z3.BoolVal(False)]
    n1, e1 = r1["len"], r1["elem"]
    n0, e0 = L(E.s0, dl)
    j, k = qv("lj"), qv("lk")
    rng = z3.And(0 <= j, j < n0)
    cs = [n1 == n0]
    pm = st1.ghost.get(("perm", lst.oid))
    if pm is None:
        cs += [z3.Not(sort_t), FA([j], z3.Implies(rng, e1[j] == wf(e0[j])), patterns=[e1[j]])]
    else:
        perm, inv = pm
        cs += [sort_t,
               FA([j], z3.Implies(rng, z3.And(0 <= perm[j], perm[j] < n0, inv[perm[j]] == j, e1[j] == wf(e0[perm[j]]))), patterns=[e1[j]]),
               FA([j], z3.Implies(rng, z3.And(0 <= inv[j], inv[j] < n0, perm[inv[j]] == j)), patterns=[inv[j]]),
               FA([j, k], z3.Implies(z3.And(0 <= j, j < k, k < n0), str_le(record_id(e1[j]), record_id(e1[k]))),
                  patterns=[z3.MultiPattern(e1[j], e1[k])])]
    return cs


def optional_clauses(E, st1, r, d, tag):
    """the optional entries of the record d (dict of its items) for the object record r: `_update_optional`'s contract"""
    ks, defaults, _ = W.UO_INST[tag]
    cs = []
    for key in ks:
        v = r["attr:" + key]
        want = _b(W._uo_written(E, E.s0, v, defaults[key]))
        w = d.get(key)
        if w is None:
            cs.append(z3.Not(want))
        elif isinstance(w, tuple):
            cs.append(w[1] == want)
            cs.append(W._written_dict(E, st1, v, w[2], w[1]) if isinstance(v, VObj) else _b(E.eng.eq(st1, w[2], v)))
        else:
            cs.append(want)
            cs.append(W._written_dict(E, st1, v, w) if isinstance(v, VObj) else _b(E.eng.eq(st1, w, v)))
    return cs


def m2d_parts(E):
    """the post-condition of model_to_dict in named groups of conjuncts"""
    model, res = E["model"], E.res
    if not (isinstance(res, VObj) and res.kind == "dict" and res.oid not in E.s0.objs):
        return {"record": [z3.BoolVal(False)]}
    try:
        st1 = B.to_record(E.s1, res)
    except Unsupported:
        return {"record": [z3.BoolVal(False)]}
    mrec = E.s0.objs[model.oid]
    items = list(st1.objs[res.oid]["pyitems"])
    keys, d = [k for k, _ in items], dict(items)
    ks = W.UO_INST["model"][0]
    rest = keys[4:]
    has_dir = "objective_direction" in keys
    opt = rest[1:] if rest[:1] == ["objective_direction"] else rest
    out = {"record": [z3.BoolVal(keys[:4] == ["metabolites", "reactions", "genes", "id"] and len(set(keys)) == len(keys)
                                 and opt == [k for k in ks if k in opt])]}
    if not z3.is_true(out["record"][0]):
        return out
    out["id"] = [_b(E.eng.eq(st1, d["id"], mrec["attr:id"])) if not isinstance(d["id"], (tuple, VObj)) else z3.BoolVal(False)]
    is_min = _b(E.eng.eq(E.s0, direction_of(E.s0, model), VConc("min")))
    if has_dir:
        w = d["objective_direction"]
        out["direction"] = [is_min, z3.BoolVal(isinstance(w, VConc) and w.py == "min")]
    else:
        out["direction"] = [z3.Not(is_min)]
    out["optional"] = optional_clauses(E, st1, mrec, d, "model")
    seen = []
    for key, attr, fname in LISTS:
        lst = d[key]
        out[key] = list_clauses(E, st1, lst, mrec["attr:" + attr], fname, E["sort"].t, others=tuple(seen))
        seen.append(getattr(lst, "oid", None))
    return out


def _m2d_post(E):
    return z3.And(*[c for cs in m2d_parts(E).values() for c in cs])


def _m2d_cases():
    out = []
    for tag, t in (("name:none", TNone), ("name:set", TStr)):
        c = Case(tag, ensures=_m2d_post)
        c.params_override = {"model": _model_t(t)}
        out.append(c)
    return out


_sort_t = TBool()
_sort_t.default = VBool(False)
REG.add(Contract(MD, "model_to_dict", "C11", [("model", _model_t(TStr)), ("sort", _sort_t)], _m2d_cases(), key="model_to_dict",
                 note="lists of per-object records as lists of references, the record of x as the term written_<kind>(x) whose content "
                      "is the proved post-condition of the writer function (see the module docstring); ASSUMED: list.sort(key="
                      "itemgetter('id')) leaves the list ordered by str_le over record_id (uninterpreted)"))

KEYS = ["model_to_dict"]


# ================================================================ model_from_dict
# reader function -> (class of the object it returns, the term `the object it returns for the record r`)
READERS = {
    "_metabolite_from_dict": ("Metabolite", "MetRecord", z3.Function("read_metabolite", Ref, Ref)),
    "_reaction_from_dict": ("Reaction", "RxnRecord", z3.Function("read_reaction", Ref, Ref)),
    "gene_from_dict": ("Gene", "GeneRecord", z3.Function("read_gene", Ref, Ref)),
}
object_id = z3.Function("object_id", Ref, Id)                       # the identifier of an object a reader returns
has_coef = z3.Function("record_has_objective_coefficient", Ref, z3.BoolSort())     # "objective_coefficient" in r
coef_of = z3.Function("record_objective_coefficient", Ref, z3.RealSort())           # r["objective_coefficient"] (finite)
RXN_POS = z3.Const("mfd_reaction_position", z3.ArraySort(Id, z3.IntSort()))        # ghost inverse: identifier -> position in the document
TABLE = ("id", "name", "notes", "compartments", "annotation")                       # the document keys that are assigned as attributes
OPTIONAL_DOC = ("objective_direction", "name", "compartments", "notes", "annotation")
MIN, MAX = id_lit("min"), id_lit("max")


def reader_axioms(E=None):
    """ASSUMED, from the proved post-conditions of the reader functions (contracts/c11_reader.py: the key `id` of the record is
    assigned - through the property setter of cobra.Object - with the entry's value): the object read from a record carries the
    record's identifier"""
    r = qv("ar", Ref)
    return [FA([r], object_id(rd(r)) == record_id(r), patterns=[rd(r)]) for _, _, rd in READERS.values()]


def _trace(st):
    return st.ghost.get("mfd_trace", ())


def _event(st, *ev):
    return st.setghost("mfd_trace", _trace(st) + (tuple(ev) + (st,),))


def _is_new_model(st, v):
    m = st.ghost.get("mfd_model")
    return isinstance(v, VObj) and m is not None and v.oid == m.oid


def _empty_dictlist(st, cls):
    from pyvc.state import alloc_dict, alloc_list
    st, d = alloc_dict(st, "id", "int", dom=z3.K(Id, z3.BoolVal(False)), val=z3.K(Id, z3.IntVal(0)))
    return alloc_list(st, "ref:" + cls, length=z3.IntVal(0), cls="DictList", attrs={"attr:_dict": d})


def _model_ctor(eng, st, E):
    from pyvc.state import alloc_obj
    attrs = {"attr:_id": NONE, "attr:name": NONE}
    for a in ("notes", "_annotation", "_compartments"):
        st, o = alloc_obj(st, "dict", {"lazy": True})
        attrs["attr:" + a] = VObj(o.oid, "dict", "dict")
    for a, cls in (("genes", "Gene"), ("reactions", "Reaction"), ("metabolites", "Metabolite")):
        st, dl = _empty_dictlist(st, cls)
        attrs["attr:" + a] = dl
    st, ob = alloc_obj(st, "Objective", {"attr:direction": VConc("max")})
    st, sol = alloc_obj(st, "Solver", {"attr:objective": ob})
    attrs["attr:_solver"] = sol
    st, m = alloc_obj(st, "Model", attrs)
    return st.setghost("mfd_model", m), m


REG.add(Contract("cobra/core/model.py", "Model.__init__", "C11", [("self", TRef("Model"))], [Case("new")], assumed=True,
                 key="C11:Model.__init__", result=_model_ctor,
                 note="object allocation, Model(): a NEW model with id None, name None, empty notes / annotation / compartment table, "
                      "three empty DictLists (metabolites, reactions, genes) and a solver whose objective has the direction 'max' "
                      "(interface.Objective(Zero): optlang's default direction); no existing object is modified"))
REG.add(Contract("cobra/core/model.py", "Model.add_reactions", "C11", [("self", TRef("Model")), ("reaction_list", TList("ref:Reaction"))],
                 [Case("any")], assumed=True, key="C11:Model.add_reactions",
                 note="recorded abstract call on the NEW (empty) model with a list of new reactions whose identifiers are pairwise "
                      "different: afterwards model.reactions holds exactly the listed reactions, in order, each indexed under its "
                      "identifier (what contracts/c02_add_reactions.py proves for Model.add_reactions without a context: the new tail is "
                      "the list of reactions with unknown identifiers, in order, and the DictList is well formed); everything else it "
                      "does (metabolite / gene cross references, solver variables) is not modelled here"))
REG.add(Contract("cobra/core/model.py", "Model.add_metabolites", "C11", [("self", TRef("Model")), ("metabolite_list", TList("ref:Metabolite"))],
                 [Case("any")], assumed=True, key="C11:Model.add_metabolites",
                 note="recorded abstract call (its argument is what is proved); model.metabolites afterwards is not modelled here "
                      "(contracts/c02_add_metabolites.py)"))
REG.add(Contract("cobra/core/dictlist.py", "DictList.extend", "C11", [("self", TRef("DictList")), ("iterable", TList("ref:Gene"))],
                 [Case("any")], assumed=True, key="C11:genes.extend",
                 note="recorded abstract call model.genes.extend(list) (its argument is what is proved); model.genes afterwards is not "
                      "modelled here (DictList.extend: contracts/c15_dictlist.py)"))
REG.add(Contract("cobra/util/solver.py", "set_objective", "C11", [("model", TRef("Model")), ("value", TDict("ref:Reaction", "real"))],
                 [Case("any")], assumed=True, key="C11:set_objective",
                 note="recorded abstract call set_objective(model, {reaction: coefficient}) (its arguments are what is proved); its effect "
                      "is its own contract (contracts/c03_objective.py, dictionary case without context: a NEW objective with exactly these "
                      "coefficients on the forward / reverse variables, the CURRENT direction kept) - here: the solver gets a new "
                      "objective with the direction the old one had"))
REG.add(Contract("cobra/core/model.py", "Model.objective_direction@setter", "C11", [("self", TRef("Model")), ("value", TStr())],
                 [Case("any")], assumed=True, key="C11:Model.objective_direction@setter",
                 note="for the values 'min' and 'max' (the only ones it is called with here): the direction of the objective installed "
                      "in the model's solver is that value afterwards (value.lower().startswith('max' / 'min'); no context is open in "
                      "a new model: @resettable registers nothing)"))
ASSUMED_KEYS = ["C11:Model.__init__", "C11:Model.add_reactions", "C11:Model.add_metabolites", "C11:genes.extend", "C11:set_objective",
                "C11:Model.objective_direction@setter"]


def _used(key):
    from pyvc.apply import ASSUMED_USED
    ASSUMED_USED[key] = REG.get(key).note


def _objective_reactions(st):
    """the record of the local list `objective_reactions` (the one filtered list of reaction records) and its ghost maps"""
    flt = [v for k, v in st.ghost.items() if isinstance(k, tuple) and k and k[0] == "filter"]
    fl = [r for r in st.objs.values() if isinstance(r, dict) and r.get("ekind") == "ref:RxnRecord" and z3.is_expr(r.get("len"))
          and z3.is_const(z3.simplify(r["len"])) and ("filter", z3.simplify(r["len"]).decl().name()) in st.ghost]
    if len(flt) != 1 or len(fl) != 1:
        return None
    return fl[0], flt[0]


def nonzero(r):
    return z3.And(has_coef(r), coef_of(r) != 0)


def listed_clause(st_c, model, D, doc):
    """every record with a non-zero coefficient (negative ones too) is the dst[j]-th entry of `objective_reactions`, the reaction
    looked up for it is the one read from it, and that reaction is a key of the dictionary D (state st_c: when set_objective is
    called)"""
    got = _objective_reactions(st_c)
    if got is None:
        return None
    fl, (src, dst, _) = got
    dr = st_c.objs[D.oid]
    if dr.get("lazy") or dr.get("pure") or not dr.get("kkind", "").startswith("ref"):
        return None
    n0, e0 = doc
    _, _, rd = READERS["_reaction_from_dict"]
    e2 = fl["elem"]
    mr = st_c.objs[st_c.objs[model.oid]["attr:reactions"].oid]
    eM, vM = mr["elem"], st_c.objs[mr["attr:_dict"].oid]["val"]
    j = qv("oj")
    return FA([j], z3.Implies(z3.And(0 <= j, j < n0, nonzero(e0[j])),
                              z3.And(0 <= dst[j], e2[dst[j]] == e0[j], eM[vM[record_id(e2[dst[j]])]] == rd(e0[j]),
                                     z3.Select(dr["dom"], rd(e0[j])))), patterns=[e0[j]])


def _trigger_array(q):
    """the name of the array the (first) trigger of a quantified formula selects from, or None"""
    try:
        t = q.pattern(0).children()[0]
        if z3.is_select(t) and z3.is_const(t.arg(0)):
            return t.arg(0).decl().name()
    except Exception:  # noqa
        pass
    return None


def _relevant(st, keep_ids, names):
    """the quantifier-free conjuncts of the path condition plus the quantified ones that are listed (by identity) or whose first
    trigger starts with one of the given array names: proving from FEWER hypotheses is sound and keeps the query small"""
    out = []
    for c in st.pc:
        if not z3.is_quantifier(c):
            out.append(c)
        elif c.get_id() in keep_ids:
            out.append(c)
        elif c.num_patterns() and _trigger_array(c) in names:
            out.append(c)
    return tuple(out)


def _mfd_call_abstract(eng, st, f, pos, kw):
    if f.a == "c11:read":
        cls, rcls, rd = READERS[f.b]
        want = 2 if f.b == "_reaction_from_dict" else 1
        if kw or len(pos) != want or not (isinstance(pos[0], VRef) and pos[0].cls == rcls):
            raise Unsupported(f"{f.b} with these arguments")
        if want == 2 and not _is_new_model(st, pos[1]):
            raise Unsupported("_reaction_from_dict with another model than the new one")
        con = eng.reg.get(f.b)
        if con is None or con.assumed:
            raise Unsupported(f"{f.b} is not under a proved contract")
        return [("ok", st, VRef(rd(pos[0].t), cls))]
    if f.a == "c11:Model":
        if pos or kw:
            raise Unsupported("Model(...) with arguments")
        return eng.apply_contract(st, eng.reg.get("C11:Model.__init__"), pos, kw, constructing="Model")
    if f.a == "c11:set_objective":
        if len(pos) != 2 or not _is_new_model(st, pos[0]):
            raise Unsupported("set_objective(...) with these arguments")
        from pyvc.state import alloc_obj
        _used("C11:set_objective")
        # cut (obliged from the few facts it needs, then used): which reactions are keys of the dictionary
        doc, cut = st.ghost.get("mfd_doc_reactions"), st.ghost.get("mfd_cut")
        if doc is not None and cut is not None and isinstance(pos[1], VObj) and pos[1].kind == "dict":
            cl = listed_clause(st, pos[0], pos[1], doc)
            got = _objective_reactions(st)
            if cl is not None and got is not None:
                from pyvc.state import State
                fl, (src, dst, _) = got
                mr = st.objs[st.objs[pos[0].oid]["attr:reactions"].oid]
                names = [dst.decl().name(), fl["elem"].decl().name(), mr["elem"].decl().name()]
                small = State(_relevant(st, {c.get_id() for c in cut}, names), st.frames, st.heap, st.objs, st.ghost)
                eng.oblige(small, cl, "set_objective/every-record-with-a-non-zero-coefficient-is-listed", kind="side")
                st = st.assume(cl)
        st = _event(st, "set_objective", pos[1], tuple(sorted(kw)))
        sol = st.objs[pos[0].oid]["attr:_solver"]
        st, ob = alloc_obj(st, "Objective", {"attr:direction": direction_of(st, pos[0])})
        return [("ok", st.updobj(sol.oid, **{"attr:objective": ob}), NONE)]
    return None


def _mfd_call_method(eng, st, recv, name, pos, kw):
    m = st.ghost.get("mfd_model")
    if isinstance(recv, VObj) and recv.kind == "dict" and st.objs[recv.oid].get("pure") and name == "get" and 1 <= len(pos) <= 2 \
            and not kw and isinstance(pos[0], VConc):
        # d.get(<literal key>[, default]) on a record dictionary: a conditional entry forks on its presence condition
        dflt = pos[1] if len(pos) > 1 else NONE
        w = dict(st.objs[recv.oid]["pyitems"]).get(pos[0].py)
        if w is None:
            return [("ok", st, dflt)]
        if isinstance(w, tuple):
            return [("ok", s, w[2] if ok else dflt) for ok, s in eng.branch(st, w[1])]
        return [("ok", st, w)]
    if isinstance(recv, VRef) and recv.cls == "RxnRecord" and not kw and pos and isinstance(pos[0], VConc):
        key = pos[0].py
        if name == "__getitem__" and len(pos) == 1 and key == "id":
            return [("ok", st, VStr(record_id(recv.t)))]
        if name == "__getitem__" and len(pos) == 1 and key == "objective_coefficient":
            # the KeyError of an absent entry is excluded by an obligation
            eng.oblige(st, has_coef(recv.t), "record-entry-present:objective_coefficient", kind="callpre")
            return [("ok", st, VReal(0, coef_of(recv.t)))]
        if name == "get" and len(pos) == 2 and key == "objective_coefficient" and isinstance(pos[1], (VInt, VReal)):
            d = eng.to_real(pos[1])
            h = has_coef(recv.t)
            return [("ok", st, VReal(z3.If(h, z3.IntVal(0), d.k), z3.If(h, coef_of(recv.t), d.v)))]
        raise Unsupported(f"reaction record: {name}({key!r})")
    if m is None:
        return None
    mrec = st.objs[m.oid]
    if _is_new_model(st, recv) and name in ("add_metabolites", "add_reactions"):
        cls = "Metabolite" if name == "add_metabolites" else "Reaction"
        if kw or len(pos) != 1 or not (isinstance(pos[0], VObj) and pos[0].kind == "list" and st.objs[pos[0].oid].get("ekind") == "ref:" + cls):
            raise Unsupported(f"{name} with something else than one list of new objects")
        _used("C11:Model." + name)
        st = _event(st, name, pos[0])
        dl = mrec["attr:" + cls.lower() + "s"]
        from pyvc.state import alloc_dict
        lr = st.objs[pos[0].oid]
        st, d = alloc_dict(st, "id", "int", base=fresh_name("idx"))
        if name == "add_metabolites":
            st = st.updobj(dl.oid, len=fresh("mets_len", I), elem=fresh("mets_elem", lr["elem"].sort()), **{"attr:_dict": d})
            return [("ok", st, NONE)]
        # ASSUMED (C11:Model.add_reactions): exactly the listed reactions, in order, each indexed under its identifier
        n, e = lr["len"], lr["elem"]
        dr = st.objs[d.oid]
        j = qv("aj")
        st = st.updobj(dl.oid, len=n, elem=e, **{"attr:_dict": d})
        a2 = FA([j], z3.Implies(z3.And(0 <= j, j < n), z3.And(z3.Select(dr["dom"], object_id(e[j])),
                                                               z3.Select(dr["val"], object_id(e[j])) == j)), patterns=[e[j]])
        # cut lemma (obliged under the assumption a2, then used INSTEAD of it: one quantifier less on the rest of the path, and in
        # terms of the DOCUMENT's reaction records): every listed reaction is found under the identifier of its record
        doc = st.ghost.get("mfd_doc_reactions")
        if doc is None:
            raise Unsupported("add_reactions: the document's reaction list is not known")
        n0, e0 = doc
        _, _, rd = READERS["_reaction_from_dict"]
        lem = FA([j], z3.Implies(z3.And(0 <= j, j < n0), z3.And(e[j] == rd(e0[j]), z3.Select(dr["dom"], record_id(e0[j])),
                                                                z3.Select(dr["val"], record_id(e0[j])) == j)), patterns=[e0[j]])
        eng.oblige(st.assume(a2), z3.And(n == n0, lem), "add_reactions/listed-reactions-are-found-under-the-identifiers-of-their-records",
                   kind="side")
        st = st.assume(n == n0, lem).setghost("mfd_cut", (n == n0, lem))
        return [("ok", st, NONE)]
    if isinstance(recv, VObj) and recv.oid == mrec["attr:genes"].oid and name == "extend":
        if kw or len(pos) != 1 or not (isinstance(pos[0], VObj) and pos[0].kind == "list" and st.objs[pos[0].oid].get("ekind") == "ref:Gene"):
            raise Unsupported("genes.extend with something else than one list of new genes")
        _used("C11:genes.extend")
        st = _event(st, "genes.extend", pos[0])
        from pyvc.state import alloc_dict
        st, d = alloc_dict(st, "id", "int", base=fresh_name("idx"))
        st = st.updobj(recv.oid, len=fresh("genes_len", I), elem=fresh("genes_elem", st.objs[recv.oid]["elem"].sort()), **{"attr:_dict": d})
        return [("ok", st, NONE)]
    if isinstance(recv, VObj) and recv.oid == mrec["attr:reactions"].oid and name == "get_by_id" and len(pos) == 1 and not kw \
            and isinstance(pos[0], VStr):
        # DictList.get_by_id by its PROVED contract (C15): elem[index[id]] when the identifier is in the index; the KeyError of the
        # other case is excluded by an obligation
        dom, val = Dv(st, recv)
        eng.oblige(st, z3.Select(dom, pos[0].t), "call:DictList.get_by_id/identifier-is-in-the-model", kind="callpre")
        return [("ok", st, VRef(L(st, recv)[1][val[pos[0].t]], "Reaction"))]
    return None


def _mfd_setattr(eng, st, v, name, val):
    if name == "objective_direction":
        if not isinstance(val, (VStr, VConc)):
            raise Unsupported(f"objective_direction = {val!r}")
        _used("C11:Model.objective_direction@setter")
        t = unwrap(val, "id")
        eng.oblige(st, z3.Or(t == MIN, t == MAX), "objective_direction-setter/value-is-min-or-max", kind="callpre")
        sol = st.objs[v.oid]["attr:_solver"]
        ob = st.objs[sol.oid]["attr:objective"]
        return [("ok", _event(st, "direction=", val).updobj(ob.oid, **{"attr:direction": val}), NONE)]
    # every other assignment: recorded (what the property setters id / annotation / compartments do with the value is not modelled)
    return [("ok", _event(st, "setattr", name, val).updobj(v.oid, **{"attr:set:" + name: val}), NONE)]


def _doc_record(with_reactions=True, present=OPTIONAL_DOC[1:]):
    """the document: the three lists (any length), `id`, `objective_direction` as a CONDITIONAL entry (present or not, any string),
    the optional model attributes listed in `present` (the cases enumerate all 16 subsets) and a key that is not in the table"""
    def make(st, name):
        from pyvc.state import alloc_list, alloc_obj
        items = []
        for key, cls in (("metabolites", "MetRecord"), ("reactions", "RxnRecord"), ("genes", "GeneRecord")):
            if key == "reactions" and not with_reactions:
                continue
            st, l = alloc_list(st, "ref:" + cls, base=f"{name}_{key}")
            items.append((key, l))
        items.append(("id", VStr(z3.Const(name + "_id", Id))))
        items.append(("objective_direction", ("maybe", z3.Bool(f"{name}_has_objective_direction"), VStr(z3.Const(f"{name}_objective_direction", Id)))))
        for key in OPTIONAL_DOC[1:]:
            if key not in present:
                continue
            if key in ("compartments", "notes", "annotation"):
                st, v = _dict_t().make(st, f"{name}_{key}")
            else:
                v = VStr(z3.Const(f"{name}_{key}", Id))
            items.append((key, v))
        items.append(("version", VStr(z3.Const(name + "_version", Id))))
        st, o = alloc_obj(st, "dict", {"pure": True, "pyitems": tuple(items)})
        d = VObj(o.oid, "dict", "dict")
        if with_reactions:
            r = st.objs[dict(items)["reactions"].oid]
            st = st.setghost("mfd_doc_reactions", (r["len"], r["elem"]))
        return st, d
    return make


def _doc_entry(E, key):
    return dict(E.s0.objs[E["obj"].oid]["pyitems"]).get(key)


def _mfd_pre(E):
    """STATED: the identifiers of the document's reaction records are pairwise different (ghost inverse map: identifier -> position)"""
    rx = _doc_entry(E, "reactions")
    if rx is None:
        return TRUE()
    n, e = L(E.s0, rx)
    j = qv("pj")
    return FA([j], z3.Implies(z3.And(0 <= j, j < n), RXN_POS[record_id(e[j])] == j), patterns=[e[j]])


def _read_list(E, ev, key, fname):
    """the argument of the recorded call is a NEW list holding, in order, the object the reader returns for every record of the
    document's list `key`"""
    cls, _, rd = READERS[fname]
    lst, st_c = ev[1], ev[-1]
    doc = _doc_entry(E, key)
    if not (isinstance(lst, VObj) and lst.kind == "list" and lst.oid not in E.s0.objs):
        return [z3.BoolVal(False)]
    lr = st_c.objs[lst.oid]
    if lr.get("items") is not None or lr.get("ekind") != "ref:" + cls:
        return [z3.BoolVal(False)]
    n0, e0 = L(E.s0, doc)
    j = qv("rj")
    return [lr["len"] == n0, FA([j], z3.Implies(z3.And(0 <= j, j < n0), lr["elem"][j] == rd(e0[j])), patterns=[lr["elem"][j]])]


def restored_direction(has, d):
    """the direction of the model read from a document: the entry when it is present and 'min' or 'max', else 'max'"""
    return z3.If(z3.And(has, z3.Or(d == MIN, d == MAX)), d, MAX)


def mfd_parts(E):
    """the post-condition of model_from_dict in named groups of conjuncts"""
    res = E.res
    tr = _trace(E.s1)
    m = E.s1.ghost.get("mfd_model")
    if not (isinstance(res, VObj) and res.cls == "Model" and m is not None and res.oid == m.oid and res.oid not in E.s0.objs):
        return {"model": [z3.BoolVal(False)]}
    names = [ev[0] for ev in tr]
    fixed = ["add_metabolites", "genes.extend", "add_reactions", "set_objective"]
    rest = names[4:]
    has_dir_ev = rest[:1] == ["direction="]
    sets = tr[5:] if has_dir_ev else tr[4:]
    out = {"model": [z3.BoolVal(names[:4] == fixed and all(ev[0] == "setattr" for ev in sets))]}
    if not z3.is_true(out["model"][0]):
        return out
    out["metabolites"] = _read_list(E, tr[0], "metabolites", "_metabolite_from_dict")
    out["genes"] = _read_list(E, tr[1], "genes", "gene_from_dict")
    out["reactions"] = _read_list(E, tr[2], "reactions", "_reaction_from_dict")
    # ---- the objective: exactly the reactions whose record has a NON-ZERO objective_coefficient, with that coefficient
    ev = tr[3]
    D, st_c = ev[1], ev[-1]
    ok = isinstance(D, VObj) and D.kind == "dict" and D.oid not in E.s0.objs and ev[2] == ()
    dr = st_c.objs[D.oid] if ok else {}
    ok = ok and not dr.get("lazy") and not dr.get("pure") and dr.get("kkind", "").startswith("ref") and dr.get("vkind") == "real"
    out["objective"] = [z3.BoolVal(bool(ok))]
    cl = listed_clause(st_c, res, D, L(E.s0, _doc_entry(E, "reactions"))) if ok else None
    if cl is not None:
        n0, e0 = L(E.s0, _doc_entry(E, "reactions"))
        _, _, rd = READERS["_reaction_from_dict"]
        x = qv("ox", Ref)
        nz = nonzero
        p = RXN_POS[object_id(x)]
        out["objective"] += [
            cl,
            # nothing else is listed: a listed reaction is the one read from the record at its identifier's position, whose
            # coefficient is present, non-zero and the listed one
            FA([x], z3.Implies(z3.Select(dr["dom"], x), z3.And(0 <= p, p < n0, x == rd(e0[p]), nz(e0[p]),
                                                                z3.Select(dr["val"], x) == coef_of(e0[p]))),
               patterns=[z3.Select(dr["dom"], x)])]
    else:
        out["objective"].append(z3.BoolVal(False))
    # ---- the direction
    w = _doc_entry(E, "objective_direction")
    has, dv = (w[1], w[2]) if isinstance(w, tuple) else (z3.BoolVal(w is not None), w)
    final = unwrap(direction_of(E.s1, res), "id")
    if dv is None:
        valid = z3.BoolVal(False)
        out["direction"] = [final == MAX]
    else:
        d = unwrap(dv, "id")
        valid = z3.And(has, z3.Or(d == MIN, d == MAX))
        out["direction"] = [final == restored_direction(has, d)]
    if has_dir_ev:
        out["direction"] += [valid, _b(E.eng.eq(E.s1, tr[4][1], dv)) if dv is not None else z3.BoolVal(False)]
    else:
        out["direction"].append(z3.Not(valid))
    # ---- the remaining keys: assigned exactly when they are in the table, with the entry's value object, in document order
    got = [(ev[1], ev[2]) for ev in sets]
    cs, k = [], 0
    for key, w in E.s0.objs[E["obj"].oid]["pyitems"]:
        if key not in TABLE:
            continue
        assigned = k < len(got) and got[k][0] == key
        val = w[2] if isinstance(w, tuple) else w
        if isinstance(w, tuple):
            cs.append(w[1] if assigned else z3.Not(w[1]))
        else:
            cs.append(z3.BoolVal(assigned))
        if assigned:
            g = got[k][1]
            same = (isinstance(g, VObj) and g.oid == val.oid) if isinstance(val, VObj) else E.eng.eq(E.s1, g, val)
            cs.append(_b(same))
            k += 1
    cs.append(z3.BoolVal(k == len(got)))
    out["attributes"] = cs
    return out


def _mfd_post(E):
    return z3.And(*[c for cs in mfd_parts(E).values() for c in cs])


def _mfd_no_reactions(E):
    return z3.BoolVal(_trace(E.s1) == () and E.s1.ghost.get("mfd_model") is None)


def _mfd_cases():
    import itertools
    out = []
    opt = OPTIONAL_DOC[1:]
    for flags in itertools.product((False, True), repeat=len(opt)):
        present = tuple(k for k, f in zip(opt, flags) if f)
        c = Case("document:" + ("+".join(present) or "no-optional-attribute"), ensures=_mfd_post)
        c.params_override = {"obj": TCustom(_doc_record(True, present))}
        out.append(c)
    c2 = Case("no_reactions", ensures=_mfd_no_reactions, raises="ValueError")
    c2.params_override = {"obj": TCustom(_doc_record(False))}
    return out + [c2]


REG.add(Contract(MD, "model_from_dict", "C11", [("obj", TCustom(_doc_record(True)))], _mfd_cases(), pre=_mfd_pre, axioms=reader_axioms,
                 key="model_from_dict",
                 note="documents whose three lists have ANY length; the objects the reader functions return as terms read_<kind>(record) "
                      "(see the module docstring); STATED precondition: the identifiers of the reaction records are pairwise different; "
                      "objective coefficients are finite numbers"))

KEYS = ["model_to_dict", "model_from_dict"]


# ================================================================ glue lemmas: model_to_dict, then model_from_dict
def lemmas():
    """writer post-condition followed by reader post-condition, on synthetic states, from the very clause builders of the two
    contracts (list_clauses / _read_list / restored_direction):
      * per kind of object: the list handed to add_metabolites / genes.extend / add_reactions has the LENGTH of the model's DictList
        and its entry j is the object the reader returns for the record the writer returns for member j (nothing dropped, order
        kept) - with the per-object round-trip lemmas of contracts/c11_reader.py: member j comes back with its attributes;
      * the direction: for a model whose direction is 'min' or 'max', the model read back from what model_to_dict wrote has that
        direction."""
    from pyvc.engine import Engine, Obl
    from pyvc.state import State, alloc_list, alloc_obj
    eng = Engine(REG, HOOKS)
    out = []
    for (key, attr, wname), rname in zip(LISTS, ("_metabolite_from_dict", "_reaction_from_dict", "gene_from_dict")):
        cls, rcls, rd = READERS[rname]
        _, wf = WRITERS[wname]
        st0 = State()
        st0, dl = TDictList(cls).make(st0, "g_" + attr)
        st1, lw = alloc_list(st0, "ref:" + rcls, base="g_written_" + key)
        hyp_w = list_clauses(Env({}, st0, st1, eng=eng), st1, lw, dl, wname, z3.BoolVal(False))
        st1, o = alloc_obj(st1, "dict", {"pure": True, "pyitems": ((key, lw),)})
        doc = VObj(o.oid, "dict", "dict")
        st2, lr = alloc_list(st1, "ref:" + cls, base="g_read_" + key)
        hyp_r = _read_list(Env({"obj": doc}, st1, st2, eng=eng), ("call", lr, st2), key, rname)
        hyps = list(st2.pc) + hyp_w + hyp_r
        R._check_hyps(f"C11/lemma/model-round-trip/{key}", hyps)
        n0, e0 = L(st0, dl)
        r2 = st2.objs[lr.oid]
        j = z3.Const("g_j", I)
        goal = z3.And(r2["len"] == n0, z3.ForAll([j], z3.Implies(z3.And(0 <= j, j < n0), r2["elem"][j] == rd(wf(e0[j])))))
        out.append(Obl(f"C11/lemma/model-round-trip/{key}-same-length-same-order", hyps, goal, "lemma"))
    # direction: what model_to_dict's post-condition says about the entry (m2d_parts: present exactly when the direction is 'min',
    # then with the value 'min'), fed into what model_from_dict's post-condition says about the model read back
    dirx, has, d = z3.Const("g_direction", Id), z3.Bool("g_has_entry"), z3.Const("g_entry", Id)
    hyps = [z3.Or(dirx == MIN, dirx == MAX), MIN != MAX, has == (dirx == MIN), z3.Implies(has, d == MIN)]
    R._check_hyps("C11/lemma/model-round-trip/direction", hyps)
    out.append(Obl("C11/lemma/model-round-trip/direction-min-or-max-is-restored", hyps, restored_direction(has, d) == dirx, "lemma"))
    return out
